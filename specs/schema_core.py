"""Contracts for the repository's own glue around pydantic — C12 (serialisation wiring, constants) and C13 (type checks reach every class).

pydantic, runtype, pint, isodate, yaml are opaque (T5/T9): only what metador-core's own functions do is verified."""
from __future__ import annotations

import z3

from pyvc.api import A, FnSpec
from pyvc.containers import STR, SMap, SObj
from pyvc.engine import KwDict, SClass
from pyvc.values import SBool, SStr, SVal, Unsupported, fresh_name

ConstV = z3.DeclareSort("ConstValue")


class TConst:
    def sort(self):
        return ConstV

    def wrap(self, t):
        return ConstVal(t)

    def unwrap(self, cx, v):
        if isinstance(v, ConstVal):
            return v.t
        raise Unsupported("not a constant value")


class ConstVal(SVal):
    def __init__(self, t):
        self.t = t


class ClsObj(SObj):
    """a (schema) class object with python-level attributes"""

    def py_setattr(self, cx, name, val):
        if name == "__constants__" and isinstance(val, dict) and not val:
            val = SMap(STR, TConst(), name="consts_new")  # `{}` that is filled with symbolic constants afterwards
        SObj.py_setattr(self, cx, name, val)

    def py_issubclass(self, cx, other):
        flag = getattr(self, "is_schema", None)
        if flag is None:
            raise Unsupported("issubclass on this class object")
        return SBool(flag) if not isinstance(flag, bool) else flag


class ObjDict2(SVal):
    def __init__(self, obj):
        self.obj = obj

    def py_contains(self, cx, k):
        return k in self.obj.fields


def smap_update(cx, m: SMap, other):
    """dict.update for symbolic maps: entries of `other` win"""
    if isinstance(other, dict) and not other:
        return None
    if not isinstance(other, SMap):
        raise Unsupported("dict.update with this argument")
    k = z3.String(fresh_name("uk"))
    m.dom = z3.Lambda([k], z3.Or(z3.Select(m.dom, k), z3.Select(other.dom, k)))
    m.val = z3.Lambda([k], z3.If(z3.Select(other.dom, k), z3.Select(other.val, k), z3.Select(m.val, k)))
    cx.note_write(("map", id(m)), m)


SMap.meth_update = lambda self, cx, other: smap_update(cx, self, other)  # dict.update (engine extension used by this spec)


class SchemaMagicInit(FnSpec):
    file = "schema/core.py"
    qual = "SchemaMagic.__init__"
    props = ("C12",)

    def setup(self, cx):
        me = ClsObj("SchemaMagicInstance", name="self")
        me.fields["Plugin"] = None
        me.fields["__json_encoder__"] = ConstVal(z3.Const("default_encoder", ConstV))
        shape = cx.choose(3)  # one base with constants / marker base first, then the real base / base without constants
        mk = lambda n, has: self._base(n, has)  # noqa: E731
        if shape == 0:
            bases = (mk("base0", True),)
        elif shape == 1:
            bases = (mk("marker", False), mk("base1", True))
        else:
            bases = (mk("base0", False),)
        if cx.choose(2) == 1:
            me.fields["__annotations__"] = {}
        return A(self=me, name="N", bases=bases, dct={})

    def _base(self, n, has):
        b = ClsObj("BaseCls", name=n)
        b.fields["Plugin"] = ClsObj("PluginInfo", name=n + "_plugin")
        if has:
            b.fields["__constants__"] = SMap.fresh(STR, TConst(), n + "_consts")
        return b

    def ensures(self, cx, a, res):
        me = a.self
        calls = [e for e in cx.fx if e[0] == "parent-metaclass-init"]
        out = [("parent-metaclass-initialiser-called", z3.BoolVal(len(calls) == 1 and calls[0][1] is a.name and calls[0][2] is a.bases and calls[0][3] is a.dct), "every schema class gets the dynamic JSON encoder: the parent metaclass initialiser (which installs it) runs exactly once with the same arguments")]
        consts = me.fields.get("__constants__")
        if not isinstance(consts, SMap):
            out.append(("constants-initialised", z3.BoolVal(all("__constants__" not in b.fields for b in a.bases) and consts == {}), "constants of the class are initialised"))
        else:
            k = z3.String("ck")
            want_has = z3.Or(*[z3.Select(b.fields["__constants__"].dom, k) for b in a.bases if "__constants__" in b.fields])
            want_val = None
            for b in a.bases:  # later bases win
                if "__constants__" in b.fields:
                    bm = b.fields["__constants__"]
                    want_val = z3.Select(bm.val, k) if want_val is None else z3.If(z3.Select(bm.dom, k), z3.Select(bm.val, k), want_val)
            out.append(("constants-of-every-base-inherited", z3.ForAll([k], z3.And(z3.Select(consts.dom, k) == want_has, z3.Implies(want_has, z3.Select(consts.val, k) == want_val))), "declared constant fields are always forced: a class inherits the constants of ALL its bases (also when a marker base comes first)"))
            out.append(("constants-copied-not-shared", z3.BoolVal(all(consts is not b.fields.get("__constants__") for b in a.bases)), "constants are copied, not shared with the base"))
        ov = me.fields.get("__overrides__")
        out.append(("override-marker-not-inherited", z3.BoolVal(isinstance(ov, (set, tuple)) and len(ov) == 0), "the override declaration is per class"))
        out.append(("types-not-yet-checked", z3.BoolVal(me.fields.get("__types_checked__") is False), "a new class is checked again"))
        return out


class DynEncoderInit(FnSpec):
    file = "schema/encoder.py"
    qual = "DynJsonEncoderMetaMixin.__init__"
    props = ("C12",)

    def init(self):
        self.bindings["staticmethod"] = lambda cx, f: StaticM(f)
        self.bindings["_dynamize_encoder"] = lambda cx, f: Dynamized(f)

    def setup(self, cx):
        me = ClsObj("DynEncMetaInstance", name="self")
        me.fields["__json_encoder__"] = ConstVal(z3.Const("default_encoder", ConstV))
        a = A(self=me, name="N", bases=(), dct={})
        a.enc0 = me.fields["__json_encoder__"]
        return a

    def ensures(self, cx, a, res):
        e = a.self.fields.get("__json_encoder__")
        ok = isinstance(e, StaticM) and isinstance(e.f, Dynamized) and e.f.f is a.enc0
        calls = [x for x in cx.fx if x[0] == "type-init"]
        return [
            ("encoder-dynamized", z3.BoolVal(ok), "the class's JSON encoder is the default encoder wrapped by the dynamic-registry lookup"),
            ("type-initialiser-first", z3.BoolVal(len(calls) == 1), "the ordinary metaclass initialisation still happens"),
        ]


class StaticM(SVal):
    def __init__(self, f):
        self.f = f


class Dynamized(SVal):
    def __init__(self, f):
        self.f = f


class WrappedEncoder(FnSpec):
    file = "schema/encoder.py"
    qual = "_dynamize_encoder.<locals>.wrapped_encoder"
    props = ("C12",)
    raises_exact = False

    def init(self):
        self.bindings["encoder_func"] = self.default_encoder
        self.bindings["_reg_json_encoders"] = RegistryStub()
        self.bindings["type"] = lambda cx, o: "T"

    def default_encoder(self, cx, obj):
        if cx.decide(DEFAULT_FAILS):
            cx.py_raise("TypeError", "not JSON serializable")
        cx.effect("default-encoded")
        return "default"

    def setup(self, cx):
        return A(obj=ConstVal(z3.Const("obj", ConstV)))

    def raises(self, cx, a):
        return {"TypeError": z3.And(DEFAULT_FAILS, z3.Not(HAS_REG))}

    def ensures(self, cx, a, res):
        return [
            ("default-first", z3.BoolVal(res == "default") == z3.Not(DEFAULT_FAILS), "values the default encoder handles are encoded by it"),
            ("registered-encoder-as-fallback", z3.BoolVal(res == "registered") == z3.And(DEFAULT_FAILS, HAS_REG), "a value the default encoder rejects is encoded by the encoder registered for its type (durations, units, quantities)"),
        ]


DEFAULT_FAILS = z3.Bool("default_encoder_raises_TypeError")
HAS_REG = z3.Bool("encoder_registered_for_type")


class RegistryStub(SVal):
    def meth_get(self, cx, k, default=None):
        if cx.decide(HAS_REG):
            return lambda cx2, o: "registered"
        return None


class ModDefDumpArgs(FnSpec):
    file = "schema/base.py"
    qual = "_mod_def_dump_args"
    props = ("C12",)
    pure = True  # the postcondition determines the result: call sites get exactly that dict

    def result(self, cx, a):
        kw = a.kwargs.d if isinstance(a.kwargs, KwDict) else a.kwargs
        d = dict(kw)
        d.setdefault("by_alias", True)
        d.setdefault("exclude_none", True)
        return d

    def setup(self, cx):
        given = {}
        if cx.choose(2) == 1:
            given["by_alias"] = SBool(z3.Bool("user_by_alias"))
        if cx.choose(2) == 1:
            given["exclude_none"] = SBool(z3.Bool("user_exclude_none"))
        a = A(kwargs=dict(given))
        a.given = given
        return a

    def ensures(self, cx, a, res):
        d = res.d if isinstance(res, KwDict) else res
        if not isinstance(d, dict):
            return [("result-shape", z3.BoolVal(False), "returns the keyword dict")]
        out = []
        for key in ("by_alias", "exclude_none"):
            v = d.get(key, "missing")
            if key in a.given:
                out.append((f"user-choice-kept:{key}", z3.BoolVal(v is a.given[key]), "explicit dump arguments are respected"))
            else:
                out.append((f"default:{key}", z3.BoolVal(v is True), "by default aliases are used and None (= missing) is not emitted, so that omission round-trips"))
        return out


class CheckTypes(FnSpec):
    file = "schema/core.py"
    qual = "check_types"
    props = ("C13",)
    recursive = True
    raises_exact = False

    def init(self):
        self.bindings["check_allowed_types"] = lambda cx, s: cx.effect("check_allowed_types", s)
        self.bindings["check_overrides"] = lambda cx, s: cx.effect("check_overrides", s)

    def setup(self, cx):
        MS = ClsObj("SchemaCls", name="MetadataSchema")
        MS.is_schema = True
        self.bindings["MetadataSchema"] = MS
        sch = ClsObj("SchemaCls", name="schema")
        sch.is_schema = True
        sch.fields["__types_checked__"] = SBool(z3.Bool("already_checked"))
        nb = 1 + cx.choose(2)
        bases = []
        for i in range(nb):
            b = ClsObj("SchemaCls", name=f"base{i}")
            b.is_schema = z3.Bool(f"base{i}_is_schema")
            bases.append(b)
        sch.fields["__bases__"] = tuple(bases)
        nested = ClsObj("SchemaCls", name="nested")
        nested.is_schema = z3.Bool("nested_is_schema")
        fld = SObj("FieldInfoStub", name="fld")
        shape = cx.choose(3)
        fld.fields["schemas"] = {} if shape == 0 else ({"n": nested} if shape == 1 else {"self": sch, "n": nested})
        sch.fields["Fields"] = {} if shape == 0 else {"f": fld}
        return A(schema=sch, recheck=SBool(z3.Bool("recheck")), MS=MS, bases=bases, nested=nested, shape=shape)

    def raises(self, cx, a):
        return {"TypeError": z3.BoolVal(True), "ValueError": z3.BoolVal(True)}

    def ensures(self, cx, a, res):
        sch = a.schema
        skipped = z3.And(z3.Bool("already_checked"), z3.Not(a.recheck.t))
        rec = [e for e in cx.fx if e[0] == "check_types"]
        own = [e[0] for e in cx.fx if e[0] in ("check_allowed_types", "check_overrides")]
        kinds = [e[0] for e in cx.fx]
        out = [("skipped-only-when-already-checked", z3.BoolVal(not cx.fx) == skipped, "a class is skipped only if it was checked before (and no re-check is requested)")]
        if not cx.fx:
            return out
        for b in a.bases:
            called = any(e[1] is b for e in rec)
            out.append((f"base-checked:{b.name}", z3.BoolVal(called) == b.is_schema, "EVERY base class that is a schema is checked (also unregistered intermediate classes), nothing else"))
        if a.shape >= 1:
            called = any(e[1] is a.nested for e in rec)
            out.append(("nested-schema-checked", z3.BoolVal(called) == a.nested.is_schema, "schemas used in field types are checked"))
            out.append(("no-self-recursion", z3.BoolVal(not any(e[1] is sch for e in rec)), "the class itself is not re-entered through its own fields"))
        out.append(("recheck-request-passed-on", z3.BoolVal(all(isinstance(e[2], SBool) and e[2].t.eq(a.recheck.t) for e in rec)), "a requested re-check also re-checks the dependencies"))
        out.append(("both-checks-run-on-the-class", z3.BoolVal(own == ["check_allowed_types", "check_overrides"] and all(e[1] is sch for e in cx.fx if e[0] in own)), "the field-shape check and the override check both run on the class"))
        out.append(("dependencies-before-own-checks", z3.BoolVal(all(kinds.index(x) > max([i for i, k in enumerate(kinds) if k == "check_types"], default=-1) for x in own)), "bases and nested schemas are checked first"))
        out.append(("marked-checked", z3.BoolVal(sch.fields["__types_checked__"] is True), "the class is marked as checked"))
        return out

    # callee side: recursive calls are logged
    def apply(self, cx, a):
        cx.effect("check_types", a.schema, a.recheck)
        return None


JSON_OK = z3.Bool("pydantic_parse_raw_accepts_input_as_JSON")
JSON_OTHER_ERR = z3.Bool("pydantic_parse_raw_fails_with_other_error")


class ParseRaw(FnSpec):
    file = "schema/base.py"
    qual = "BaseModelPlus.parse_raw"
    props = ("C12",)
    raises_exact = False

    def init(self):
        self.bindings["parse_yaml_raw_as"] = self.yaml_parse
        self.bindings["ValidationError"] = SClass("ValidationError")

    def yaml_parse(self, cx, cls, dat):
        cx.effect("yaml-parse", cls, dat)
        return "yaml-parsed"

    def setup(self, cx):
        c = ClsObj("BaseModelPlusCls", name="cls")
        return A(cls=c, dat=SStr(z3.String("dat")))

    def raises(self, cx, a):
        return {"TypeError": JSON_OTHER_ERR}

    def ensures(self, cx, a, res):
        y = [e for e in cx.fx if e[0] == "yaml-parse"]
        j = [e for e in cx.fx if e[0] == "json-parse"]
        return [
            ("json-first", z3.BoolVal(len(j) == 1 and j[0][1] is a.cls and j[0][2] is a.dat), "the input is first parsed as JSON by the model class itself (so what json()/bytes() wrote is read by the JSON reader)"),
            ("json-result-returned", z3.BoolVal(res == "json-parsed") == JSON_OK, "an input the JSON reader accepts is returned as parsed"),
            ("yaml-only-as-fallback", z3.BoolVal(len(y) == 1 and y[0][1] is a.cls and y[0][2] is a.dat and res == "yaml-parsed") == z3.Not(JSON_OK), "only an input the JSON reader rejects with a validation error is read as YAML, with the same class and the same data"),
        ]


def super_parse_raw(cx, cls, dat, **kw):
    cx.effect("json-parse", cls, dat)
    if cx.decide(JSON_OK):
        return "json-parsed"
    if cx.decide(JSON_OTHER_ERR):
        cx.py_raise("TypeError", "other failure")
    cx.py_raise("ValidationError", "not JSON / not valid")


class ToBytes(FnSpec):
    file = "schema/base.py"
    qual = "BaseModelPlus.__bytes__"
    props = ("C12",)

    def setup(self, cx):
        me = SObj("BaseModelPlusObj", name="self")
        return A(self=me)

    def ensures(self, cx, a, res):
        calls = [e for e in cx.fx if e[0] == "json"]
        ok = isinstance(res, EncodedStr) and res.enc == "utf-8"
        return [
            ("bytes-are-utf8-json-plus-newline", z3.And(z3.BoolVal(ok and len(calls) == 1 and calls[0][1] == ()), (res.s.t if ok else z3.StringVal("")) == z3.Concat(JSON_TEXT, z3.StringVal("\n"))), "bytes(obj) is obj.json() with default arguments plus a newline, UTF-8 encoded"),
        ]


JSON_TEXT = z3.String("self_json_text")


class EncodedStr(SVal):
    def __init__(self, s, enc):
        self.s, self.enc = s, enc


class JsonStr(SStr):
    def meth_encode(self, cx, encoding="utf-8"):
        return EncodedStr(self, encoding)

    def py_add(self, cx, o):
        r = SStr.py_add(self, cx, o)
        return JsonStr(r.t)


class DumpWrapper(FnSpec):
    """dict()/json(): forward to pydantic with the default-modified keyword arguments"""

    file = "schema/base.py"
    props = ("C12",)
    which = None

    def setup(self, cx):
        me = SObj("BaseModelPlusObj", name="self")
        given = {}
        if cx.choose(2) == 1:
            given["exclude_none"] = SBool(z3.Bool("user_exclude_none"))
        a = A(self=me, __kwargs__=dict(given))
        a.given = given
        return a

    def ensures(self, cx, a, res):
        calls = [e for e in cx.fx if e[0] == "super-" + self.which]
        ok = len(calls) == 1 and res == "pydantic-" + self.which
        kw = calls[0][2] if calls else {}
        want_en = a.given.get("exclude_none", True)
        return [
            ("forwards-to-pydantic-once", z3.BoolVal(ok), "the dump is pydantic's"),
            ("none-omitted-and-aliases-used-by-default", z3.BoolVal(kw.get("by_alias") is True and kw.get("exclude_none") is want_en), "by default aliases are used and None is omitted, explicit arguments win"),
        ]


class DictSpec(DumpWrapper):
    qual = "BaseModelPlus.dict"
    which = "dict"


class JsonSpec(DumpWrapper):
    qual = "BaseModelPlus.json"
    which = "json"


class OverrideConsts(FnSpec):
    file = "schema/core.py"
    qual = "SchemaBase.override_consts"
    props = ("C12",)

    def setup(self, cx):
        c = ClsObj("SchemaBaseCls", name="cls")
        c.fields["__constants__"] = SMap.fresh(STR, TConst(), "cls_consts")
        vals = SMap.fresh(STR, TConst(), "values")
        a = A(cls=c, values=vals)
        a.dom0, a.val0 = vals.dom, vals.val
        a.cdom0, a.cval0 = c.fields["__constants__"].dom, c.fields["__constants__"].val
        return a

    def ensures(self, cx, a, res):
        k = z3.String("ck")
        c = a.cls.fields["__constants__"]
        if not isinstance(res, SMap):
            return [("returns-values", z3.BoolVal(False), "the validator returns the value dict")]
        return [
            ("constants-forced", z3.ForAll([k], z3.Implies(z3.Select(a.cdom0, k), z3.And(z3.Select(res.dom, k), z3.Select(res.val, k) == z3.Select(a.cval0, k)))), "declared constant fields are always present with their constant value, whatever the input says (ignored on input)"),
            ("other-fields-untouched", z3.ForAll([k], z3.Implies(z3.Not(z3.Select(a.cdom0, k)), z3.And(z3.Select(res.dom, k) == z3.Select(a.dom0, k), z3.Implies(z3.Select(a.dom0, k), z3.Select(res.val, k) == z3.Select(a.val0, k))))), "all other input fields reach validation unchanged"),
            ("class-constants-not-modified", z3.And(c.dom == a.cdom0, c.val == a.cval0), "the class's constants are only read"),
        ]


def build_c12(reg):
    reg.set_class_home("SchemaMagicInstance", "schema/core.py", "SchemaMagic")
    reg.set_class_home("DynEncMetaInstance", "schema/encoder.py", "DynJsonEncoderMetaMixin")
    reg.method_bindings[("SchemaMagic", "super.__init__")] = lambda cx, obj, name, bases, dct: cx.effect("parent-metaclass-init", name, bases, dct)
    reg.method_bindings[("DynJsonEncoderMetaMixin", "super.__init__")] = lambda cx, obj, name, bases, dct: cx.effect("type-init")
    reg.attr_bindings[("SchemaMagicInstance", "__dict__")] = lambda cx, o: ObjDict2(o)
    reg.set_class_home("BaseModelPlusCls", "schema/base.py", "BaseModelPlus")
    reg.set_class_home("BaseModelPlusObj", "schema/base.py", "BaseModelPlus")
    reg.method_bindings[("BaseModelPlus", "super.parse_raw")] = super_parse_raw
    reg.method_bindings[("BaseModelPlus", "super.dict")] = lambda cx, obj, *a, **k: (cx.effect("super-dict", a, k), "pydantic-dict")[1]
    reg.method_bindings[("BaseModelPlus", "super.json")] = lambda cx, obj, *a, **k: (cx.effect("super-json", a, k), "pydantic-json")[1]
    reg.method_bindings[("BaseModelPlusObj", "json")] = lambda cx, obj, *a, **k: (cx.effect("json", a, k), JsonStr(JSON_TEXT))[1]
    specs = [SchemaMagicInit(), DynEncoderInit(), WrappedEncoder(), ModDefDumpArgs(), ParseRaw(), ToBytes(), DictSpec(), JsonSpec(), OverrideConsts()]
    for s in specs:
        reg.add(s)
    return specs


def build_c13(reg):
    specs = [CheckTypes()]
    for s in specs:
        reg.add(s)
    return specs
