"""Contracts for the repository's own glue around pydantic — C12 (serialisation wiring, constants) and C13 (type checks reach every class).

pydantic, runtype, pint, isodate, yaml are opaque (T5/T9): only what metador-core's own functions do is verified."""
from __future__ import annotations

import z3

from pyvc.api import A, FnSpec, LoopSpec
from pyvc.containers import STR, SMap, SObj, SSet
from pyvc.engine import KwDict, SClass
from pyvc.values import SBool, SStr, SVal, Unsupported, fresh_name

ConstV = z3.DeclareSort("ConstValue")


class TConst:
    def sort(self):
        return ConstV

    def wrap(self, t):
        return ConstVal(t)

    def unwrap(self, cx, v):
        if isinstance(v, ConstVal):
            return v.t
        raise Unsupported("not a constant value")


class ConstVal(SVal):
    def __init__(self, t):
        self.t = t


class ClsObj(SObj):
    """a (schema) class object with python-level attributes"""

    def py_setattr(self, cx, name, val):
        if name == "__constants__" and isinstance(val, dict) and not val:
            val = SMap(STR, TConst(), name="consts_new")  # `{}` that is filled with symbolic constants afterwards
        SObj.py_setattr(self, cx, name, val)

    def py_issubclass(self, cx, other):
        flag = getattr(self, "is_schema", None)
        if flag is None:
            raise Unsupported("issubclass on this class object")
        return SBool(flag) if not isinstance(flag, bool) else flag


class ObjDict2(SVal):
    def __init__(self, obj):
        self.obj = obj

    def py_contains(self, cx, k):
        return k in self.obj.fields


def smap_update(cx, m: SMap, other):
    """dict.update for symbolic maps: entries of `other` win"""
    if isinstance(other, dict) and not other:
        return None
    if not isinstance(other, SMap):
        raise Unsupported("dict.update with this argument")
    k = z3.String(fresh_name("uk"))
    m.dom = z3.Lambda([k], z3.Or(z3.Select(m.dom, k), z3.Select(other.dom, k)))
    m.val = z3.Lambda([k], z3.If(z3.Select(other.dom, k), z3.Select(other.val, k), z3.Select(m.val, k)))
    cx.note_write(("map", id(m)), m)


SMap.meth_update = lambda self, cx, other: smap_update(cx, self, other)  # dict.update (engine extension used by this spec)


class SchemaMagicInit(FnSpec):
    file = "schema/core.py"
    qual = "SchemaMagic.__init__"
    props = ("C12", "C13")

    def setup(self, cx):
        me = ClsObj("SchemaMagicInstance", name="self")
        me.fields["Plugin"] = None
        me.fields["__json_encoder__"] = ConstVal(z3.Const("default_encoder", ConstV))
        shape = cx.choose(3)  # one base with constants / marker base first, then the real base / base without constants
        mk = lambda n, has: self._base(n, has)  # noqa: E731
        if shape == 0:
            bases = (mk("base0", True),)
        elif shape == 1:
            bases = (mk("marker", False), mk("base1", True))
        else:
            bases = (mk("base0", False),)
        if cx.choose(2) == 1:
            me.fields["__annotations__"] = {}
        return A(self=me, name="N", bases=bases, dct={})

    def _base(self, n, has):
        b = ClsObj("BaseCls", name=n)
        b.fields["Plugin"] = ClsObj("PluginInfo", name=n + "_plugin")
        if has:
            b.fields["__constants__"] = SMap.fresh(STR, TConst(), n + "_consts")
        return b

    def ensures(self, cx, a, res):
        me = a.self
        calls = [e for e in cx.fx if e[0] == "parent-metaclass-init"]
        out = [("parent-metaclass-initialiser-called", z3.BoolVal(len(calls) == 1 and calls[0][1] is a.name and calls[0][2] is a.bases and calls[0][3] is a.dct), "every schema class gets the dynamic JSON encoder: the parent metaclass initialiser (which installs it) runs exactly once with the same arguments")]
        consts = me.fields.get("__constants__")
        if not isinstance(consts, SMap):
            out.append(("constants-initialised", z3.BoolVal(all("__constants__" not in b.fields for b in a.bases) and consts == {}), "constants of the class are initialised"))
        else:
            k = z3.String("ck")
            want_has = z3.Or(*[z3.Select(b.fields["__constants__"].dom, k) for b in a.bases if "__constants__" in b.fields])
            want_val = None
            for b in a.bases:  # later bases win
                if "__constants__" in b.fields:
                    bm = b.fields["__constants__"]
                    want_val = z3.Select(bm.val, k) if want_val is None else z3.If(z3.Select(bm.dom, k), z3.Select(bm.val, k), want_val)
            out.append(("constants-of-every-base-inherited", z3.ForAll([k], z3.And(z3.Select(consts.dom, k) == want_has, z3.Implies(want_has, z3.Select(consts.val, k) == want_val))), "declared constant fields are always forced: a class inherits the constants of ALL its bases (also when a marker base comes first)"))
            out.append(("constants-copied-not-shared", z3.BoolVal(all(consts is not b.fields.get("__constants__") for b in a.bases)), "constants are copied, not shared with the base"))
        ov = me.fields.get("__overrides__")
        out.append(("override-marker-not-inherited", z3.BoolVal(isinstance(ov, (set, tuple)) and len(ov) == 0), "the override declaration is per class"))
        out.append(("types-not-yet-checked", z3.BoolVal(me.fields.get("__types_checked__") is False), "a new class is checked again"))
        return out


class DynEncoderInit(FnSpec):
    file = "schema/encoder.py"
    qual = "DynJsonEncoderMetaMixin.__init__"
    props = ("C12",)

    def init(self):
        self.bindings["staticmethod"] = lambda cx, f: StaticM(f)
        self.bindings["_dynamize_encoder"] = lambda cx, f: Dynamized(f)

    def setup(self, cx):
        me = ClsObj("DynEncMetaInstance", name="self")
        me.fields["__json_encoder__"] = ConstVal(z3.Const("default_encoder", ConstV))
        a = A(self=me, name="N", bases=(), dct={})
        a.enc0 = me.fields["__json_encoder__"]
        return a

    def ensures(self, cx, a, res):
        e = a.self.fields.get("__json_encoder__")
        ok = isinstance(e, StaticM) and isinstance(e.f, Dynamized) and e.f.f is a.enc0
        calls = [x for x in cx.fx if x[0] == "type-init"]
        return [
            ("encoder-dynamized", z3.BoolVal(ok), "the class's JSON encoder is the default encoder wrapped by the dynamic-registry lookup"),
            ("type-initialiser-first", z3.BoolVal(len(calls) == 1), "the ordinary metaclass initialisation still happens"),
        ]


class StaticM(SVal):
    def __init__(self, f):
        self.f = f


class Dynamized(SVal):
    def __init__(self, f):
        self.f = f


class WrappedEncoder(FnSpec):
    file = "schema/encoder.py"
    qual = "_dynamize_encoder.<locals>.wrapped_encoder"
    props = ("C12",)
    raises_exact = False

    def init(self):
        self.bindings["encoder_func"] = self.default_encoder
        self.bindings["_reg_json_encoders"] = RegistryStub()
        self.bindings["type"] = lambda cx, o: "T"

    def default_encoder(self, cx, obj):
        if cx.decide(DEFAULT_FAILS):
            cx.py_raise("TypeError", "not JSON serializable")
        cx.effect("default-encoded")
        return "default"

    def setup(self, cx):
        return A(obj=ConstVal(z3.Const("obj", ConstV)))

    def raises(self, cx, a):
        return {"TypeError": z3.And(DEFAULT_FAILS, z3.Not(HAS_REG))}

    def ensures(self, cx, a, res):
        return [
            ("default-first", z3.BoolVal(res == "default") == z3.Not(DEFAULT_FAILS), "values the default encoder handles are encoded by it"),
            ("registered-encoder-as-fallback", z3.BoolVal(res == "registered") == z3.And(DEFAULT_FAILS, HAS_REG), "a value the default encoder rejects is encoded by the encoder registered for its type (durations, units, quantities)"),
        ]


class RegEncoder(FnSpec):
    file = "schema/encoder.py"
    qual = "json_encoder.<locals>.reg_encoder"
    props = ("C12",)

    def init(self):
        self.bindings["func"] = "the-encoder-function"
        self.bindings["ModelMetaclass"] = SClass("ModelMetaclass")
        self.bindings["issubclass"] = lambda cx, c, b: SBool(z3.Bool("class_is_a_pydantic_model")) if c == "metaclass-of-the-class" and getattr(b, "name", None) == "ModelMetaclass" else (_ for _ in ()).throw(Unsupported("issubclass of something else"))
        self.bindings["hasattr"] = lambda cx, o, n: SBool(z3.Bool("class_is_a_dataclass")) if n == "__dataclass_fields__" else (_ for _ in ()).throw(Unsupported("hasattr of another name"))

    def setup(self, cx):
        class Registry(SVal):
            def py_contains(s, cx2, k):
                return SBool(z3.Bool("an_encoder_is_already_registered_for_the_class"))

            def py_setitem(s, cx2, k, v):
                cx2.effect("register", k, v)

        class TheCls(SVal):
            concrete_key = True

            def py_getattr(s, cx2, n):
                if n == "__class__":
                    return "metaclass-of-the-class"
                raise Unsupported("class attribute " + n)

        self.bindings["_reg_json_encoders"] = Registry()
        return A(cls=TheCls())

    def raises(self, cx, a):
        model, dc, dup = z3.Bool("class_is_a_pydantic_model"), z3.Bool("class_is_a_dataclass"), z3.Bool("an_encoder_is_already_registered_for_the_class")
        return {"TypeError": z3.Or(model, dc), "ValueError": z3.And(z3.Not(model), z3.Not(dc), dup)}

    def on_raise(self, cx, a, exc):
        return [("nothing-registered", z3.BoolVal(not cx.fx), "")]

    def ensures(self, cx, a, res):
        r = [e for e in cx.fx if e[0] == "register"]
        return [("exactly-this-encoder-for-exactly-this-class-once", z3.BoolVal(len(r) == 1 and r[0][1] is a.cls and r[0][2] == "the-encoder-function" and res is a.cls), "an encoder is registered for the decorated class itself and can never be replaced afterwards (a second registration is an error), so a value type always serialises the same way; models and dataclasses are refused (pydantic encodes them itself)")]


DEFAULT_FAILS = z3.Bool("default_encoder_raises_TypeError")
HAS_REG = z3.Bool("encoder_registered_for_type")


class RegistryStub(SVal):
    def meth_get(self, cx, k, default=None):
        if cx.decide(HAS_REG):
            return lambda cx2, o: "registered"
        return None


class ModDefDumpArgs(FnSpec):
    file = "schema/base.py"
    qual = "_mod_def_dump_args"
    props = ("C12",)
    pure = True  # the postcondition determines the result: call sites get exactly that dict

    def result(self, cx, a):
        kw = a.kwargs.d if isinstance(a.kwargs, KwDict) else a.kwargs
        d = dict(kw)
        d.setdefault("by_alias", True)
        d.setdefault("exclude_none", True)
        return d

    def setup(self, cx):
        given = {}
        if cx.choose(2) == 1:
            given["by_alias"] = SBool(z3.Bool("user_by_alias"))
        if cx.choose(2) == 1:
            given["exclude_none"] = SBool(z3.Bool("user_exclude_none"))
        a = A(kwargs=dict(given))
        a.given = given
        return a

    def ensures(self, cx, a, res):
        d = res.d if isinstance(res, KwDict) else res
        if not isinstance(d, dict):
            return [("result-shape", z3.BoolVal(False), "returns the keyword dict")]
        out = []
        for key in ("by_alias", "exclude_none"):
            v = d.get(key, "missing")
            if key in a.given:
                out.append((f"user-choice-kept:{key}", z3.BoolVal(v is a.given[key]), "explicit dump arguments are respected"))
            else:
                out.append((f"default:{key}", z3.BoolVal(v is True), "by default aliases are used and None (= missing) is not emitted, so that omission round-trips"))
        return out


class CheckTypes(FnSpec):
    file = "schema/core.py"
    qual = "check_types"
    props = ("C13",)
    recursive = True
    raises_exact = False

    def init(self):
        def may_refuse(what):
            def f(cx, s):
                cx.effect(what, s)
                if cx.choose(2) == 1:  # the check refuses the class (its own contract says when)
                    cx.ghost["refused_by"] = what
                    cx.py_raise("TypeError", "refused")

            return f

        self.bindings["check_allowed_types"] = may_refuse("check_allowed_types")
        self.bindings["check_overrides"] = may_refuse("check_overrides")

    def on_raise(self, cx, a, exc):
        # what makes a refusal final: the class is not left marked as checked, so checking it again (registering it again, another plugin nesting it) refuses it again
        flag = a.schema.fields["__types_checked__"]
        return [("refused-class-is-not-left-marked-as-checked", z3.BoolVal(flag is False), "a class that is refused when the plugin is checked is refused at every check, not only at the first one")]

    def setup(self, cx):
        MS = ClsObj("SchemaCls", name="MetadataSchema")
        MS.is_schema = True
        self.bindings["MetadataSchema"] = MS
        sch = ClsObj("SchemaCls", name="schema")
        sch.is_schema = True
        sch.fields["__types_checked__"] = SBool(z3.Bool("already_checked"))
        nb = 1 + cx.choose(2)
        bases = []
        for i in range(nb):
            b = ClsObj("SchemaCls", name=f"base{i}")
            b.is_schema = z3.Bool(f"base{i}_is_schema")
            bases.append(b)
        sch.fields["__bases__"] = tuple(bases)
        nested = ClsObj("SchemaCls", name="nested")
        nested.is_schema = z3.Bool("nested_is_schema")
        fld = SObj("FieldInfoStub", name="fld")
        shape = cx.choose(3)
        fld.fields["schemas"] = {} if shape == 0 else ({"n": nested} if shape == 1 else {"self": sch, "n": nested})
        sch.fields["Fields"] = {} if shape == 0 else {"f": fld}
        return A(schema=sch, recheck=SBool(z3.Bool("recheck")), MS=MS, bases=bases, nested=nested, shape=shape)

    def raises(self, cx, a):
        return {"TypeError": z3.BoolVal(True), "ValueError": z3.BoolVal(True)}

    def ensures(self, cx, a, res):
        sch = a.schema
        skipped = z3.And(z3.Bool("already_checked"), z3.Not(a.recheck.t))
        rec = [e for e in cx.fx if e[0] == "check_types"]
        own = [e[0] for e in cx.fx if e[0] in ("check_allowed_types", "check_overrides")]
        kinds = [e[0] for e in cx.fx]
        out = [("skipped-only-when-already-checked", z3.BoolVal(not cx.fx) == skipped, "a class is skipped only if it was checked before (and no re-check is requested)")]
        if not cx.fx:
            return out
        for b in a.bases:
            called = any(e[1] is b for e in rec)
            out.append((f"base-checked:{b.name}", z3.BoolVal(called) == b.is_schema, "EVERY base class that is a schema is checked (also unregistered intermediate classes), nothing else"))
        if a.shape >= 1:
            called = any(e[1] is a.nested for e in rec)
            out.append(("nested-schema-checked", z3.BoolVal(called) == a.nested.is_schema, "schemas used in field types are checked"))
            out.append(("no-self-recursion", z3.BoolVal(not any(e[1] is sch for e in rec)), "the class itself is not re-entered through its own fields"))
        out.append(("recheck-request-passed-on", z3.BoolVal(all(isinstance(e[2], SBool) and e[2].t.eq(a.recheck.t) for e in rec)), "a requested re-check also re-checks the dependencies"))
        out.append(("both-checks-run-on-the-class", z3.BoolVal(own == ["check_allowed_types", "check_overrides"] and all(e[1] is sch for e in cx.fx if e[0] in own)), "the field-shape check and the override check both run on the class"))
        out.append(("dependencies-before-own-checks", z3.BoolVal(all(kinds.index(x) > max([i for i, k in enumerate(kinds) if k == "check_types"], default=-1) for x in own)), "bases and nested schemas are checked first"))
        out.append(("marked-checked", z3.BoolVal(sch.fields["__types_checked__"] is True), "the class is marked as checked"))
        return out

    # callee side: recursive calls are logged; a dependency may be refused
    def apply(self, cx, a):
        cx.effect("check_types", a.schema, a.recheck)
        if cx.choose(2) == 1:
            cx.ghost["refused_by"] = "check_types"
            cx.py_raise("TypeError", "dependency refused")
        return None


JSON_OK = z3.Bool("pydantic_parse_raw_accepts_input_as_JSON")
JSON_OTHER_ERR = z3.Bool("pydantic_parse_raw_fails_with_other_error")


class ParseRaw(FnSpec):
    file = "schema/base.py"
    qual = "BaseModelPlus.parse_raw"
    props = ("C12",)
    raises_exact = False

    def init(self):
        self.bindings["parse_yaml_raw_as"] = self.yaml_parse
        self.bindings["ValidationError"] = SClass("ValidationError")

    def yaml_parse(self, cx, cls, dat):
        cx.effect("yaml-parse", cls, dat)
        return "yaml-parsed"

    def setup(self, cx):
        c = ClsObj("BaseModelPlusCls", name="cls")
        return A(cls=c, dat=SStr(z3.String("dat")))

    def raises(self, cx, a):
        return {"TypeError": JSON_OTHER_ERR}

    def ensures(self, cx, a, res):
        y = [e for e in cx.fx if e[0] == "yaml-parse"]
        j = [e for e in cx.fx if e[0] == "json-parse"]
        return [
            ("json-first", z3.BoolVal(len(j) == 1 and j[0][1] is a.cls and j[0][2] is a.dat), "the input is first parsed as JSON by the model class itself (so what json()/bytes() wrote is read by the JSON reader)"),
            ("json-result-returned", z3.BoolVal(res == "json-parsed") == JSON_OK, "an input the JSON reader accepts is returned as parsed"),
            ("yaml-only-as-fallback", z3.BoolVal(len(y) == 1 and y[0][1] is a.cls and y[0][2] is a.dat and res == "yaml-parsed") == z3.Not(JSON_OK), "only an input the JSON reader rejects with a validation error is read as YAML, with the same class and the same data"),
        ]


def super_parse_raw(cx, cls, dat, **kw):
    cx.effect("json-parse", cls, dat)
    if cx.decide(JSON_OK):
        return "json-parsed"
    if cx.decide(JSON_OTHER_ERR):
        cx.py_raise("TypeError", "other failure")
    cx.py_raise("ValidationError", "not JSON / not valid")


class ToBytes(FnSpec):
    file = "schema/base.py"
    qual = "BaseModelPlus.__bytes__"
    props = ("C12",)

    def setup(self, cx):
        me = SObj("BaseModelPlusObj", name="self")
        return A(self=me)

    def ensures(self, cx, a, res):
        calls = [e for e in cx.fx if e[0] == "json"]
        ok = isinstance(res, EncodedStr) and res.enc == "utf-8"
        return [
            ("bytes-are-utf8-json-plus-newline", z3.And(z3.BoolVal(ok and len(calls) == 1 and calls[0][1] == ()), (res.s.t if ok else z3.StringVal("")) == z3.Concat(JSON_TEXT, z3.StringVal("\n"))), "bytes(obj) is obj.json() with default arguments plus a newline, UTF-8 encoded"),
        ]


JSON_TEXT = z3.String("self_json_text")


class EncodedStr(SVal):
    def __init__(self, s, enc):
        self.s, self.enc = s, enc


class JsonStr(SStr):
    def meth_encode(self, cx, encoding="utf-8"):
        return EncodedStr(self, encoding)

    def py_add(self, cx, o):
        r = SStr.py_add(self, cx, o)
        return JsonStr(r.t)


class DumpWrapper(FnSpec):
    """dict()/json(): forward to pydantic with the default-modified keyword arguments"""

    file = "schema/base.py"
    props = ("C12",)
    which = None

    def setup(self, cx):
        me = SObj("BaseModelPlusObj", name="self")
        given = {}
        if cx.choose(2) == 1:
            given["exclude_none"] = SBool(z3.Bool("user_exclude_none"))
        a = A(self=me, __kwargs__=dict(given))
        a.given = given
        return a

    def ensures(self, cx, a, res):
        calls = [e for e in cx.fx if e[0] == "super-" + self.which]
        ok = len(calls) == 1 and res == "pydantic-" + self.which
        kw = calls[0][2] if calls else {}
        want_en = a.given.get("exclude_none", True)
        return [
            ("forwards-to-pydantic-once", z3.BoolVal(ok), "the dump is pydantic's"),
            ("none-omitted-and-aliases-used-by-default", z3.BoolVal(kw.get("by_alias") is True and kw.get("exclude_none") is want_en), "by default aliases are used and None is omitted, explicit arguments win"),
        ]


class DictSpec(DumpWrapper):
    qual = "BaseModelPlus.dict"
    which = "dict"


class JsonSpec(DumpWrapper):
    qual = "BaseModelPlus.json"
    which = "json"


class OverrideConsts(FnSpec):
    file = "schema/core.py"
    qual = "SchemaBase.override_consts"
    props = ("C12",)

    def setup(self, cx):
        c = ClsObj("SchemaBaseCls", name="cls")
        c.fields["__constants__"] = SMap.fresh(STR, TConst(), "cls_consts")
        vals = SMap.fresh(STR, TConst(), "values")
        a = A(cls=c, values=vals)
        a.dom0, a.val0 = vals.dom, vals.val
        a.cdom0, a.cval0 = c.fields["__constants__"].dom, c.fields["__constants__"].val
        return a

    def ensures(self, cx, a, res):
        k = z3.String("ck")
        c = a.cls.fields["__constants__"]
        if not isinstance(res, SMap):
            return [("returns-values", z3.BoolVal(False), "the validator returns the value dict")]
        return [
            ("constants-forced", z3.ForAll([k], z3.Implies(z3.Select(a.cdom0, k), z3.And(z3.Select(res.dom, k), z3.Select(res.val, k) == z3.Select(a.cval0, k)))), "declared constant fields are always present with their constant value, whatever the input says (ignored on input)"),
            ("other-fields-untouched", z3.ForAll([k], z3.Implies(z3.Not(z3.Select(a.cdom0, k)), z3.And(z3.Select(res.dom, k) == z3.Select(a.dom0, k), z3.Implies(z3.Select(a.dom0, k), z3.Select(res.val, k) == z3.Select(a.val0, k))))), "all other input fields reach validation unchanged"),
            ("class-constants-not-modified", z3.And(c.dom == a.cdom0, c.val == a.cval0), "the class's constants are only read"),
        ]


# ---- override check (C13) -------------------------------------------------------------------

Hint = z3.DeclareSort("TypeHint")
SUBTYPE = z3.Function("is_subtype", Hint, Hint, z3.BoolSort())  # util.typing.is_subtype (runtype / typing based; bounded tier)
PUBLIC = z3.Function("is_public_name", z3.StringSort(), z3.BoolSort())
CLASSVAR = z3.Function("is_classvar", Hint, z3.BoolSort())


class THint:
    def sort(self):
        return Hint

    def wrap(self, t):
        return HintVal(t)

    def unwrap(self, cx, v):
        if isinstance(v, HintVal):
            return v.t
        raise Unsupported("not a type hint")


class HintVal(SVal):
    def __init__(self, t):
        self.t = t


# ---- add_const_fields (C12: the constant a class declares is the one its instances carry — also built without validation) ----
FieldS = z3.DeclareSort("ModelField")
INFER = z3.Function("ModelField_infer", z3.StringSort(), ConstV, FieldS)  # T5: the pydantic field with that name and that default value (type Optional[Any])
F_TYPE = z3.Function("field_type", FieldS, Hint)
IS_ENUM = z3.Function("is_enum_type", Hint, z3.BoolSort())
IS_LIT = z3.Function("is_literal_type", Hint, z3.BoolSort())
VALID_ENUM = z3.Function("value_is_member_of_enum", ConstV, Hint, z3.BoolSort())
VALID_LIT = z3.Function("literal_of_value_is_subtype", ConstV, Hint, z3.BoolSort())


class TField:
    def sort(self):
        return FieldS

    def wrap(self, t):
        return FieldVal(t)

    def unwrap(self, cx, v):
        if isinstance(v, FieldVal):
            return v.t
        raise Unsupported("not a model field")


class FieldVal(SVal):
    def __init__(self, t):
        self.t = t

    def py_truth(self, cx):
        return True

    def py_getattr(self, cx, name):
        if name == "type_":
            return HintVal(F_TYPE(self.t))
        raise Unsupported("field attribute " + name)


class AddConstFields(FnSpec):
    file = "schema/decorators.py"
    qual = "add_const_fields.<locals>.add_fields"
    props = ("C12",)

    def init(self):
        self.bindings["_expect_schema_class"] = lambda cx, m: None
        self.bindings["is_enum"] = lambda cx, h: SBool(IS_ENUM(h.t))
        self.bindings["is_literal"] = lambda cx, h: SBool(IS_LIT(h.t))
        self.bindings["isinstance"] = lambda cx, v, h: SBool(VALID_ENUM(v.t, h.t)) if isinstance(h, HintVal) else (_ for _ in ()).throw(Unsupported("isinstance"))
        self.bindings["Literal"] = LiteralNS()
        self.bindings["is_subtype"] = lambda cx, lit, h: SBool(VALID_LIT(lit.v, h.t))
        self.bindings["Optional"] = SubscriptAny()
        self.bindings["Any"] = "Any"
        self.bindings["ModelField"] = ModelFieldNS()
        self.bindings["set"] = lambda cx, *a: SSet(STR) if not a else (_ for _ in ()).throw(Unsupported("set(x)"))

        def inv(cx, env, it):
            a = cx.ghost["acf"]
            m = a.mcls
            F, AN = m.fields["__fields__"], m.fields["__annotations__"]
            k = z3.String(fresh_name("ik"))
            done = z3.Select(it.processed, k)
            return [
                ("processed-names-carry-the-new-constant", z3.ForAll([k], z3.Implies(done, z3.And(F.has(k), F.get_term(k) == INFER(k, a.consts0.get_term(k)), AN.has(k), AN.get_term(k) == F_TYPE(INFER(k, a.consts0.get_term(k))))))),
                ("other-fields-as-before", z3.ForAll([k], z3.Implies(z3.Not(done), z3.And(F.has(k) == a.f0.has(k), F.get_term(k) == a.f0.get_term(k), AN.has(k) == a.an0.has(k), AN.get_term(k) == a.an0.get_term(k))))),
                ("constants-not-yet-touched", m.fields["__constants__"].same(cx, a.c0)),
                ("input-not-modified", a.consts_live.same(cx, a.consts0)),
                ("no-processed-name-needed-refusal", z3.ForAll([k], z3.Implies(done, z3.Not(self.refused(a, k))))),
            ]

        self.loops[0] = LoopSpec(inv, modifies=["name", "value", "field_def", "enum_specialization", "literal_specialization", "valid_specialization", "lit_const", "msg", "ctype", "field", "overridden"], havoc_inplace=["mcls.__fields__", "mcls.__annotations__"])

    def setup(self, cx):
        m = ClsObj("SchemaCls", name="mcls")
        m.fields["__name__"] = "Schema"
        m.fields["__fields__"] = SMap.fresh(STR, TField(), "fields")
        m.fields["__annotations__"] = SMap.fresh(STR, THint(), "annotations")
        m.fields["__constants__"] = SMap.fresh(STR, TConst(), "constants")
        m.fields["__config__"] = "config"
        consts = SMap.fresh(STR, TConst(), "consts")
        self.bindings["consts"] = consts
        self.bindings["override"] = SBool(z3.Bool("override"))
        a = A(mcls=m)
        a.consts_live = consts
        a.consts0, a.f0, a.an0, a.c0 = consts.snapshot(), m.fields["__fields__"].snapshot(), m.fields["__annotations__"].snapshot(), m.fields["__constants__"].snapshot()
        cx.ghost["acf"] = a
        return a

    raises_exact = False  # WHICH name trips first depends on the iteration order: a raise is justified below, and a normal return means no name needed refusal (ensures)

    @staticmethod
    def _conds(a, k):
        has = z3.And(a.consts0.has(k), a.f0.has(k))
        t = F_TYPE(a.f0.get_term(k))
        v = a.consts0.get_term(k)
        bad_special = z3.Or(z3.And(IS_ENUM(t), z3.Not(VALID_ENUM(v, t))), z3.And(z3.Not(IS_ENUM(t)), IS_LIT(t), z3.Not(VALID_LIT(v, t))))
        plain = z3.And(z3.Not(z3.Bool("override")), z3.Not(IS_ENUM(t)), z3.Not(IS_LIT(t)))
        return has, bad_special, plain

    def refused(self, a, k):
        has, bad_special, plain = self._conds(a, k)
        return z3.And(has, z3.Or(bad_special, plain))

    def raises(self, cx, a):
        k = z3.String(fresh_name("rk"))
        has, bad_special, plain = self._conds(a, k)
        return {"TypeError": z3.Exists([k], z3.And(has, bad_special)), "ValueError": z3.Exists([k], z3.And(has, plain))}

    def ensures(self, cx, a, res):
        m = a.mcls
        F, C = m.fields["__fields__"], m.fields["__constants__"]
        k = z3.String(fresh_name("ek"))
        return [
            ("every-declared-constant-is-the-field-default", z3.ForAll([k], z3.Implies(a.consts0.has(k), z3.And(F.has(k), F.get_term(k) == INFER(k, a.consts0.get_term(k))))), "for EVERY name in the decorator's dict — also one that overrides an inherited constant — the class's pydantic field is re-created with the NEW value as default, so instances built without validation (construct()) carry it too"),
            ("every-declared-constant-is-recorded", z3.ForAll([k], z3.Implies(a.consts0.has(k), z3.And(C.has(k), C.get_term(k) == a.consts0.get_term(k)))), "... and recorded in __constants__ (what the pre-validator forces on parsed input)"),
            ("other-fields-and-constants-untouched", z3.ForAll([k], z3.Implies(z3.Not(a.consts0.has(k)), z3.And(F.has(k) == a.f0.has(k), F.get_term(k) == a.f0.get_term(k), C.has(k) == a.c0.has(k), C.get_term(k) == a.c0.get_term(k)))), "nothing else of the class changes"),
            ("returns-the-class", z3.BoolVal(res is m), "usable as a decorator"),
            ("accepted-only-if-no-name-needed-refusal", z3.ForAll([k], z3.Implies(a.consts0.has(k), z3.Not(self.refused(a, k)))), "an existing field is only replaced when override=True, or when it is an enum/literal field and the constant is one of its values; anything else is refused (TypeError / ValueError)"),
        ]


class LitVal(SVal):
    def __init__(self, v):
        self.v = v


class LiteralNS(SVal):
    def py_getitem(self, cx, v):
        return LitVal(v.t)


class SubscriptAny(SVal):
    def py_getitem(self, cx, v):
        return "Optional[Any]"


class ModelFieldNS(SVal):
    def meth_infer(self, cx, **kw):
        if set(kw) != {"name", "value", "annotation", "class_validators", "config"} or kw["annotation"] != "Optional[Any]" or kw["class_validators"] is not None:
            raise Unsupported("ModelField.infer with other arguments")
        return FieldVal(INFER(kw["name"].t, kw["value"].t))


# ---- make_mandatory (C13: an optional inherited field becomes mandatory with the parent's type, nothing else) ----------------------------------
from pyvc.containers import BOOL, ClassDecl, RefSort, SRef, SSeq, TRef  # noqa: E402

ClassDecl("ModelFieldObj", {"required": BOOL, "allow_none": BOOL})
PARENT_T = z3.Function("parent_type_of_field", z3.StringSort(), Hint)  # field_parent_type(mcls, name) (bounded)
UNOPT = z3.Function("type_without_Optional", Hint, Hint)  # util.typing.unoptional (bounded)


def UNOPT_PARENT(n):
    return UNOPT(PARENT_T(n))
REQ_KEY = "ModelFieldObj.required"
NONE_KEY = "ModelFieldObj.allow_none"


class MakeMandatory(FnSpec):
    file = "schema/decorators.py"
    qual = "make_mandatory.<locals>.make_fields_mandatory"
    props = ("C13", "C20")

    def init(self):
        self.bindings["_expect_schema_class"] = lambda cx, m: None
        self.bindings["get_annotations"] = lambda cx, m: cx.ghost["mm"].own
        self.bindings["unoptional"] = lambda cx, h: HintVal(UNOPT(h.t))
        self.bindings["field_parent_type"] = lambda cx, m, n: HintVal(PARENT_T(n.t))

        def inv(cx, env, it):
            a = cx.ghost["mm"]
            m = a.mcls
            F, AN = m.fields["__fields__"], m.fields["__annotations__"]
            N = a.names
            j = z3.Int(fresh_name("mj"))
            k = z3.String(fresh_name("mk"))
            r = z3.Const(fresh_name("mr"), RefSort)
            H, H0 = cx.heap_array(REQ_KEY, BOOL), a.req0
            nj = N.at_term(j)
            listed = lambda kk: z3.Exists([j], z3.And(0 <= j, j < it.i, N.at_term(j) == kk))  # noqa: E731
            return [
                ("names-so-far-are-mandatory-with-the-parents-type", z3.ForAll([j], z3.Implies(z3.And(0 <= j, j < it.i), z3.And(F.has(nj), z3.Not(a.own.has(nj)), z3.Select(H, F.get_term(nj)), AN.has(nj), AN.get_term(nj) == UNOPT_PARENT(nj))))),
                ("names-so-far-refuse-None", z3.ForAll([j], z3.Implies(z3.And(0 <= j, j < it.i), z3.Not(z3.Select(cx.heap_array(NONE_KEY, BOOL), F.get_term(nj)))))),
                ("other-fields-keep-their-None-policy", z3.ForAll([r], z3.Implies(z3.Not(z3.Exists([j], z3.And(0 <= j, j < it.i, F.get_term(N.at_term(j)) == r))), z3.Select(cx.heap_array(NONE_KEY, BOOL), r) == z3.Select(a.none0, r)))),
                ("field-table-itself-unchanged", F.same(cx, a.f0)),
                ("other-annotations-unchanged", z3.ForAll([k], z3.Implies(z3.Not(listed(k)), z3.And(AN.has(k) == a.an0.has(k), AN.get_term(k) == a.an0.get_term(k))))),
                ("other-fields-keep-their-requiredness", z3.ForAll([r], z3.Implies(z3.Not(z3.Exists([j], z3.And(0 <= j, j < it.i, F.get_term(N.at_term(j)) == r))), z3.Select(H, r) == z3.Select(H0, r)))),
            ]

        self.loops[0] = LoopSpec(inv, modifies=["name", "hint", "msg"], havoc_inplace=["mcls.__annotations__"], havoc_heap=[REQ_KEY, NONE_KEY], heap_types={REQ_KEY: BOOL, NONE_KEY: BOOL})

    def setup(self, cx):
        m = ClsObj("SchemaCls", name="mcls")
        m.fields["__name__"] = "Schema"
        m.fields["__fields__"] = SMap.fresh(STR, TRef("ModelFieldObj"), "fields")
        m.fields["__annotations__"] = SMap.fresh(STR, THint(), "annotations")
        names = SSeq.fresh(STR, "names")
        self.bindings["names"] = names
        a = A(mcls=m)
        a.names = names.snapshot() if hasattr(names, "snapshot") else names
        a.own = SMap.fresh(STR, THint(), "own_annotations")
        a.f0, a.an0 = m.fields["__fields__"].snapshot(), m.fields["__annotations__"].snapshot()
        a.req0 = cx.heap_array(REQ_KEY, BOOL)
        a.none0 = cx.heap_array(NONE_KEY, BOOL)
        cx.ghost["mm"] = a
        return a

    raises_exact = False  # which name trips first depends on the order; a raise is justified, a normal return means no name needed refusal

    def refused(self, a, k):
        return z3.Or(z3.Not(a.f0.has(k)), a.own.has(k))

    def raises(self, cx, a):
        j = z3.Int(fresh_name("xj"))
        return {"ValueError": z3.Exists([j], z3.And(0 <= j, j < a.names.n, self.refused(a, a.names.at_term(j))))}

    def ensures(self, cx, a, res):
        m = a.mcls
        F, AN = m.fields["__fields__"], m.fields["__annotations__"]
        N = a.names
        j = z3.Int(fresh_name("ej"))
        k = z3.String(fresh_name("ek"))
        r = z3.Const(fresh_name("er"), RefSort)
        H = cx.heap_array(REQ_KEY, BOOL)
        nj = N.at_term(j)
        listed = lambda kk: z3.Exists([j], z3.And(0 <= j, j < N.n, N.at_term(j) == kk))  # noqa: E731
        return [
            ("every-named-field-is-mandatory-with-the-parents-type", z3.ForAll([j], z3.Implies(z3.And(0 <= j, j < N.n), z3.And(z3.Select(H, F.get_term(nj)), AN.has(nj), AN.get_term(nj) == UNOPT_PARENT(nj)))), "each named field becomes required and gets as type hint the parent's type without Optional — a narrowing, never another type"),
            ("no-named-field-accepts-None", z3.ForAll([j], z3.Implies(z3.And(0 <= j, j < N.n), z3.Not(z3.Select(cx.heap_array(NONE_KEY, BOOL), F.get_term(nj))))), "a field made mandatory does not accept None either (the copied field keeps allow_none from the parent's Optional; None is dropped on serialisation, so the stored object would lack a field its own JSON Schema requires)"),
            ("other-fields-keep-their-None-policy", z3.ForAll([r], z3.Implies(z3.Not(z3.Exists([j], z3.And(0 <= j, j < N.n, F.get_term(N.at_term(j)) == r))), z3.Select(cx.heap_array(NONE_KEY, BOOL), r) == z3.Select(a.none0, r))), "no other field's None policy is touched"),
            ("only-inherited-fields-not-redeclared-here", z3.ForAll([j], z3.Implies(z3.And(0 <= j, j < N.n), z3.Not(self.refused(a, nj)))), "the decorator is refused for names that are no fields, or that the class declares itself"),
            ("nothing-else-changes", z3.And(F.same(cx, a.f0), z3.ForAll([k], z3.Implies(z3.Not(listed(k)), z3.And(AN.has(k) == a.an0.has(k), AN.get_term(k) == a.an0.get_term(k)))), z3.ForAll([r], z3.Implies(z3.Not(z3.Exists([j], z3.And(0 <= j, j < N.n, F.get_term(N.at_term(j)) == r))), z3.Select(H, r) == z3.Select(a.req0, r)))), "no other field's requiredness or annotation is touched"),
            ("returns-the-class", z3.BoolVal(res is m), "usable as a decorator"),
        ]


def schema_cls(cx):
    sch = ClsObj("SchemaCls", name="schema")
    sch.fields["__name__"] = "Schema"
    sch.fields["_typehints"] = SMap.fresh(STR, THint(), "typehints")
    sch.fields["_base_typehints"] = SMap.fresh(STR, THint(), "base_typehints")
    sch.fields["__constants__"] = SMap.fresh(STR, TConst(), "constants")
    sch.fields["__overrides__"] = SSet.fresh(STR, "declared_overrides")
    sch.anns = SMap.fresh(STR, THint(), "own_annotations")
    base = ClsObj("SchemaCls", name="base")
    base.fields["__name__"] = "Base"
    sch.fields["__base__"] = base
    return sch


def actual_override(sch, k):
    """field k is (re)declared by the class itself as a public, non-ClassVar, non-constant field and the bases have it too"""
    an = sch.anns
    return z3.And(an.has(k), PUBLIC(k), z3.Not(CLASSVAR(an.get_term(k))), z3.Not(sch.fields["__constants__"].has(k)), sch.fields["_base_typehints"].has(k))


class IsPubInstanceField(FnSpec):
    file = "schema/core.py"
    qual = "is_pub_instance_field"
    props = ("C13",)
    pure = True

    def init(self):
        self.bindings["is_public_name"] = lambda cx, n: SBool(PUBLIC(n.t))
        self.bindings["is_classvar"] = lambda cx, h: SBool(CLASSVAR(h.t))

    def setup(self, cx):
        return A(schema=schema_cls(cx), name=SStr(z3.String("fname")), hint=HintVal(z3.Const("fhint", Hint)))

    def expected(self, a):
        return z3.And(PUBLIC(a.name.t), z3.Not(CLASSVAR(a.hint.t)), z3.Not(a.schema.fields["__constants__"].has(a.name.t)))

    def result(self, cx, a):
        return SBool(self.expected(a))

    def ensures(self, cx, a, res):
        from .c16 import is_bool_eq

        return [("public-instance-non-constant", is_bool_eq(res, self.expected(a)), "a field counts iff it is public, not a ClassVar and not a declared constant")]


class DetectFieldOverrides(FnSpec):
    file = "schema/core.py"
    qual = "detect_field_overrides"
    props = ("C13",)

    def init(self):
        from pyvc.api import set_keys_filter

        self.bindings["get_annotations"] = lambda cx, sch: sch.anns
        self.comps[0] = set_keys_filter

    def setup(self, cx):
        return A(schema=schema_cls(cx))

    def result(self, cx, a):
        return SSet.fresh(STR, "actual_overrides")

    def ensures(self, cx, a, res):
        k = z3.String(fresh_name("fk"))
        if not isinstance(res, SSet):
            return [("returns-a-set", z3.BoolVal(False), "set of field names")]
        return [("exactly-the-redeclared-inherited-fields", z3.ForAll([k], res.has(k) == actual_override(a.schema, k)), "EVERY field the class redeclares although a base has it is detected as an override (public instance fields that are not constants), nothing else")]


class CheckOverrides(FnSpec):
    file = "schema/core.py"
    qual = "check_overrides"
    props = ("C13",)

    def init(self):
        self.bindings["is_subtype"] = lambda cx, h, ph: SBool(SUBTYPE(h.t, ph.t))
        self.bindings["infer_parent"] = lambda cx, sch: None
        self.bindings["repr"] = lambda cx, o: "<schema>"

        def inv(cx, env, it):
            sch = cx.ghost["co"].schema
            k = z3.String(fresh_name("lk"))
            return [("visited-overrides-are-subtypes", z3.ForAll([k], z3.Implies(z3.Select(it.processed, k), SUBTYPE(sch.fields["_typehints"].get_term(k), sch.fields["_base_typehints"].get_term(k)))))]

        self.loops[0] = LoopSpec(inv, modifies=["fname", "hint", "parent_hint"])

    def setup(self, cx):
        a = A(schema=schema_cls(cx))
        cx.ghost["co"] = a
        return a

    def requires(self, cx, a):
        k = z3.String(fresh_name("rk"))
        sch = a.schema
        return [("own-annotations-have-resolved-hints", z3.ForAll([k], z3.Implies(sch.anns.has(k), sch.fields["_typehints"].has(k))))]

    def _conds(self, a):
        sch = a.schema
        k = z3.String(fresh_name("ek"))
        ov, base, th = sch.fields["__overrides__"], sch.fields["_base_typehints"], sch.fields["_typehints"]
        bad_decl = z3.Exists([k], z3.And(ov.has(k), z3.Or(z3.Not(base.has(k)), z3.Not(actual_override(sch, k)))))
        k2 = z3.String(fresh_name("ek"))
        widened = z3.Exists([k2], z3.And(actual_override(sch, k2), z3.Not(ov.has(k2)), z3.Not(SUBTYPE(th.get_term(k2), base.get_term(k2)))))
        return bad_decl, widened

    def raises(self, cx, a):
        bad_decl, widened = self._conds(a)
        return {"ValueError": bad_decl, "TypeError": z3.And(z3.Not(bad_decl), widened)}

    def ensures(self, cx, a, res):
        sch = a.schema
        k = z3.String(fresh_name("pk"))
        ov, base, th = sch.fields["__overrides__"], sch.fields["_base_typehints"], sch.fields["_typehints"]
        return [
            ("undeclared-overrides-are-subtypes", z3.ForAll([k], z3.Implies(z3.And(actual_override(sch, k), z3.Not(ov.has(k))), SUBTYPE(th.get_term(k), base.get_term(k)))), "a class that overrides an inherited field with a type that is not a subtype of the inherited one is refused unless the override is declared"),
            ("declarations-are-real", z3.ForAll([k], z3.Implies(ov.has(k), actual_override(sch, k))), "a declared override names a field that really is overridden"),
        ]


# ---- is_subtype: soundness reduces to runtype's soundness (C13) ------------------------------------

ANNOT = z3.Function("hint_is_Annotated", Hint, z3.BoolSort())
LITER = z3.Function("hint_is_Literal", Hint, z3.BoolSort())
ARG0 = z3.Function("hint_first_arg", Hint, Hint)
FInfos = z3.DeclareSort("FieldInfoReprs")
FIS = z3.Function("field_info_reprs_of_annotated", Hint, FInfos)  # reprs of the pydantic FieldInfo annotations (all set constraints)
RV_SUB = z3.Function("runtype_is_subtype", Hint, Hint, z3.BoolSort())
ADMITS_SUBSET = z3.Function("every_value_of_first_is_value_of_second", Hint, Hint, z3.BoolSort())

T_SUBTYPE = [
    "runtype.validation.is_subtype is sound on un-annotated hints: True only if every value of the first type is a value of the second (opaque library; exercised by the bounded tier over the type grammar)",
    "Annotated[T, FieldInfo...] admits the values of T that satisfy the listed constraints, so equal constraint lists over T1 <= T2 give Annotated[T1,..] <= Annotated[T2,..] (pydantic semantics, T5)",
    "typing get_origin/get_args (is_annotated, is_literal, get_args) are CPython's",
]


class ArgsVal(SVal):
    def __init__(self, h):
        self.h = h

    def py_getitem(self, cx, idx):
        from pyvc.values import SliceVal

        if isinstance(idx, SliceVal):
            if (idx.lo, idx.hi, idx.step) == (1, None, None):
                return RestArgs(self.h)
            raise Unsupported("slice of type arguments")
        if idx == 0:
            cx.decide_or_fail(ANNOT(self.h), "IndexError", "get_args of a non-parametrised hint is empty")
            return HintVal(ARG0(self.h))
        raise Unsupported("other type argument")


class RestArgs(SVal):
    def __init__(self, h):
        self.h = h


class FIList(SVal):
    def __init__(self, t):
        self.t = t

    def py_eq(self, cx, o):
        return isinstance(o, FIList) and self.t == o.t


def field_infos_schema(interp, cx, fr, e):
    src = interp.eval(cx, fr, e.generators[0].iter)
    if not isinstance(src, RestArgs):
        raise Unsupported("field_infos over something else than the annotation arguments")
    cond = [ast_unparse(c) for c in e.generators[0].ifs]
    if cond != ["type(a).__name__ == 'FieldInfo'"] or ast_unparse(e.elt) != "repr(a)":
        from pyvc.api import ContractStale

        raise ContractStale("field_infos: the comprehension no longer collects repr(a) of exactly the FieldInfo annotations")
    return FIList(FIS(src.h))


def ast_unparse(n):
    import ast

    return ast.unparse(n)


class IsSubtype(FnSpec):
    file = "util/typing.py"
    qual = "is_subtype"
    props = ("C13",)
    recursive = True

    def init(self):
        self.bindings["is_annotated"] = lambda cx, h: SBool(ANNOT(h.t))
        self.bindings["is_literal"] = lambda cx, h: SBool(LITER(h.t))
        self.bindings["get_args"] = lambda cx, h: ArgsVal(h.t)
        self.bindings["rv"] = RvStub()
        self.comps[("is_subtype.<locals>.field_infos", 0)] = field_infos_schema

    def setup(self, cx):
        a, b, c = z3.Consts("h_a h_b h_c", Hint)
        # semantic facts the soundness argument rests on (listed as trusted)
        cx.assume(z3.ForAll([a, b], z3.Implies(z3.And(z3.Not(ANNOT(a)), z3.Not(ANNOT(b)), LITER(a) == LITER(b), RV_SUB(a, b)), ADMITS_SUBSET(a, b))))
        cx.assume(z3.ForAll([a, b], z3.Implies(z3.And(ANNOT(a), ANNOT(b), FIS(a) == FIS(b), ADMITS_SUBSET(ARG0(a), ARG0(b))), ADMITS_SUBSET(a, b))))
        return A(sub=HintVal(z3.Const("sub", Hint)), base=HintVal(z3.Const("base", Hint)))

    def result(self, cx, a):
        return SBool(z3.Bool(fresh_name("is_subtype_result")))

    def ensures(self, cx, a, res):
        if isinstance(res, bool):
            r = z3.BoolVal(res)
        elif isinstance(res, SBool):
            r = res.t
        elif z3.is_bool(res):
            r = res
        else:
            return [("returns-bool", z3.BoolVal(False), "a truth value")]
        s, b = a.sub.t, a.base.t
        return [
            ("sound", z3.Implies(r, ADMITS_SUBSET(s, b)), "is_subtype(sub, base) is True only if every value sub admits is admitted by base (given runtype's soundness on plain hints and equal constraint lists on Annotated ones)"),
            ("wrapping-must-agree", z3.Implies(r, z3.And(ANNOT(s) == ANNOT(b), LITER(s) == LITER(b))), "an Annotated/Literal hint is never accepted against a plain one (or vice versa)"),
            ("constraints-must-agree", z3.Implies(z3.And(r, ANNOT(s)), FIS(s) == FIS(b)), "constrained types are accepted only with identical constraint lists"),
        ]


class RvStub(SVal):
    def meth_is_subtype(self, cx, s, b):
        return SBool(RV_SUB(s.t, b.t))


# ---- SchemaMagic.__new__: what a child class may not do (C13) --------------------------------------


class ExtraVal(SVal):
    """a member of pydantic's Extra enum (allow / ignore / forbid)"""

    def __init__(self, t):
        self.t = t

    def py_is(self, cx, o):
        return isinstance(o, ExtraVal) and self.t == o.t

    def py_truth(self, cx):
        return True

    def py_getattr(self, cx, name):
        if name == "value":
            return SStr(z3.String(fresh_name("extra_value")))
        raise Unsupported("Extra." + name)


FORBID = z3.IntVal(2)


class ExtraEnum(SVal):
    def py_getattr(self, cx, name):
        return ExtraVal({"allow": z3.IntVal(0), "ignore": z3.IntVal(1), "forbid": FORBID}[name])


def special_attrs():
    """names annotated on SchemaBase in the real source (its class-level bookkeeping attributes)"""
    import ast

    from pyvc.api import SRC

    tree = ast.parse(open(SRC / "schema/core.py").read())
    for n in tree.body:
        if isinstance(n, ast.ClassDef) and n.name == "SchemaBase":
            return [st.target.id for st in n.body if isinstance(st, ast.AnnAssign) and isinstance(st.target, ast.Name)]
    return []


class SchemaMagicNew(FnSpec):
    file = "schema/core.py"
    qual = "SchemaMagic.__new__"
    props = ("C13",)

    def init(self):
        self.bindings["Extra"] = ExtraEnum()
        self.bindings["is_public_name"] = lambda cx, n: SBool(PUBLIC(n.t if isinstance(n, SStr) else z3.StringVal(n)))
        self.bindings["get_annotations"] = lambda cx, c: c.anns
        sb = ClsObj("SchemaBaseCls", name="SchemaBase")
        sb.fields["__annotations__"] = {k: None for k in special_attrs()}
        self.bindings["SchemaBase"] = sb

    def setup(self, cx):
        base = ClsObj("SchemaCls", name="base")
        base.fields["__constants__"] = SMap.fresh(STR, TConst(), "base_constants")
        base.fields["__fields__"] = SMap.fresh(STR, THint(), "base_fields")
        bconf = SObj("Config", name="base_config")
        bconf.fields["extra"] = ExtraVal(z3.Int("base_extra"))
        base.fields["__config__"] = bconf
        nb = 1 + cx.choose(2)
        bases = (base,) if nb == 1 else (base, ClsObj("SchemaCls", name="second_base"))
        ret = ClsObj("SchemaCls", name="new_class")
        ret.anns = SMap.fresh(STR, THint(), "new_annotations")
        ret.fields["__fields__"] = SMap.fresh(STR, THint(), "new_fields")
        rconf = SObj("Config", name="new_config")
        rconf.fields["extra"] = ExtraVal(z3.Int("new_extra"))
        ret.fields["__config__"] = rconf
        dct = SMap.fresh(STR, TConst(), "class_namespace")
        conf_shape = cx.choose(2)
        a = A(cls=ClsObj("Meta", name="cls"), name="N", bases=bases, dct=NamespaceDict(dct, conf_shape))
        a.base, a.ret, a.ns, a.conf_shape = base, ret, dct, conf_shape
        cx.ghost["smn"] = a
        return a

    def _conds(self, a):
        k = z3.String(fresh_name("nk"))
        special = z3.Or(*[a.ns.has(z3.StringVal(n)) for n in special_attrs()])
        conf_bad = z3.BoolVal(False) if a.conf_shape == 0 else z3.And(PUBLIC(CONF_FIELD), z3.Not(z3.Or(*[CONF_FIELD == z3.StringVal(x) for x in ("title", "extra", "allow_mutation")])))
        const_redefined = z3.Exists([k], z3.And(a.base.fields["__constants__"].has(k), a.ret.anns.has(k)))
        k2 = z3.String(fresh_name("nk"))
        forbids = a.base.fields["__config__"].fields["extra"].t == FORBID
        loosened = z3.And(forbids, z3.Or(a.ret.fields["__config__"].fields["extra"].t != FORBID, z3.Exists([k2], z3.And(a.ret.fields["__fields__"].has(k2), z3.Not(a.base.fields["__fields__"].has(k2))))))
        return special, conf_bad, const_redefined, loosened

    def raises(self, cx, a):
        if len(a.bases) > 1:
            return {"TypeError": z3.BoolVal(True)}
        return {"TypeError": z3.Or(*self._conds(a))}

    def ensures(self, cx, a, res):
        special, conf_bad, const_redefined, loosened = self._conds(a)
        made = [e for e in cx.fx if e[0] == "pydantic-new"]
        return [
            ("single-parent", z3.BoolVal(len(a.bases) == 1), "a schema has exactly one parent schema"),
            ("returns-the-pydantic-class", z3.BoolVal(res is a.ret and len(made) == 1), "the class is pydantic's model class for the same name, bases and namespace"),
            ("bookkeeping-attributes-not-user-defined", z3.Not(special), "the internal bookkeeping attributes cannot be set by hand"),
            ("config-only-in-allowed-fields", z3.Not(conf_bad), "only title/extra/allow_mutation of the pydantic config may be changed"),
            ("parent-constants-not-redefined", z3.Not(const_redefined), "a field that is a constant of the parent cannot be redefined"),
            ("extra-field-policy-not-loosened", z3.Not(loosened), "if the parent forbids extra fields the child forbids them too and adds no fields, so every child instance stays parsable by the parent"),
        ]


CONF_FIELD = z3.String("config_attribute_name")


class NamespaceDict(SVal):
    """class namespace `dct`: symbolic membership, and optionally a Config class with one generic attribute"""

    def __init__(self, m, conf_shape):
        self.m, self.conf_shape = m, conf_shape

    def py_contains(self, cx, k):
        return self.m.py_contains(cx, k)

    def meth_get(self, cx, k, default=None):
        if k != "Config":
            raise Unsupported("namespace lookup of " + repr(k))
        if self.conf_shape == 0:
            return None
        c = ClsObj("UserConfig", name="Config")
        c.fields["__dict__"] = {SStrKey(CONF_FIELD): None}
        return c


class SStrKey(SStr):
    concrete_key = True

    def __hash__(self):
        return 1

    def __eq__(self, o):
        return self is o


def pydantic_new(cx, obj, cls, name, bases, dct):
    a = cx.ghost["smn"]
    cx.effect("pydantic-new", name, bases)
    return a.ret


# ---- SchemaBase.Config.schema_extra: how constants appear in the exported JSON Schema (C20, C12) ------------------

JsonV = z3.DeclareSort("JsonSchemaValue")
JS_TRUE = z3.Const("json_true", JsonV)  # the JSON Schema `true`: accepts any value
JS_OF_CONST = z3.Function("json_of_constant", ConstV, JsonV)


class TJson:
    def sort(self):
        return JsonV

    def wrap(self, t):
        return JsonVal(t)

    def unwrap(self, cx, v):
        if v is True:
            return JS_TRUE
        if isinstance(v, JsonVal):
            return v.t
        if isinstance(v, ConstVal):
            return JS_OF_CONST(v.t)
        if isinstance(v, dict):
            # some JSON object (a sub-schema with keywords): whatever it is, it is not the schema `true`
            o = z3.Const(fresh_name("json_object"), JsonV)
            cx.assume(o != JS_TRUE)
            return o
        raise Unsupported(f"not a JSON schema value: {v!r}")


class JsonVal(SVal):
    def __init__(self, t):
        self.t = t


class SchemaDict(SVal):
    """the JSON Schema dict being post-processed: schema["properties"] and schema["$metador_constants"] are symbolic maps"""

    def __init__(self):
        self.props = SMap.fresh(STR, TJson(), "schema_properties")
        self.consts = None
        self.other_writes = []

    def py_getitem(self, cx, k):
        if k == "properties":
            return self.props
        if k == "$metador_constants":
            if self.consts is None:
                cx.py_raise("KeyError", "constants section not created")
            return self.consts
        raise Unsupported("schema[" + repr(k) + "]")

    def py_setitem(self, cx, k, v):
        if k == "$metador_constants" and isinstance(v, dict) and not v:
            self.consts = SMap(STR, TJson(), name="schema_constants")
            return
        self.other_writes.append(k)

    def py_getattr(self, cx, name):
        if name == "ghost_props":
            return self.props
        if name == "ghost_consts":
            return self.consts
        raise Unsupported("dict attribute " + name)


class SchemaExtra(FnSpec):
    file = "schema/core.py"
    qual = "SchemaBase.Config.schema_extra"
    props = ("C20", "C12")

    def init(self):
        self.bindings["UndefVersion"] = UnwrapStub()
        self.bindings["add_missing_field_descriptions"] = lambda cx, sch, model: cx.effect("descriptions", model)
        self.bindings["KEY_SCHEMA_CONSTFLDS"] = "$metador_constants"

        def inv(cx, env, it):
            a = cx.ghost["sx"]
            sd = a.schema
            k = z3.String(fresh_name("ck"))
            C = a.consts0
            return [
                ("constants-so-far-listed-unconstrained-and-recorded", z3.ForAll([k], z3.Implies(z3.Select(it.processed, k), z3.And(sd.props.has(k), sd.props.get_term(k) == JS_TRUE, sd.consts.has(k), sd.consts.get_term(k) == JS_OF_CONST(C.get_term(k)))))),
                ("other-properties-untouched", z3.ForAll([k], z3.Implies(z3.Not(z3.Select(it.processed, k)), z3.And(sd.props.has(k) == a.props0.has(k), sd.props.get_term(k) == a.props0.get_term(k))))),
                ("only-constants-recorded", z3.ForAll([k], z3.Implies(sd.consts.has(k), z3.Select(it.processed, k)))),
            ]

        self.loops[0] = LoopSpec(inv, modifies=["cname", "cval"], havoc_inplace=["schema.ghost_props", "schema.ghost_consts"])

    def setup(self, cx):
        MS = ClsObj("SchemaCls", name="MetadataSchema")
        self.bindings["MetadataSchema"] = MS
        model = ClsObj("SchemaCls", name="model")
        model.fields["__constants__"] = SMap.fresh(STR, TConst(), "model_constants")
        sd = SchemaDict()
        a = A(schema=sd, model=model)
        a.consts0 = model.fields["__constants__"].snapshot()
        a.props0 = sd.props.snapshot()
        cx.ghost["sx"] = a
        return a

    def ensures(self, cx, a, res):
        sd = a.schema
        k = z3.String(fresh_name("ek"))
        C = a.consts0
        has_consts = z3.Exists([k], C.has(k))
        out = [("constants-section-iff-constants", z3.BoolVal(sd.consts is not None) == has_consts if isinstance(sd.consts, SMap) or sd.consts is None else z3.BoolVal(False), "the constants section exists exactly when the schema has constants")]
        if sd.consts is not None:
            out.append(("constants-listed-as-unconstrained-properties", z3.ForAll([k], z3.Implies(C.has(k), z3.And(sd.props.has(k), sd.props.get_term(k) == JS_TRUE))), "every constant is listed under properties as `true` (any value accepted): an instance of a child schema, which may override the constant, still validates against the parent's embedded schema"))
            out.append(("constants-recorded-with-their-values", z3.ForAll([k], sd.consts.has(k) == C.has(k)) if True else None, "the constant values are recorded in the separate constants section"))
            out.append(("recorded-values-are-the-constants", z3.ForAll([k], z3.Implies(C.has(k), sd.consts.get_term(k) == JS_OF_CONST(C.get_term(k)))), "with exactly their values"))
        out.append(("other-properties-untouched", z3.ForAll([k], z3.Implies(z3.Not(C.has(k)), z3.And(sd.props.has(k) == a.props0.has(k), sd.props.get_term(k) == a.props0.get_term(k)))), "no other property is changed"))
        out.append(("nothing-else-written", z3.BoolVal(not sd.other_writes), "no other top-level key is written"))
        return out


class UnwrapStub(SVal):
    def meth__unwrap(self, cx, m):
        return None  # the class is not a version-less view (the other case substitutes the original class first)


def build_c12(reg):
    reg.set_class_home("SchemaMagicInstance", "schema/core.py", "SchemaMagic")
    reg.set_class_home("DynEncMetaInstance", "schema/encoder.py", "DynJsonEncoderMetaMixin")
    reg.method_bindings[("SchemaMagic", "super.__init__")] = lambda cx, obj, name, bases, dct: cx.effect("parent-metaclass-init", name, bases, dct)
    reg.method_bindings[("DynJsonEncoderMetaMixin", "super.__init__")] = lambda cx, obj, name, bases, dct: cx.effect("type-init")
    reg.attr_bindings[("SchemaMagicInstance", "__dict__")] = lambda cx, o: ObjDict2(o)
    reg.set_class_home("BaseModelPlusCls", "schema/base.py", "BaseModelPlus")
    reg.set_class_home("BaseModelPlusObj", "schema/base.py", "BaseModelPlus")
    reg.method_bindings[("BaseModelPlus", "super.parse_raw")] = super_parse_raw
    reg.method_bindings[("BaseModelPlus", "super.dict")] = lambda cx, obj, *a, **k: (cx.effect("super-dict", a, k), "pydantic-dict")[1]
    reg.method_bindings[("BaseModelPlus", "super.json")] = lambda cx, obj, *a, **k: (cx.effect("super-json", a, k), "pydantic-json")[1]
    reg.method_bindings[("BaseModelPlusObj", "json")] = lambda cx, obj, *a, **k: (cx.effect("json", a, k), JsonStr(JSON_TEXT))[1]
    specs = [SchemaMagicInit(), DynEncoderInit(), WrappedEncoder(), ModDefDumpArgs(), ParseRaw(), ToBytes(), DictSpec(), JsonSpec(), OverrideConsts(), AddConstFields(), RegEncoder()]
    for s in specs:
        reg.add(s)
    return specs


def build_c20_schema(reg):
    s = SchemaExtra()
    reg.add(s)
    m = MakeMandatory()  # a field listed as required by the embedded JSON Schema is one the class does not accept None for
    reg.add(m)
    return [s, m]


def build_c13(reg):
    reg.method_bindings[("SchemaMagic", "super.__new__")] = pydantic_new
    # what a new class starts with (C12's contract): the constants of EVERY base - also for the marker subclass handed out for a version-less
    # request, whose first base is the marker - so that a constant pinning an inherited field is forced on every handle of the schema
    reg.set_class_home("SchemaMagicInstance", "schema/core.py", "SchemaMagic")
    reg.method_bindings[("SchemaMagic", "super.__init__")] = lambda cx, obj, name, bases, dct: cx.effect("parent-metaclass-init", name, bases, dct)
    reg.attr_bindings[("SchemaMagicInstance", "__dict__")] = lambda cx, o: ObjDict2(o)
    specs = [CheckTypes(), IsPubInstanceField(), DetectFieldOverrides(), CheckOverrides(), IsSubtype(), SchemaMagicNew(), MakeMandatory(), SchemaMagicInit()]
    for s in specs:
        reg.add(s)
    return specs
