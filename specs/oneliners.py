"""One- and two-line functions that other contracts use as bindings: each is verified against what it is bound to there.
The function is run on *trace* values (every attribute read, call and index on an argument is recorded as a term); the contract
states the trace of the result, the conditions of every raise, and the calls made — so a delegation that goes somewhere else,
drops a guard, or passes other arguments fails.  Conditions on traces are z3 Booleans named after the trace."""
from __future__ import annotations

import z3

from pyvc.api import A, FnSpec
from pyvc.engine import Closure, SClass
from pyvc.values import SBool, SStr, SVal, Unsupported

T_ONE = ["trace values: an attribute / call / index on an argument denotes 'that attribute / call result / element of the argument' (uninterpreted); truth values of such results are free Booleans named after the trace"]


def show(e):
    if isinstance(e, Tr):
        return show(e.e)
    if isinstance(e, tuple):
        return "(" + " ".join(show(x) for x in e) + ")"
    if isinstance(e, dict):
        return "{" + ", ".join(f"{k}={show(v)}" for k, v in sorted(e.items())) + "}"
    if isinstance(e, SStr):
        return f"<str {e.t}>"
    if isinstance(e, Closure):
        return "<closure>"
    return repr(e)


class Tr(SVal):
    """a recorded value"""

    def __init__(self, e):
        self.e = e

    def py_getattr(self, cx, n):
        return Tr(("attr", self.e, n))

    def py_call(self, cx, *a, **kw):
        t = Tr(("call", self.e, tuple(a), dict(kw)))
        cx.effect("call", show(t))
        return t

    def py_getitem(self, cx, i):
        return Tr(("item", self.e, i))

    def py_setitem(self, cx, i, v):
        cx.effect("setitem", show(self), show(i), show(v))

    def py_delitem(self, cx, i):
        cx.effect("delitem", show(self), show(i))

    def py_truth(self, cx):
        return z3.Bool("truth of " + show(self))

    def py_is_none(self, cx):
        return z3.Bool("is None: " + show(self))

    def py_eq(self, cx, o):
        return z3.Bool(f"{show(self)} == {show(o)}")

    def py_contains(self, cx, item):
        return SBool(z3.Bool(f"{show(item)} in {show(self)}"))

    def py_isinstance(self, cx, c):
        names = c if isinstance(c, (tuple, list)) else [c]
        return z3.Or(*[z3.Bool(f"isinstance({show(self)}, {getattr(n, 'name', n)})") for n in names])

    def py_str(self, cx):
        return SStr(z3.String("str of " + show(self)))

    elementwise = True  # f(*trace): the trace stands for the whole argument list

    def __repr__(self):
        return "Tr" + show(self.e)


def S(name="self"):
    return Tr(("arg", name))


def at(x, n):
    return Tr(("attr", x.e if isinstance(x, Tr) else x, n))


def call(f, *a, **kw):
    return Tr(("call", f.e if isinstance(f, Tr) else f, tuple(a), dict(kw)))


def item(x, i):
    return Tr(("item", x.e if isinstance(x, Tr) else x, i))


def truth(x):
    return z3.Bool("truth of " + show(x))


def same(a, b):
    return show(a) == show(b)


def truth_of(res):
    if isinstance(res, bool):
        return z3.BoolVal(res)
    if isinstance(res, SBool):
        return res.t
    if z3.is_expr(res):
        return res
    return z3.BoolVal(False)


def builtin(name):
    """a builtin applied to traces is a trace too; lambdas are applied to a probe so that their body is part of the trace"""

    def f(cx, *args, **kw):
        conv = []
        for x in args:
            if isinstance(x, Closure):
                probe = Tr(("probe",))
                conv.append(Tr(("lambda", cx.run.interp.call_closure(cx, x, [probe], {}))))
            else:
                conv.append(x)
        return Tr(("builtin", name, tuple(conv), dict(kw)))

    return f


def lam(body_of_probe):
    return Tr(("lambda", body_of_probe(Tr(("probe",)))))


def bi(name, *args, **kw):
    return Tr(("builtin", name, tuple(args), dict(kw)))


class One(FnSpec):
    """table-driven: args (names -> trace or value), bindings, expected raises {exc: z3 cond}, expected result (trace / value / predicate), expected effects"""

    def __init__(self, file, qual, props, args, result=None, raises=None, effects=None, bindings=None, clause="", result_pred=None, fields=None, cases=None):
        self.file, self.qual, self.props = file, qual, tuple(props)
        self._args, self._result, self._raises, self._effects, self._clause = args, result, raises or {}, effects, clause
        self._bindings, self._result_pred, self._fields, self._cases = bindings or {}, result_pred, fields, cases
        super().__init__()

    def init(self):
        for n in ("map", "iter", "len", "list", "set", "repr", "filter", "sorted", "reversed", "tuple"):
            self.bindings[n] = builtin(n)
        for k, v in self._bindings.items():
            self.bindings[k] = v

    def setup(self, cx):
        a = A(**{k: (v() if callable(v) and not isinstance(v, SVal) else v) for k, v in self._args.items()})
        return a

    def raises(self, cx, a):
        return dict(self._raises)

    def on_raise(self, cx, a, exc):
        return [("nothing-was-done-before-the-refusal", z3.BoolVal(not [e for e in cx.fx if e[0] in ("setitem", "delitem")]), "")]

    def ensures(self, cx, a, res):
        out = []
        if self._result_pred is not None:
            out.append(("result", self._result_pred(cx, a, res), self._clause))
        elif self._cases is not None:
            # [(z3 condition, expected result)]: under the condition the result is that value
            for i, (cond, want) in enumerate(self._cases):
                out.append((f"result-case-{i}", z3.Implies(cond, z3.BoolVal(same(res, want))), self._clause))
        else:
            out.append(("result", z3.BoolVal(same(res, self._result)), self._clause + f" [expected {show(self._result)}]"))
        if self._effects is not None:
            got = [tuple(e[:-1]) for e in cx.fx if e[0] in ("setitem", "delitem")]
            out.append(("writes", z3.BoolVal(got == list(self._effects)), "exactly these writes"))
        return out


def W(q, props, args, **kw):
    return One("container/wrappers.py", q, props, args, **kw)


def Ifc(q, props, args, **kw):
    return One("container/interface.py", q, props, args, **kw)


def Rec(q, props, args, **kw):
    return One("ih5/record.py", q, props, args, **kw)


def Ovl(q, props, args, **kw):
    return One("ih5/overlay.py", q, props, args, **kw)


def table():
    s = S()
    out = []
    # ---- MetadorGroup listings derived from the filtered items() (C08) ----
    out += [
        W("MetadorGroup.values", ("C08", "C15"), {"self": s}, result=bi("map", lam(lambda x: item(x, 1)), call(at(s, "items"))), clause="values() are the second components of the FILTERED items()"),
        W("MetadorGroup.keys", ("C08",), {"self": s}, result=bi("map", lam(lambda x: item(x, 0)), call(at(s, "items"))), clause="keys() are the first components of the FILTERED items()"),
        W("MetadorGroup.__iter__", ("C08",), {"self": s}, result=bi("iter", call(at(s, "keys"))), clause="iteration goes over the filtered keys"),
        W("MetadorGroup.__reversed__", ("C08",), {"self": s}, result=bi("reversed", bi("list", call(at(s, "keys")))), clause="reverse iteration goes over the filtered keys too (wrapt would otherwise forward reversed() to the raw group, which lists the bookkeeping nodes — defect #27)"),
        W("MetadorGroup.__len__", ("C08",), {"self": s}, result=bi("len", bi("list", call(at(s, "keys")))), clause="the length counts the filtered keys only"),
        W("MetadorNode.meta", ("C15", "C07", "C06", "C08"), {"self": s}, result=call(Tr(("global", "MetadorMeta")), s), bindings={"MetadorMeta": Tr(("global", "MetadorMeta"))}, clause="the metadata interface is bound to THIS wrapper (with its restrictions), not to the raw node"),
        W("MetadorNode.metador", ("C15", "C07"), {"self": s}, result=call(Tr(("global", "WithDefaultQueryStartNode")), at(at(s, "_self_container"), "metador"), s), bindings={"WithDefaultQueryStartNode": Tr(("global", "WithDefaultQueryStartNode"))}, clause="the container interface reached from a node starts queries at THIS wrapper"),
        W("MetadorNode._destroy_meta", ("C06",), {"self": s, "_unlink": Tr(("arg", "_unlink"))}, result=None, clause="destroying the metadata of a node is MetadorMeta._destroy with the same unlink flag", result_pred=lambda cx, a, res: z3.BoolVal(res is None and [e[1] for e in cx.fx if e[0] == "call"] == [show(call(at(at(s, "meta"), "_destroy"), _unlink=Tr(("arg", "_unlink"))))])),
        W("MetadorNode.name", ("C08",), {"self": s}, result=at(at(s, "__wrapped__"), "name"), clause=""),
        W("WithDefaultQueryStartNode.query", ("C07", "C15"), {"self": s, "schema": Tr(("arg", "schema")), "version": Tr(("arg", "version")), "node": None}, result=call(at(at(s, "__wrapped__"), "query"), Tr(("arg", "schema")), Tr(("arg", "version")), node=at(s, "_self_query_start_node")), clause="without an explicit node the query starts at the node the interface was reached from", result_pred=None),
        W("MetadorContainer.metador", ("C07",), {"self": s}, result=at(s, "_self_toc"), clause=""),
        W("MetadorContainer.__exit__", ("C02",), {"self": s, "__varargs__": ["t", "v", "tb"]}, result=call(at(at(s, "__wrapped__"), "__exit__"), "t", "v", "tb"), clause="leaving the with-block is the raw object's __exit__ (which closes / commits)"),
    ]
    # ---- reserved locations (C06 / C20) ----
    ref = Tr(("arg", "ref"))

    def ep(name_tr, ver_tr):
        return SStr(z3.String("ep name of " + show(name_tr) + " " + show(ver_tr)))

    to_ep = lambda cx, n, v: ep(n, v)  # noqa: E731

    def path_pred(prefix, name_of, ver_of):
        def p(cx, a, res):
            return z3.BoolVal(False) if not isinstance(res, SStr) else res.t == z3.Concat(z3.StringVal(prefix + "/"), ep(name_of(a), ver_of(a)).t)

        return p

    class MNS(SVal):
        def py_getattr(self, cx, n):
            return {"METADOR_LINKS_PATH": "/metador_container/links", "METADOR_SCHEMAS_PATH": "/metador_container/schemas", "METADOR_PACKAGES_PATH": "/metador_container/packages"}[n]

    out += [
        Ifc("_ep_name_for", ("C06", "C20"), {"s_ref": ref}, bindings={"to_ep_name": to_ep}, result_pred=lambda cx, a, res: z3.BoolVal(False) if not isinstance(res, SStr) else res.t == ep(at(ref, "name"), at(ref, "version")).t, clause="the directory name of a schema is to_ep_name(its name, its version)"),
        Ifc("TOCLinks._link_path_for", ("C06",), {"schema_ref": ref}, bindings={"M": MNS(), "_ep_name_for": lambda cx, r: ep(at(r, "name"), at(r, "version"))}, result_pred=path_pred("/metador_container/links", lambda a: at(ref, "name"), lambda a: at(ref, "version")), clause="links of a schema live under /metador_container/links/<name__version>"),
        Ifc("TOCSchemas._schema_path_for", ("C20", "C06"), {"cls": SClass("TOCSchemas"), "s_ref": ref}, bindings={"M": MNS(), "to_ep_name": to_ep}, result_pred=path_pred("/metador_container/schemas", lambda a: at(ref, "name"), lambda a: at(ref, "version")), clause="the record of a schema lives under /metador_container/schemas/<name__version>"),
        Ifc("TOCPackages._pkginfo_path_for", ("C20", "C06"), {"pkg_name": Tr(("arg", "pkg_name")), "pkg_version": Tr(("arg", "pkg_version"))}, bindings={"M": MNS(), "to_ep_name": to_ep}, result_pred=path_pred("/metador_container/packages", lambda a: Tr(("arg", "pkg_name")), lambda a: Tr(("arg", "pkg_version"))), clause="the record of a package lives under /metador_container/packages/<name__version>"),
    ]

    class JP(SVal):
        def meth__schema_path_for(self, cx, r):
            return SStr(z3.String("schema path of " + show(r)))

    out.append(Ifc("TOCSchemas._jsonschema_path_for", ("C20",), {"cls": JP(), "s_ref": ref}, result_pred=lambda cx, a, res: z3.BoolVal(False) if not isinstance(res, SStr) else res.t == z3.Concat(z3.String("schema path of " + show(ref)), z3.StringVal("/jsonschema.json")), clause="the embedded JSON Schema is the dataset jsonschema.json inside the schema's record"))
    # ---- TOC read-only views ----
    out += [
        Ifc("TOCSchemas.__contains__", ("C20",), {"self": s, "schema_ref": ref}, result_pred=lambda cx, a, res: (res.t if isinstance(res, SBool) else z3.BoolVal(False)) == z3.Bool(f"{show(ref)} in {show(at(s, '_schemas'))}"), clause="a schema is 'in' the TOC iff it is in the set of schemas in use"),
        Ifc("TOCSchemas.__len__", ("C20",), {"self": s}, result=bi("len", at(s, "_schemas")), clause=""),
        Ifc("TOCSchemas.__iter__", ("C20",), {"self": s}, result=bi("iter", call(at(s, "keys"))), clause=""),
        Ifc("TOCSchemas.packages", ("C20",), {"self": s}, result=at(s, "_pkgs"), clause=""),
        Ifc("TOCPackages.__getitem__", ("C20",), {"self": s, "pkg": Tr(("arg", "pkg"))}, result=item(at(s, "_pkginfos"), Tr(("arg", "pkg"))), clause=""),
        Ifc("TOCPackages.keys", ("C20",), {"self": s}, result=call(at(at(s, "_pkginfos"), "keys")), clause=""),
        Ifc("TOCPackages.values", ("C20",), {"self": s}, result=call(at(at(s, "_pkginfos"), "values")), clause=""),
        Ifc("TOCPackages.items", ("C20",), {"self": s}, result=call(at(at(s, "_pkginfos"), "items")), clause=""),
        Ifc("TOCPackages.__len__", ("C20",), {"self": s}, result=bi("len", at(s, "_pkginfos")), clause=""),
        Ifc("TOCPackages.__iter__", ("C20",), {"self": s}, result=bi("iter", at(s, "_pkginfos")), clause=""),
        Ifc("MetadorMeta.keys", ("C07",), {"self": s}, result=call(at(at(s, "_objs"), "keys")), clause="keys() lists the names of the attached objects (the table of this node), no object is read"),  # (C15 has its own contract of keys/values/items: metaread.ViewSpec)
        Ifc("MetadorMeta.__len__", ("C07",), {"self": s}, result=bi("len", call(at(s, "keys"))), clause=""),
        Ifc("MetadorMeta.__iter__", ("C07",), {"self": s}, result=bi("iter", call(at(s, "keys"))), clause=""),
    ]
    # ---- IH5Record accessors (C02 / C03 / C11) ----
    out += [
        Rec("IH5Record._expect_open", ("C02", "C03"), {"self": s}, raises={"ValueError": truth(at(s, "_closed"))}, result=None, clause="every life-cycle operation on a closed record is refused"),
        Rec("IH5Record._expect_not_ro", ("C02",), {"self": s}, raises={"ValueError": z3.Bool(f"{show(at(s, 'mode'))} == 'r'")}, result=None, clause="a record opened read-only refuses to be patched"),
        Rec("IH5Record.mode", ("C02",), {"self": s}, cases=[(truth(at(s, "_allow_patching")), "r+"), (z3.Not(truth(at(s, "_allow_patching"))), "r")], clause="the mode reported is r+ exactly when patching is allowed"),
        Rec("IH5Record.__enter__", ("C02",), {"self": s}, result=s, clause=""),
        Rec("IH5Record.__exit__", ("C02", "C11"), {"self": s, "ex_type": None, "ex_value": None, "ex_traceback": None}, result=None, result_pred=lambda cx, a, res: z3.BoolVal(res is None and [e[1] for e in cx.fx if e[0] == "call"] == [show(call(at(s, "close")))]), clause="leaving the with-block closes the record through close() (which commits an open patch) — also when an exception is passing"),
        Rec("IH5Record.ih5_uuid", ("C03", "C04"), {"self": s}, result=at(call(at(s, "_ublock"), 0), "record_uuid"), clause="the record uuid is the one in the user block of the BASE container"),
        Rec("IH5Record._is_empty", ("C10",), {"self": s}, result_pred=lambda cx, a, res: truth_of(res) == z3.And(z3.Not(truth(call(at(at(s, "attrs"), "keys")))), z3.Not(truth(call(at(s, "keys"))))), clause="empty iff there are neither root attributes nor root children"),
    ]
    # ---- overlay one-liners ----
    out += [
        Ovl("IH5Group.name", ("C01", "C09"), {"self": s}, result=at(s, "_gpath"), clause=""),
        Ovl("IH5Group.file", ("C01", "C09"), {"self": s}, result=at(s, "_record"), clause=""),
        Ovl("IH5Group.parent", ("C01", "C09"), {"self": s}, result=item(at(s, "_record"), call(at(s, "_parent_path"))), clause="the parent is looked up through the record under the parent path (so it is resolved in the overlay view)"),
        Ovl("IH5Dataset.name", ("C01", "C09"), {"self": s}, result=at(s, "_gpath"), clause=""),
        Ovl("IH5Dataset.file", ("C01", "C09"), {"self": s}, result=at(s, "_record"), clause=""),
        Ovl("IH5Dataset.parent", ("C01", "C09"), {"self": s}, result=item(at(s, "_record"), call(at(s, "_parent_path"))), clause=""),
        Ovl("IH5Dataset.ndim", ("C09",), {"self": s}, result=at(item(item(at(s, "_files"), at(s, "_cidx")), at(s, "_gpath")), "ndim"), clause="read from the container the dataset was resolved to"),
        Ovl("IH5InnerNode.__iter__", ("C01", "C09"), {"self": s}, result=bi("iter", call(at(call(at(s, "_children")), "keys"))), clause=""),
        Ovl("IH5InnerNode.__len__", ("C01", "C09"), {"self": s}, result=bi("len", call(at(s, "keys"))), clause=""),
        Ovl("IH5InnerNode.values", ("C01", "C09"), {"self": s}, result=call(at(call(at(s, "_dict")), "values")), clause=""),
        Ovl("IH5InnerNode.items", ("C01", "C09"), {"self": s}, result=call(at(call(at(s, "_dict")), "items")), clause=""),
    ]
    for cls in ("IH5Group", "IH5Dataset"):
        out.append(
            Ovl(cls + ".attrs", ("C01", "C09"), {"self": s}, bindings={"IH5AttributeManager": Tr(("global", "IH5AttributeManager"))}, raises={"KeyError": z3.Not(truth(call(at(s, "_guard_open"))))} if False else {}, result=call(Tr(("global", "IH5AttributeManager")), at(s, "_record"), at(s, "_gpath"), at(s, "_cidx")), clause="the attribute set of a node is resolved from the same path and the same creation index as the node (after the open-guard)", result_pred=lambda cx, a, res, s=s: z3.BoolVal(same(res, call(Tr(("global", "IH5AttributeManager")), at(s, "_record"), at(s, "_gpath"), at(s, "_cidx"))) and [e[1] for e in cx.fx if e[0] == "call"][:1] == [show(call(at(s, "_guard_open")))]))
        )
    # ---- IH5Record.ih5_meta / ih5_files: one entry per container, in container order ----
    def by_index_schema(interp, cx, fr, e):
        import ast

        from pyvc.engine import Env, Frame
        from pyvc.values import SInt

        if not isinstance(e, ast.ListComp) or len(e.generators) != 1 or e.generators[0].ifs or not isinstance(e.generators[0].target, ast.Name):
            return NotImplemented
        g = e.generators[0]
        gi = SInt(z3.Int("generic_container_index"))
        sub = Frame(fr.modinfo, fr.qual, Env(fr.env), spec=fr.spec, cls=fr.cls)
        src = ast.unparse(g.iter)
        if src == "range(len(self.__files__))":
            sub.env.set(g.target.id, gi)
            return ("for-each-container-index", interp.eval(cx, sub, e.elt))
        if src == "self.__files__":
            sub.env.set(g.target.id, item(at(s, "__files__"), "generic-index"))
            return ("for-each-container", interp.eval(cx, sub, e.elt))
        return NotImplemented

    def meta_pred(cx, a, res):
        from pyvc.values import SInt

        ok = isinstance(res, tuple) and res[0] == "for-each-container-index" and isinstance(res[1], Tr)
        e = res[1].e if ok else None
        ok = ok and e[0] == "call" and e[2] == () and e[1][0] == "attr" and e[1][2] == "copy" and e[1][1][0] == "call" and e[1][1][1] == ("attr", s.e, "_ublock") and len(e[1][1][2]) == 1 and isinstance(e[1][1][2][0], SInt)
        return z3.BoolVal(False) if not ok else e[1][1][2][0].t == z3.Int("generic_container_index")

    def files_pred(cx, a, res):
        ok = isinstance(res, tuple) and res[0] == "for-each-container" and isinstance(res[1], Tr)
        return z3.BoolVal(bool(ok and same(res[1], call(Tr(("global", "Path")), at(item(at(s, "__files__"), "generic-index"), "filename")))))

    class ByIndex(One):
        def init(self):
            One.init(self)
            self.comps[0] = by_index_schema

    out.append(ByIndex("ih5/record.py", "IH5Record.ih5_meta", ("C05", "C10", "C03"), {"self": s}, result_pred=meta_pred, clause="the user blocks of ALL containers, one per container index in container order, each as a COPY (callers cannot edit the record's own blocks)"))
    out.append(ByIndex("ih5/record.py", "IH5Record.ih5_files", ("C03", "C09"), {"self": s}, bindings={"Path": Tr(("global", "Path"))}, result_pred=files_pred, clause="the file names of all containers, in container order (what is needed to reopen the record)"))
    # ---- harvesting pipeline (C14: results are combined by the partial-merge fold, in the given order) ----
    schema, sources, obj = Tr(("arg", "schema")), Tr(("arg", "sources")), Tr(("arg", "obj"))
    hs = Tr(("global", "_harvest_source"))

    def harvested(ignore_invalid):
        per_source = lam(lambda x: call(at(at(schema, "Partial"), "cast"), call(hs, schema, x), ignore_invalid=ignore_invalid))
        return call(at(at(schema, "Partial"), "merge"), bi("map", per_source, sources))

    class Harvest(One):
        def setup(self, cx):
            a = One.setup(self, cx)
            a["ignore_invalid"], a["return_partial"] = cx.choose(2) == 1, cx.choose(2) == 1
            return a

        def ensures(self, cx, a, res):
            m = harvested(a["ignore_invalid"])
            want = m if a["return_partial"] else call(at(m, "from_partial"))
            return [("result", z3.BoolVal(same(res, want)), self._clause)]

    out.append(Harvest("harvester/__init__.py", "harvest", ("C14",), {"schema": schema, "sources": sources}, bindings={"_harvest_source": hs}, clause="the results of the sources, each cast into the schema's partial class (with the caller's ignore_invalid), are combined by Partial.merge in the GIVEN order; the full model is built from that unless the partial is asked for"))
    is_path, is_hv = z3.Bool(f"isinstance({show(obj)}, Path)"), z3.Bool(f"isinstance({show(obj)}, Harvester)")
    ml = Tr(("global", "metadata_loader"))
    out.append(One("harvester/__init__.py", "_harvest_source", ("C14",), {"schema": schema, "obj": obj}, bindings={"Path": SClass("Path"), "Harvester": SClass("Harvester"), "metadata_loader": ml}, raises={"ValueError": z3.And(z3.Not(is_path), z3.Not(is_hv))}, cases=[(is_path, call(at(call(call(ml, schema), filepath=obj), "harvest"))), (z3.And(z3.Not(is_path), is_hv), call(at(obj, "harvest")))], clause="a path is loaded through the schema's metadata loader, a harvester is run as it is; anything else is refused"))
    # ---- the overlay kernel's notion of a virtual node, and node validity (C01) ----
    node = Tr(("arg", "node"))

    h5 = type("H5", (SVal,), {"py_getattr": lambda self_, cx, n: SClass("h5py." + n)})()
    SUBST = "\x1a"
    out.append(Ovl("_node_is_virtual", ("C01", "C09", "C10"), {"node": node}, bindings={"h5py": h5, "SUBST_KEY": SUBST}, result_pred=lambda cx, a, res: truth_of(res) == z3.And(z3.Bool(f"isinstance({show(node)}, h5py.Group)"), z3.Not(z3.Bool(f"{show(SUBST)} in {show(at(node, 'attrs'))}"))), clause="a node is VIRTUAL (a transparent carrier that does not hide older containers) iff it is a group WITHOUT the substitution marker attribute — datasets and marked groups override"))

    class PostInit(FnSpec):
        file = "ih5/overlay.py"
        qual = "IH5Node.__post_init__"
        props = ("C01",)

        def setup(self, cx):
            from pyvc.containers import SObj
            from pyvc.values import SInt

            me = SObj("IH5NodeInitObj", name="self")
            me.fields["_gpath"] = SStr(z3.String("gpath"))
            me.fields["_cidx"] = SInt(z3.Int("cidx"))
            return A(self=me)

        def raises(self, cx, a):
            g = z3.String("gpath")
            return {"ValueError": z3.Or(z3.Not(z3.PrefixOf(z3.StringVal("/"), g)), z3.Int("cidx") < 0)}

    out.append(PostInit())
    ub = Tr(("arg", "ub"))
    out += [
        Rec("IH5Record._set_ublock", ("C02", "C04"), {"self": s, "obj": 3, "ub": ub}, bindings={"h5py": h5, "Path": Tr(("global", "Path")), "isinstance": lambda cx, o, c: isinstance(o, Tr)}, result=None, effects=[("setitem", show(at(s, "_ublocks")), show(call(Tr(("global", "Path")), at(item(at(s, "__files__"), 3), "filename"))), show(ub))], clause="the in-memory user block is filed under the file name of the container with that index"),
        Rec("IH5Record._ublock", ("C02", "C04"), {"self": s, "obj": 3}, bindings={"h5py": h5, "Path": Tr(("global", "Path")), "isinstance": lambda cx, o, c: isinstance(o, Tr)}, result=item(at(s, "_ublocks"), call(Tr(("global", "Path")), at(item(at(s, "__files__"), 3), "filename"))), clause="... and read back from there"),
    ]
    uuid = Tr(("arg", "uuid"))
    out.append(Ifc("TOCLinks.resolve", ("C06",), {"self": s, "uuid": uuid}, bindings={"cast": lambda cx, t, v: v, "H5DatasetLike": "H5DatasetLike"}, result=call(at(item(item(at(s, "_raw"), item(at(s, "_toc_path"), uuid)), ()), "decode"), "utf-8"), clause="a link resolves to the text stored in the link node the TOC records for that uuid"))
    out.append(One("util/diff.py", "DirDiff.is_empty", ("C18",), {"self": s}, result_pred=lambda cx, a, res: (res.t if isinstance(res, SBool) else z3.BoolVal(res) if isinstance(res, bool) else res if z3.is_expr(res) else z3.BoolVal(False)) == z3.Bool("is None: " + show(at(s, "_diff_root"))), clause="a diff is empty iff it has no root node"))
    return out


def add_oneliners(reg, props=None):
    specs = [x for x in table() if props is None or set(props) & set(x.props)]
    return specs  # bodies verified on their own
