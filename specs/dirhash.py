"""Contract for util/hashsums.py dir_hashsums — C19 (the hashsum tree is a function of names, kinds, file bytes and link targets only)."""
from __future__ import annotations

import z3

from pyvc.api import A, FnSpec, LoopSpec
from pyvc.containers import STR, SMap, SSeq, SSet, SetIter
from pyvc.values import SBool, SMaybe, SStr, SVal, Unsupported, fresh_name

from . import hashing
from .common_io import DISK, HEX, PathVal

S, B, I = z3.StringSort(), z3.BoolSort(), z3.IntSort()
# --- the directory as seen by rglob (T2) -----------------------------------------------------------------------
IS_SYM = z3.Function("is_symlink", S, B)
IS_REG = z3.Function("is_file_following_links", S, B)
REL = z3.Function("relative_path_to_dir", S, S)  # canonical text of path.relative_to(dir)
TARGET = z3.Function("symlink_target_relative_to_dir", S, S)
OUTSIDE = z3.Function("symlink_leads_outside_dir", S, B)
# --- relative paths (T2 pathlib) ---------------------------------------------------------------------------------
DOT = z3.StringVal(".")
NSEG = z3.Function("number_of_segments", S, I)
SEG = z3.Function("segment", S, I, S)
PFX = z3.Function("prefix_path", S, I, S)  # path of the first i segments; PFX(r, 0) = "."
JOIN = z3.Function("join_path", S, S, S)
PARENT = z3.Function("parent_path", S, S)
NAME = z3.Function("last_segment", S, S)

T_DIR = [
    "T2 rglob('*') lists every entry below the directory exactly once and does not descend into symlinks; every proper prefix of a listed relative path is itself listed and is a real directory (not a symlink, not a file)",
    "T2 pathlib normal form of relative paths: r = parent/name for r != '.', the parent of a one-segment path is '.', str(r).split('/') are its segments (['.'] for '.'), no other segment is '.'; relative_to(dir) is injective on the listed entries",
    "rel_symlink(dir, p) returns the link target relative to dir, or None exactly when it leads outside (its own contract, RelSymlink, states this over the pathlib/os primitives; the two terms used here are that contract's result for base = dir)",
    "nested python dicts built here are a trie: every dict() is new and only reached by navigating from the result dict, so the tree is modelled by its set of (relative path -> directory | leaf value) entries",
]


def realdir(p):
    return z3.And(z3.Not(IS_SYM(p)), z3.Not(IS_REG(p)))


def isfile(p):
    return z3.And(IS_REG(p), z3.Not(IS_SYM(p)))


def path_axioms(entries):
    r, x = z3.String("ax_r"), z3.String("ax_x")
    i = z3.Int("ax_i")
    p, q = z3.String("ax_p"), z3.String("ax_q")
    D = lambda xx: z3.And(entries.has(DIR_AT(xx)), REL(DIR_AT(xx)) == xx, realdir(DIR_AT(xx)))  # noqa: E731  xx is the relative path of a listed real directory
    return [
        z3.ForAll([r], z3.And(NSEG(r) >= 1, PFX(r, 0) == DOT)),
        z3.ForAll([r, i], z3.Implies(z3.And(r != DOT, i == NSEG(r)), PFX(r, i) == r)),  # (stated with a free index so that it applies to PFX(r, <loop counter>))
        z3.ForAll([r, i], z3.Implies(z3.And(0 <= i, i < NSEG(r)), PFX(r, i + 1) == JOIN(PFX(r, i), SEG(r, i)))),
        z3.ForAll([r, i], z3.Implies(z3.And(r != DOT, 0 <= i, i < NSEG(r)), SEG(r, i) != DOT)),
        z3.And(NSEG(DOT) == 1, SEG(DOT, 0) == DOT),
        z3.ForAll([r], z3.Implies(r != DOT, JOIN(PARENT(r), NAME(r)) == r)),
        z3.ForAll([r, i], z3.Implies(z3.And(1 <= i, i <= NSEG(r), r != DOT), PFX(r, i) != DOT)),
        # the listed entries
        z3.ForAll([p], z3.Implies(entries.has(p), REL(p) != DOT)),
        z3.ForAll([p, q], z3.Implies(z3.And(entries.has(p), entries.has(q), REL(p) == REL(q)), p == q)),
        z3.ForAll([p], z3.Implies(entries.has(p), DIR_AT(REL(p)) == p)),
        z3.ForAll([p, i], z3.Implies(z3.And(entries.has(p), realdir(p), 1 <= i, i <= NSEG(REL(p))), D(PFX(REL(p), i)))),
        z3.ForAll([p, i], z3.Implies(z3.And(entries.has(p), z3.Not(realdir(p)), PARENT(REL(p)) != DOT, 1 <= i, i <= NSEG(PARENT(REL(p)))), D(PFX(PARENT(REL(p)), i)))),
    ]


DIR_AT = z3.Function("listed_entry_with_relative_path", S, S)  # inverse of REL on the listed entries (REL is injective there)


class Trie:
    """the nested result dict as a set of entries keyed by relative path"""

    def __init__(self):
        self.dirs = SSet.fresh(STR, "tree_dirs")
        self.leaf = SMap.fresh(STR, STR, "tree_leaves")

    def has(self, x):
        return z3.Or(self.dirs.has(x), self.leaf.has(x))


class DictCursor(SVal):
    def __init__(self, trie, prefix_t):
        self.trie, self.prefix_t = trie, prefix_t

    def py_truth(self, cx):
        raise Unsupported("truthiness of the tree under construction")

    def key(self, seg):
        return JOIN(self.prefix_t, seg.t if isinstance(seg, SStr) else z3.StringVal(seg))

    def py_contains(self, cx, seg):
        return self.trie.has(self.key(seg))

    def py_setitem(self, cx, seg, v):
        k = self.key(seg)
        t = self.trie
        if isinstance(v, dict) and not v:
            t.dirs.dom = z3.Store(t.dirs.dom, k, z3.BoolVal(True))
            t.leaf.dom = z3.Store(t.leaf.dom, k, z3.BoolVal(False))
        elif isinstance(v, (SStr, str)):
            vt = v.t if isinstance(v, SStr) else z3.StringVal(v)
            t.leaf.dom = z3.Store(t.leaf.dom, k, z3.BoolVal(True))
            t.leaf.val = z3.Store(t.leaf.val, k, vt)
            t.dirs.dom = z3.Store(t.dirs.dom, k, z3.BoolVal(False))
        else:
            raise Unsupported("tree entry that is neither an empty dict nor a string")
        cx.note_write(("trie",), self.trie)

    def py_getitem(self, cx, seg):
        k = self.key(seg)
        cx.decide_or_fail(self.trie.has(k), "KeyError", "no such entry")
        cx.decide_or_fail(self.trie.dirs.has(k), "TypeError", "a leaf value is not a directory dict")
        return DictCursor(self.trie, k)

    def havoc_inplace(self, cx, hint="cursor"):
        self.prefix_t = z3.String(fresh_name(hint + "_prefix"))

    def py_getattr(self, cx, name):
        if name == "ghost_dirs":
            return self.trie.dirs
        if name == "ghost_leaf":
            return self.trie.leaf
        raise Unsupported("dict attribute " + name)


class EntryPath(PathVal):
    def meth_is_symlink(self, cx):
        return SBool(IS_SYM(self.t))

    def meth_is_file(self, cx):
        return SBool(IS_REG(self.t))

    def meth_relative_to(self, cx, base):
        return RelPath(REL(self.t))


class RelPath(SVal):
    def __init__(self, t):
        self.t = t

    def py_getattr(self, cx, name):
        if name == "name":
            return SStr(NAME(self.t))
        if name == "parent":
            return RelPath(PARENT(self.t))
        raise Unsupported("relative path attribute " + name)

    def py_str(self, cx):
        return RelStr(self.t)


LINKTXT = z3.Function("symlink_text", S, S)  # definition: LINKTXT(t) = "symlink:" ++ t  (unfolded where the code concatenates exactly these two)


class MaybeTarget(SVal):
    """what rel_symlink returns: None iff the link leads outside, else the target relative to the directory"""

    def __init__(self, p_t):
        self.p_t = p_t

    def py_is_none(self, cx):
        return OUTSIDE(self.p_t)

    def py_str(self, cx):
        return RelStr(TARGET(self.p_t))


class RelStr(SStr):
    def py_radd(self, cx, left):
        if left == "symlink:":
            return SStr(LINKTXT(self.t))
        return SStr.py_radd(self, cx, left)

    def meth_split(self, cx, sep=None, maxsplit=-1):
        if sep != "/":
            raise Unsupported("split by something else")
        segs = SSeq.fresh(STR, "segments")
        i = z3.Int(fresh_name("si"))
        cx.assume(z3.And(segs.n == NSEG(self.t), z3.ForAll([i], z3.Implies(z3.And(0 <= i, i < segs.n), segs.at_term(i) == SEG(self.t, i)))))
        cx.ghost["dh"].nav = self.t
        return segs


class DirPath(PathVal):
    def __init__(self, t, entries):
        PathVal.__init__(self, t)
        self.entries = entries

    def meth_rglob(self, cx, pat):
        if pat != "*":
            raise Unsupported("rglob pattern")
        ents = self.entries

        class _It(SVal):
            def py_iter_schema(s, cx2):
                return SetIter(STR, ents.dom, lambda kt: EntryPath(kt))

        return _It()


def expected_leaf(alg_t, p):
    return z3.If(isfile(p), z3.Concat(alg_t, z3.StringVal(":"), HEX(alg_t, DISK(p))), LINKTXT(TARGET(p)))


class DirHashsums(FnSpec):
    file = "util/hashsums.py"
    qual = "dir_hashsums"
    props = ("C19", "C18")

    def empty_container(self, cx, name, ann):
        if name == "ret":
            a = cx.ghost["dh"]
            a.root = DictCursor(a.trie, DOT)
            # the result starts empty
            x = z3.String(fresh_name("e0"))
            cx.assume(z3.ForAll([x], z3.And(z3.Not(a.trie.dirs.has(x)), z3.Not(a.trie.leaf.has(x)))))
            return a.root
        return None

    def init(self):
        self.bindings["rel_symlink"] = lambda cx, d, p: MaybeTarget(p.t)

        def tree_inv(a, proc, extra_dirs=None):
            t = a.trie
            alg = a.alg.t
            p, x = z3.String(fresh_name("ip")), z3.String(fresh_name("ix"))
            leaflike = lambda q: z3.Or(isfile(q), IS_SYM(q))  # noqa: E731
            return [
                ("processed-files-and-links-present", z3.ForAll([p], z3.Implies(z3.And(z3.Select(proc, p), leaflike(p)), z3.And(t.leaf.has(REL(p)), t.leaf.get_term(REL(p)) == expected_leaf(alg, p))))),
                ("processed-links-stay-inside", z3.ForAll([p], z3.Implies(z3.And(z3.Select(proc, p), IS_SYM(p)), z3.Not(OUTSIDE(p))))),
                ("processed-directories-present", z3.ForAll([p], z3.Implies(z3.And(z3.Select(proc, p), realdir(p)), t.dirs.has(REL(p))))),
                ("leaves-are-processed-files-or-links", z3.ForAll([x], z3.Implies(t.leaf.has(x), z3.And(a.entries.has(DIR_AT(x)), z3.Select(proc, DIR_AT(x)) if extra_dirs is None else z3.Or(z3.Select(proc, DIR_AT(x))), REL(DIR_AT(x)) == x, leaflike(DIR_AT(x)))))),
                ("directories-are-listed-real-directories", z3.ForAll([x], z3.Implies(t.dirs.has(x), z3.And(a.entries.has(DIR_AT(x)), REL(DIR_AT(x)) == x, realdir(DIR_AT(x)))))),
            ]

        def inv_outer(cx, env, it):
            a = cx.ghost["dh"]
            a.outer = it
            return tree_inv(a, it.processed)

        def inv_inner(cx, env, it):
            a = cx.ghost["dh"]
            cur = env["curr"]
            r = a.nav
            t = a.trie
            if a.snap is None:  # first evaluation = entry of the inner loop: the tree as the outer invariant describes it
                a.snap = (t.dirs.snapshot(), t.leaf.snapshot())
            d1, l1 = a.snap
            j = z3.Int(fresh_name("ij"))
            x = z3.String(fresh_name("ix"))
            return [
                ("cursor-at-the-prefix-walked-so-far", z3.And(z3.BoolVal(isinstance(cur, DictCursor) and cur.trie is a.trie), z3.And(z3.Implies(r == DOT, cur.prefix_t == DOT), z3.Implies(r != DOT, cur.prefix_t == PFX(r, it.i))) if isinstance(cur, DictCursor) else False)),
                ("walked-prefixes-are-directories", z3.ForAll([j], z3.Implies(z3.And(r != DOT, 1 <= j, j <= it.i), t.dirs.has(PFX(r, j))))),
                ("leaves-untouched", z3.ForAll([x], z3.And(t.leaf.has(x) == l1.has(x), t.leaf.get_term(x) == l1.get_term(x)))),
                ("directories-kept", z3.ForAll([x], z3.Implies(d1.has(x), t.dirs.has(x)))),
                ("only-walked-prefixes-added-as-directories", z3.ForAll([x], z3.Implies(z3.And(t.dirs.has(x), z3.Not(d1.has(x))), z3.And(r != DOT, z3.Exists([j], z3.And(1 <= j, j <= it.i, x == PFX(r, j))))))),
            ]

        self.loops[0] = LoopSpec(inv_outer, modifies=["path"], havoc_inplace=["ret.ghost_dirs", "ret.ghost_leaf"])
        self.loops[1] = LoopSpec(inv_inner, modifies=["seg", "curr"], havoc_inplace=["ret.ghost_dirs", "ret.ghost_leaf"])

    def setup(self, cx):
        entries = SSet.fresh(STR, "listed_entries")
        a = A(dir=DirPath(z3.String("dir"), entries), alg=SStr(z3.String("alg")))
        a.entries, a.trie, a.nav, a.outer, a.root, a.snap = entries, Trie(), None, None, None, None
        cx.ghost["dh"] = a
        for ax in path_axioms(entries):
            cx.assume(ax)
        return a

    raises_exact = False

    def raises(self, cx, a):
        p = z3.String(fresh_name("rp"))
        return {"ValueError": z3.Or(z3.Exists([p], z3.And(a.entries.has(p), IS_SYM(p), OUTSIDE(p))), z3.Not(hashing.alg_supported(cx, a.alg.t)))}

    def ensures(self, cx, a, res):
        t = a.trie
        alg = a.alg.t
        p, x = z3.String(fresh_name("ep")), z3.String(fresh_name("ex"))
        leaflike = lambda q: z3.Or(isfile(q), IS_SYM(q))  # noqa: E731
        return [
            ("returns-the-tree", z3.BoolVal(res is a.root and a.root is not None), "the nested dict built is returned"),
            ("every-file-by-the-digest-of-its-bytes", z3.ForAll([p], z3.Implies(z3.And(a.entries.has(p), isfile(p)), z3.And(t.leaf.has(REL(p)), t.leaf.get_term(REL(p)) == z3.Concat(alg, z3.StringVal(":"), HEX(alg, DISK(p)))))), "every regular file appears under its relative path with '<alg>:<digest of its bytes>' — nothing else about the file (time stamps, permissions) enters"),
            ("every-symlink-by-its-target", z3.ForAll([p], z3.Implies(z3.And(a.entries.has(p), IS_SYM(p)), z3.And(z3.Not(OUTSIDE(p)), t.leaf.has(REL(p)), t.leaf.get_term(REL(p)) == LINKTXT(TARGET(p))))), "every symlink (to a file or a directory) appears as 'symlink:<target relative to the directory>' and is never hashed as a file; one leading outside never yields a tree"),
            ("every-subdirectory-also-empty-ones", z3.ForAll([p], z3.Implies(z3.And(a.entries.has(p), realdir(p)), t.dirs.has(REL(p)))), "every subdirectory appears as a dict, also when it is empty"),
            ("nothing-else", z3.ForAll([x], z3.And(z3.Implies(t.leaf.has(x), z3.And(a.entries.has(DIR_AT(x)), REL(DIR_AT(x)) == x, leaflike(DIR_AT(x)))), z3.Implies(t.dirs.has(x), z3.And(a.entries.has(DIR_AT(x)), REL(DIR_AT(x)) == x, realdir(DIR_AT(x)))))), "the tree has no other entries: leaves are listed files/links, dicts are listed real directories"),
        ]




def add_dirhash(reg):
    hashing.add_all(reg)
    s = DirHashsums()
    reg.add(s)
    r = RelSymlink()
    reg.add(r)
    return [s, r]


# --- rel_symlink: the link target in terms of the pathlib/os primitives (T2) ----------------------------------------
P_PARENT = z3.Function("pathlib_parent", S, S)
P_JOIN = z3.Function("pathlib_joined_with_text", S, S, S)
P_RESOLVE = z3.Function("pathlib_resolve", S, S)
P_UNDER = z3.Function("pathlib_relative_to_is_defined", S, S, B)  # p.relative_to(b) does not raise ValueError
P_RELTO = z3.Function("pathlib_relative_to", S, S, S)
READLINK = z3.Function("os_readlink", S, S)

T_LINK = [
    "T2 pathlib/os primitives are functions of their arguments and the (unchanged) file system: Path.parent, Path / str, Path.resolve(), os.readlink(str(p)); p.relative_to(b) raises ValueError exactly when p is not below b and otherwise returns the relative path",
    "symlink_target_relative_to_dir(p) and symlink_leads_outside_dir(p) of the dir_hashsums contract are, by definition, this function's result terms for base = the hashed directory",
]


def link_resolved(p_t):
    return P_RESOLVE(P_JOIN(P_PARENT(p_t), READLINK(p_t)))


class LinkPath(PathVal):
    """a pathlib.Path in rel_symlink: every operation is the uninterpreted primitive above"""

    def py_getattr(self, cx, name):
        if name == "parent":
            return LinkPath(P_PARENT(self.t))
        raise Unsupported("Path attribute " + name)

    def py_truediv(self, cx, o):
        if not isinstance(o, SStr):
            raise Unsupported("Path / non-text")
        return LinkPath(P_JOIN(self.t, o.t))

    def meth_resolve(self, cx):
        return LinkPath(P_RESOLVE(self.t))

    def meth_relative_to(self, cx, base):
        if not isinstance(base, LinkPath):
            raise Unsupported("relative_to a non-path")
        if not cx.decide(P_UNDER(self.t, base.t)):
            cx.py_raise("ValueError", "not in the subpath")
        return LinkPath(P_RELTO(self.t, base.t))


class OsMod(SVal):
    def meth_readlink(self, cx, p):
        if not isinstance(p, SStr):
            raise Unsupported("os.readlink of a non-str")
        return SStr(READLINK(p.t))


class RelSymlink(FnSpec):
    file = "util/hashsums.py"
    qual = "rel_symlink"
    props = ("C19", "C18")

    def init(self):
        self.bindings["os"] = OsMod()

    def setup(self, cx):
        return A(base=LinkPath(z3.String("base")), dir=LinkPath(z3.String("link")))

    def raises(self, cx, a):
        return {}

    def ensures(self, cx, a, res):
        x, b = link_resolved(a.dir.t), P_RESOLVE(a.base.t)
        is_none = res is None or (isinstance(res, SVal) and not isinstance(res, LinkPath) and res.py_is_none(cx) is True)
        return [
            ("none-iff-target-outside-the-resolved-base", z3.BoolVal(is_none) == z3.Not(P_UNDER(x, b)), "None is returned exactly when the resolved target (link's directory joined with the link text, resolved) is not below the resolved base directory, so in-directory links never count as outside and outside links never get a text"),
            ("target-relative-to-the-resolved-base", z3.BoolVal(True) if is_none else (z3.BoolVal(isinstance(res, LinkPath)) if not isinstance(res, LinkPath) else res.t == P_RELTO(x, b)), "otherwise the result is the resolved target relative to the resolved base: a function of the link text and the directory structure only (no '..', no absolute prefix, no dependence on how the directory itself was reached)"),
        ]
