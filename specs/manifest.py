"""Contracts for ih5/manifest.py (IH5MFRecord.commit_patch, merge_files, create_stub) — C10, C02, C05."""
from __future__ import annotations

import z3

from pyvc.api import A, FnSpec
from pyvc.containers import BOOL, STR, ClassDecl, SMap, SObj, SRef, SSeq, TRef
from pyvc.engine import KwDict, SClass
from pyvc.values import SBool, SMaybe, SStr, SVal, Unsupported, as_bool, fresh_name

from . import hashing, record
from .common_io import BytesVal, PathVal, path_term
from .record import ALLOC0, Ref, ub_copy

# manifest extension of a user block (stored inside ub_exts["ih5mf_v01"]) as ghost fields of the user block
d = ClassDecl.get("IH5UserBlock")
d.fields.update({"ext_present": BOOL, "ext_uuid": STR, "ext_hash": STR, "ext_stub": BOOL})

Exts = z3.DeclareSort("ManifestExts")
S = z3.StringSort()
MFBYTES = z3.Function("manifest_bytes", S, Exts, S)  # bytes(manifest) as a function of its uuid and extensions (skeleton/user-block part fixed per commit)
MFPATH = z3.Function("manifest_path_of", S, S)
EMPTY_EXTS = z3.Const("empty_extensions", Exts)

T5_MF = "T5 pydantic: bytes(manifest) is a function of its field values (here: uuid and extensions; skeleton and user block are fixed within one commit)"


class ExtsVal(SVal):
    def __init__(self, t):
        self.t = t

    def py_is_none(self, cx):
        return False

    def py_truth(self, cx):
        return self.t != EMPTY_EXTS  # an empty dict is falsy


class ManifestObj(SObj):
    def py_setattr(self, cx, name, val):
        if isinstance(val, SMaybe):
            val = val.resolve(cx)  # None / payload
        if name == "manifest_exts":
            if isinstance(val, dict) and not val:
                val = ExtsVal(EMPTY_EXTS)
            if not isinstance(val, ExtsVal):
                raise Unsupported(f"manifest_exts assigned a value this spec cannot interpret: {val!r}")
        SObj.py_setattr(self, cx, name, val)


def mf_bytes(cx, mf):
    return BytesVal(MFBYTES(mf.fields["manifest_uuid"].t, mf.fields["manifest_exts"].t))


class ExtObj(SVal):
    def __init__(self, is_stub, uuid, hs):
        self.is_stub, self.uuid, self.hs = is_stub, uuid, hs

    def meth_update(self, cx, ub):
        ub.py_setattr(cx, "ext_present", True)
        ub.py_setattr(cx, "ext_uuid", self.uuid)
        ub.py_setattr(cx, "ext_hash", self.hs)
        ub.py_setattr(cx, "ext_stub", self.is_stub)


def mfrec(cx):
    r = record.rec_obj(cx, cls="IH5MFRecord")
    has_mf = z3.Bool("record_has_manifest")
    old = ManifestObj("IH5Manifest", name="old_manifest")
    old.fields["manifest_uuid"] = SStr(z3.String("old_manifest_uuid"))
    old.fields["manifest_exts"] = ExtsVal(z3.Const("old_exts", Exts))
    r.fields["_manifest"] = SMaybe(z3.Not(has_mf), old)
    r.has_mf, r.old_mf = has_mf, old
    r.super_refuses = z3.Bool("base_commit_refuses")
    return r


class MFCommit(FnSpec):
    file = "ih5/manifest.py"
    qual = "IH5MFRecord.commit_patch"
    props = ("C10", "C02")
    raises_exact = False

    def init(self):
        self.inline |= {"IH5Record._ublock", "IH5Record._set_ublock", "IH5MFRecord.manifest"}
        self.bindings["IH5UBExtManifest"] = lambda cx, is_stub_container=False, manifest_uuid=None, manifest_hashsum=None: ExtObj(is_stub_container, manifest_uuid, manifest_hashsum)
        self.bindings["bytes"] = mf_bytes
        self.bindings["h5py"] = record.H5pyModule()
        self.bindings["Path"] = record.path_ctor

    def setup(self, cx):
        r = mfrec(cx)
        exts_given = z3.Bool("exts_argument_given")
        kw = {"manifest_exts": SMaybe(z3.Not(exts_given), ExtsVal(z3.Const("given_exts", Exts)))}
        a = A(self=r, __kwargs__=kw, kw=kw, exts_given=exts_given)
        a.old_ublocks = r.fields["_ublocks"].snapshot()
        a.old_files = record.files_of(r).snapshot()
        return a

    def requires(self, cx, a):
        k = z3.String(fresh_name("al_k"))
        um = a.self.fields["_ublocks"]
        return [("RecInv", record.rec_inv(cx, a.self, "pre")), ("has-files", record.files_of(a.self).n > 0), ("userblocks-exist-at-entry", z3.ForAll([k], z3.Implies(um.has(k), ALLOC0(um.get_term(k)))))]

    def raises(self, cx, a):
        return {"ValueError": a.self.super_refuses}

    def on_raise(self, cx, a, exc):
        r = a.self
        mfw = [e for e in cx.fx if e[0] == "mfwrite"]
        cur = r.fields["_manifest"]
        return [
            ("refused-commit-writes-no-manifest", z3.BoolVal(not mfw), "a refused commit changes no manifest sidecar"),
            ("user-block-restored", r.fields["_ublocks"].same(cx, a.old_ublocks), "a refused commit leaves the record's user blocks as they were"),
            ("manifest-object-unchanged", z3.BoolVal(isinstance(cur, SMaybe) and cur.val is r.old_mf), "a refused commit keeps the old manifest"),
        ]

    def ensures(self, cx, a, res):
        r = a.self
        n = a.old_files.n
        last = SRef("H5File", a.old_files.at_term(n - 1)).py_getattr(cx, "filename").t
        mf = r.fields["_manifest"]
        out = [("base-commit-succeeded", z3.Not(r.super_refuses), "the manifest is only replaced after the container commit succeeded")]
        if not isinstance(mf, ManifestObj):
            return out + [("new-manifest-installed", z3.BoolVal(False), "a fresh manifest describes the new commit")]
        ex = mf.fields["manifest_exts"].t
        given = a.kw["manifest_exts"]
        want = z3.If(a.exts_given, given.val.t, z3.If(r.has_mf, r.old_mf.fields["manifest_exts"].t, EMPTY_EXTS))
        out.append(("extensions-persist-until-overridden", ex == want, "manifest extensions are the ones passed with this commit (whatever they are, including empty), else the previous manifest's"))
        fx = cx.fx
        kinds = [e[0] for e in fx]
        out.append(("manifest-written-last", z3.BoolVal(kinds == ["base-commit", "mfwrite"]), "container first (close, hash, user block), manifest file afterwards"))
        if kinds == ["base-commit", "mfwrite"]:
            out.append(("manifest-file-of-the-new-container", fx[1][1] == MFPATH(last), "the manifest is written next to the newly committed container"))
            out.append(("written-bytes-are-the-hashed-bytes", fx[1][2] == MFBYTES(mf.fields["manifest_uuid"].t, ex), "the bytes written to the manifest file are the bytes whose hash was put into the user block"))
        ub, _ = record.ub_ref_at(cx, r, n - 1)
        g = lambda f: ub.py_getattr(cx, f)  # noqa: E731
        alg = z3.StringVal(hashing.def_alg(cx))
        out.append(("user-block-links-this-manifest", z3.And(g("ext_present").t, g("ext_uuid").t == mf.fields["manifest_uuid"].t, g("ext_hash").t == z3.Concat(alg, z3.StringVal(":"), hashing.HEX(alg, MFBYTES(mf.fields["manifest_uuid"].t, ex)))), "after every commit the manifest on disk matches the hash and UUID recorded in its container"))
        return out


def add_manifest(reg):
    reg.set_class_home("IH5MFRecord", "ih5/manifest.py")
    reg.attr_bindings[("IH5Record", "_files")] = lambda cx, o: record.files_of(o)
    reg.attr_bindings[("IH5MFRecord", "_files")] = lambda cx, o: record.files_of(o)
    reg.method_bindings[("IH5UserBlock", "copy")] = ub_copy

    def fresh_manifest(cx, rec):
        mf = ManifestObj("IH5Manifest", name="fresh_manifest")
        mf.fields["manifest_uuid"] = SStr(z3.String(fresh_name("fresh_manifest_uuid")))
        mf.fields["manifest_exts"] = ExtsVal(EMPTY_EXTS)  # _fresh_manifest passes exts={}
        return mf

    def super_commit(cx, rec, **kw):
        if kw:
            cx.py_raise("ValueError", "unknown kwargs")
        if cx.decide(rec.super_refuses):
            cx.py_raise("ValueError", "refused by IH5Record.commit_patch")
        cx.effect("base-commit")

    def mf_save(cx, mf, path):
        cx.effect("mfwrite", path_term(path), MFBYTES(mf.fields["manifest_uuid"].t, mf.fields["manifest_exts"].t))

    reg.method_bindings[("IH5MFRecord", "_fresh_manifest")] = fresh_manifest
    reg.method_bindings[("IH5MFRecord", "super.commit_patch")] = super_commit
    reg.method_bindings[("IH5Manifest", "save")] = mf_save
    reg.method_bindings[("IH5MFRecord", "_manifest_filepath")] = lambda cx, rec, fn: PathVal(MFPATH(fn.t if isinstance(fn, SStr) else path_term(fn)))
    hashing.add_all(reg)
    specs = [MFCommit()]
    for s in specs:
        reg.add(s)
    return specs
