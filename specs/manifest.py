"""Contracts for ih5/manifest.py (IH5MFRecord.commit_patch, merge_files, create_stub) — C10, C02, C05."""
from __future__ import annotations

import z3

from pyvc.api import A, FnSpec
from pyvc.containers import BOOL, STR, ClassDecl, SMap, SObj, SRef, SSeq, TRef
from pyvc.engine import KwDict, SClass
from pyvc.values import SBool, SMaybe, SStr, SVal, Unsupported, as_bool, fresh_name

from . import hashing, record
from .common_io import DISK, BytesVal, PathVal, path_term
from .record import ALLOC0, Ref, ub_copy

# manifest extension of a user block (stored inside ub_exts["ih5mf_v01"]) as ghost fields of the user block
d = ClassDecl.get("IH5UserBlock")
d.fields.update({"ext_present": BOOL, "ext_uuid": STR, "ext_hash": STR, "ext_stub": BOOL})

Exts = z3.DeclareSort("ManifestExts")
S = z3.StringSort()
MFBYTES = z3.Function("manifest_bytes", S, Exts, S)  # bytes(manifest) as a function of its uuid and extensions (skeleton/user-block part fixed per commit)
MFPATH = z3.Function("manifest_path_of", S, S)
EMPTY_EXTS = z3.Const("empty_extensions", Exts)

T5_MF = "T5 pydantic: bytes(manifest) is a function of its field values (here: uuid and extensions; skeleton and user block are fixed within one commit)"


class ExtsVal(SVal):
    def __init__(self, t):
        self.t = t

    def py_is_none(self, cx):
        return False

    def py_truth(self, cx):
        return self.t != EMPTY_EXTS  # an empty dict is falsy


class ManifestObj(SObj):
    def py_setattr(self, cx, name, val):
        if isinstance(val, SMaybe):
            val = val.resolve(cx)  # None / payload
        if name == "manifest_exts":
            if isinstance(val, dict) and not val:
                val = ExtsVal(EMPTY_EXTS)
            if not isinstance(val, ExtsVal):
                raise Unsupported(f"manifest_exts assigned a value this spec cannot interpret: {val!r}")
        SObj.py_setattr(self, cx, name, val)


def mf_bytes(cx, mf):
    return BytesVal(MFBYTES(mf.fields["manifest_uuid"].t, mf.fields["manifest_exts"].t))


class ExtObj(SVal):
    def __init__(self, is_stub, uuid, hs):
        self.is_stub, self.uuid, self.hs = is_stub, uuid, hs

    def py_getattr(self, cx, name):
        return {"is_stub_container": self.is_stub, "manifest_uuid": self.uuid, "manifest_hashsum": self.hs}[name]

    def py_is_none(self, cx):
        return False

    def py_truth(self, cx):
        return True

    def meth_update(self, cx, ub):
        ub.py_setattr(cx, "ext_present", True)
        ub.py_setattr(cx, "ext_uuid", self.uuid)
        ub.py_setattr(cx, "ext_hash", self.hs)
        ub.py_setattr(cx, "ext_stub", self.is_stub)


def mfrec(cx):
    r = record.rec_obj(cx, cls="IH5MFRecord")
    has_mf = z3.Bool("record_has_manifest")
    old = ManifestObj("IH5Manifest", name="old_manifest")
    old.fields["manifest_uuid"] = SStr(z3.String("old_manifest_uuid"))
    old.fields["manifest_exts"] = ExtsVal(z3.Const("old_exts", Exts))
    r.fields["_manifest"] = SMaybe(z3.Not(has_mf), old)
    r.has_mf, r.old_mf = has_mf, old
    r.super_refuses = z3.Bool("base_commit_refuses")
    return r


class MFCommit(FnSpec):
    file = "ih5/manifest.py"
    qual = "IH5MFRecord.commit_patch"
    props = ("C10", "C02")
    raises_exact = False

    def init(self):
        self.inline |= {"IH5Record._ublock", "IH5Record._set_ublock", "IH5MFRecord.manifest"}
        self.bindings["IH5UBExtManifest"] = lambda cx, is_stub_container=False, manifest_uuid=None, manifest_hashsum=None: ExtObj(is_stub_container, manifest_uuid, manifest_hashsum)
        self.bindings["bytes"] = mf_bytes
        self.bindings["h5py"] = record.H5pyModule()
        self.bindings["Path"] = record.path_ctor

    def setup(self, cx):
        r = mfrec(cx)
        exts_given = z3.Bool("exts_argument_given")
        kw = {"manifest_exts": SMaybe(z3.Not(exts_given), ExtsVal(z3.Const("given_exts", Exts)))}
        a = A(self=r, __kwargs__=kw, kw=kw, exts_given=exts_given)
        a.old_ublocks = r.fields["_ublocks"].snapshot()
        a.old_files = record.files_of(r).snapshot()
        return a

    def requires(self, cx, a):
        k = z3.String(fresh_name("al_k"))
        um = a.self.fields["_ublocks"]
        return [("RecInv", record.rec_inv(cx, a.self, "pre")), ("has-files", record.files_of(a.self).n > 0), ("userblocks-exist-at-entry", z3.ForAll([k], z3.Implies(um.has(k), ALLOC0(um.get_term(k)))))]

    def raises(self, cx, a):
        return {"ValueError": a.self.super_refuses}

    def on_raise(self, cx, a, exc):
        r = a.self
        mfw = [e for e in cx.fx if e[0] == "mfwrite"]
        cur = r.fields["_manifest"]
        return [
            ("refused-commit-writes-no-manifest", z3.BoolVal(not mfw), "a refused commit changes no manifest sidecar"),
            ("user-block-restored", r.fields["_ublocks"].same(cx, a.old_ublocks), "a refused commit leaves the record's user blocks as they were"),
            ("manifest-object-unchanged", z3.BoolVal(isinstance(cur, SMaybe) and cur.val is r.old_mf), "a refused commit keeps the old manifest"),
        ]

    def ensures(self, cx, a, res):
        r = a.self
        n = a.old_files.n
        last = SRef("H5File", a.old_files.at_term(n - 1)).py_getattr(cx, "filename").t
        mf = r.fields["_manifest"]
        out = [("base-commit-succeeded", z3.Not(r.super_refuses), "the manifest is only replaced after the container commit succeeded")]
        if not isinstance(mf, ManifestObj):
            return out + [("new-manifest-installed", z3.BoolVal(False), "a fresh manifest describes the new commit")]
        ex = mf.fields["manifest_exts"].t
        given = a.kw["manifest_exts"]
        want = z3.If(a.exts_given, given.val.t, z3.If(r.has_mf, r.old_mf.fields["manifest_exts"].t, EMPTY_EXTS))
        out.append(("extensions-persist-until-overridden", ex == want, "manifest extensions are the ones passed with this commit (whatever they are, including empty), else the previous manifest's"))
        fx = cx.fx
        kinds = [e[0] for e in fx]
        out.append(("manifest-written-last", z3.BoolVal(kinds == ["base-commit", "mfwrite"]), "container first (close, hash, user block), manifest file afterwards"))
        if kinds == ["base-commit", "mfwrite"]:
            out.append(("manifest-file-of-the-new-container", fx[1][1] == MFPATH(last), "the manifest is written next to the newly committed container"))
            out.append(("written-bytes-are-the-hashed-bytes", fx[1][2] == MFBYTES(mf.fields["manifest_uuid"].t, ex), "the bytes written to the manifest file are the bytes whose hash was put into the user block"))
        ub, _ = record.ub_ref_at(cx, r, n - 1)
        g = lambda f: ub.py_getattr(cx, f)  # noqa: E731
        alg = z3.StringVal(hashing.def_alg(cx))
        out.append(("user-block-links-this-manifest", z3.And(g("ext_present").t, g("ext_uuid").t == mf.fields["manifest_uuid"].t, g("ext_hash").t == z3.Concat(alg, z3.StringVal(":"), hashing.HEX(alg, MFBYTES(mf.fields["manifest_uuid"].t, ex)))), "after every commit the manifest on disk matches the hash and UUID recorded in its container"))
        return out


# ---- IH5MFRecord._open: the manifest clause of C04 ----------------------------------------------------

IS_FILE = z3.Function("is_regular_file", S, z3.BoolSort())
SUPER_REJECTS = z3.Bool("IH5Record_open_rejects_the_file_set")


class MFPath(PathVal):
    def meth_is_file(self, cx):
        return SBool(IS_FILE(self.t))


class ExtClass(SVal):
    """IH5UBExtManifest as far as _open / _check_ublock / merge use it: get(ub) reads the extension section of the user block"""

    def meth_get(self, cx, ub):
        if getattr(cx, "elem", None) is not None:
            return ExtOpt(ub)  # generic element of a quantified predicate: no forks
        if cx.decide(ub.py_getattr(cx, "ext_present").t):
            return ExtObj(ub.py_getattr(cx, "ext_stub"), ub.py_getattr(cx, "ext_uuid"), ub.py_getattr(cx, "ext_hash"))
        return None

    def meth_ext_name(self, cx):
        return "ih5mf_v01"

    def py_call(self, cx, *a, **kw):
        return ExtObj(kw.get("is_stub_container", False), kw.get("manifest_uuid"), kw.get("manifest_hashsum"))


class ExtOpt(SVal):
    """Optional[IH5UBExtManifest] read from a user block, usable inside quantified predicates (no forks)"""

    def __init__(self, ub):
        self.ub = ub

    def py_is_none(self, cx):
        return z3.Not(self.ub.py_getattr(cx, "ext_present").t)

    def py_truth(self, cx):
        return self.ub.py_getattr(cx, "ext_present").t

    def py_getattr(self, cx, name):
        cx.decide_or_fail(self.ub.py_getattr(cx, "ext_present").t, "AttributeError", "None has no attributes")
        return self.ub.py_getattr(cx, {"is_stub_container": "ext_stub", "manifest_uuid": "ext_uuid", "manifest_hashsum": "ext_hash"}[name])


class ManifestClass(SVal):
    def meth_parse_file(self, cx, path):
        cx.effect("mf-parse", path_term(path))
        mf = ManifestObj("IH5Manifest", name="parsed_manifest")
        mf.fields["manifest_uuid"] = SStr(z3.String(fresh_name("parsed_manifest_uuid")))
        mf.fields["manifest_exts"] = ExtsVal(z3.Const(fresh_name("parsed_exts"), Exts))
        mf.parsed_from = path_term(path)
        mf.fields["user_block"] = SRef.fresh("IH5UserBlock", "manifest_user_block")
        cx.assume(z3.Not(ALLOC0(mf.fields["user_block"].t)))  # parsed just now: a new object
        cx.ghost.setdefault("fresh_ubs", []).append(mf.fields["user_block"])
        mf.fields["skeleton"] = SVal()
        cx.ghost["parsed_manifest"] = mf
        return mf


def super_open(cx, clsobj, paths, **kw):
    if "manifest_file" in kw:
        raise Unsupported("manifest_file must not reach IH5Record._open")
    cx.effect("super-open", paths)
    if cx.decide(SUPER_REJECTS):
        cx.py_raise("ValueError", "rejected by IH5Record._open")
    r = record.rec_obj(cx, "ret", "IH5MFRecord")
    cx.assume(record.files_of(r).n > 0)  # an opened record has at least one container (C04 contract of IH5Record._open)
    cx.assume(record.rec_inv(cx, r, "opened"))
    r.fields["_manifest"] = None  # class default
    cx.ghost["opened"] = r
    return r


class MFOpen(FnSpec):
    file = "ih5/manifest.py"
    qual = "IH5MFRecord._open"
    props = ("C04", "C10")

    def init(self):
        self.inline |= {"IH5Record._ublock"}
        self.bindings["IH5UBExtManifest"] = ExtClass()
        self.bindings["IH5Manifest"] = ManifestClass()
        self.bindings["bytes"] = mf_bytes
        self.bindings["h5py"] = record.H5pyModule()
        self.bindings["Path"] = record.path_ctor

    def setup(self, cx):
        given = cx.choose(2) == 1
        kw = {"manifest_file": MFPath(z3.String("given_manifest_file"))} if given else {}
        paths = SVal()
        a = A(cls=SClass("IH5MFRecord"), paths=paths, __kwargs__=kw, given=given)
        return a

    def _cond(self, cx, a):
        """(extension present, manifest path, manifest acceptable) for the newest container of the opened record"""
        r = cx.ghost.get("opened")
        if r is None:
            return None
        n = record.files_of(r).n
        ub, fn = record.ub_ref_at(cx, r, n - 1)
        g = lambda f: ub.py_getattr(cx, f)  # noqa: E731
        mfp = z3.String("given_manifest_file") if a.given else MFPATH(fn)
        alg = z3.StringVal(hashing.def_alg(cx))
        good = z3.And(IS_FILE(mfp), g("ext_hash").t == z3.Concat(alg, z3.StringVal(":"), hashing.HEX(alg, DISK(mfp))))
        return g("ext_present").t, mfp, good

    def raises(self, cx, a):
        # the exact condition is phrased over the record IH5Record._open returns (ghost state): see on_raise / ensures
        return {"ValueError": z3.BoolVal(True)}

    raises_exact = False

    def on_raise(self, cx, a, exc):
        c = self._cond(cx, a)
        if exc.cls != "ValueError":
            return [("only-ValueError", z3.BoolVal(False), "a file set that is not a valid record is refused with ValueError")]
        writes = [e for e in cx.fx if e[0] in record.WRITE_KINDS]
        why = SUPER_REJECTS if c is None else z3.And(c[0], z3.Not(c[2]))
        return [
            ("refusal-justified", why, "opening fails only if the containers are not a valid chain, or the newest container names a manifest that is missing or whose bytes do not hash to the recorded value"),
            ("opening-writes-nothing", z3.BoolVal(not writes), "opening never alters files"),
        ]

    def ensures(self, cx, a, res):
        c = self._cond(cx, a)
        r = cx.ghost.get("opened")
        if c is None or res is not r:
            return [("returns-the-opened-record", z3.BoolVal(False), "the record opened by IH5Record._open is returned")]
        present, mfp, good = c
        mf = r.fields.get("_manifest")
        parses = [e for e in cx.fx if e[0] == "mf-parse"]
        writes = [e for e in cx.fx if e[0] in record.WRITE_KINDS]
        loaded = isinstance(mf, ManifestObj) and len(parses) == 1
        return [
            ("containers-accepted-by-IH5Record-open", z3.Not(SUPER_REJECTS), "the container chain itself passed all C04 checks"),
            ("linked-manifest-exists-and-matches-its-hash", z3.Implies(present, good), "a manifest that is missing or edited (any byte) makes opening fail"),
            ("manifest-loaded-iff-linked", z3.BoolVal(loaded) == present, "the manifest of the newest container is loaded exactly when the container links one"),
            ("loaded-manifest-is-the-checked-file", (parses[0][1] == mfp) if loaded else z3.Not(present), "the manifest parsed is the file whose hash was checked"),
            ("opening-writes-nothing", z3.BoolVal(not writes), "opening never alters files"),
        ]


class MFCheckUblock(FnSpec):
    file = "ih5/manifest.py"
    qual = "IH5MFRecord._check_ublock"
    props = ("C04", "C10")

    def init(self):
        self.bindings["IH5UBExtManifest"] = ExtClass()

    def setup(self, cx):
        r = record.rec_obj(cx, "self", "IH5MFRecord")
        ub = SRef.fresh("IH5UserBlock", "ub")
        has_prev = z3.Bool("has_prev")
        prev = SMaybe(z3.Not(has_prev), SRef.fresh("IH5UserBlock", "prev"))
        return A(self=r, filename=PathVal(z3.String("filename")), ub=ub, prev=prev, check_hashsum=SBool(z3.Bool("check_hashsum")), has_prev=has_prev)

    def raises(self, cx, a):
        g = lambda f: a.ub.py_getattr(cx, f).t  # noqa: E731
        return {"ValueError": SUPER_CHECK_REJECTS, "AssertionError": z3.And(z3.Not(SUPER_CHECK_REJECTS), a.has_prev, g("ext_present"), g("ext_stub"))}

    def ensures(self, cx, a, res):
        calls = [e for e in cx.fx if e[0] == "super-check"]
        ok = len(calls) == 1 and calls[0][1] is a.filename and calls[0][2] is a.ub and calls[0][3] is a.prev and calls[0][4] is a.check_hashsum
        g = lambda f: a.ub.py_getattr(cx, f).t  # noqa: E731
        return [
            ("all-record-level-checks-applied", z3.BoolVal(ok), "every check of IH5Record._check_ublock applies, with the same arguments"),
            ("stub-only-as-base", z3.Not(z3.And(a.has_prev, g("ext_present"), g("ext_stub"))), "only the base container of a chain may be a stub"),
        ]


SUPER_CHECK_REJECTS = z3.Bool("IH5Record_check_ublock_rejects")


def super_check(cx, rec, filename, ub, prev=None, check_hashsum=True):
    cx.effect("super-check", filename, ub, prev, check_hashsum)
    if cx.decide(SUPER_CHECK_REJECTS):
        cx.py_raise("ValueError", "rejected by IH5Record._check_ublock")


class MFMerge(FnSpec):
    file = "ih5/manifest.py"
    qual = "IH5MFRecord.merge_files"
    props = ("C10", "C05")

    def init(self):
        self.bindings["IH5UBExtManifest"] = ExtClass()

    def setup(self, cx):
        r = record.rec_obj(cx, "self", "IH5MFRecord")
        return A(self=r, target=PathVal(z3.String("target")))

    def requires(self, cx, a):
        return [("RecInv", record.rec_inv(cx, a.self, "pre"))]

    def _has_stub(self, cx, a):
        j = z3.Int(fresh_name("sj"))
        ub, _ = record.ub_ref_at(cx, a.self, j)
        return z3.Exists([j], z3.And(0 <= j, j < record.files_of(a.self).n, ub.py_getattr(cx, "ext_present").t, ub.py_getattr(cx, "ext_stub").t))

    def raises(self, cx, a):
        return {"ValueError": z3.Or(self._has_stub(cx, a), SUPER_MERGE_REFUSES)}

    def on_raise(self, cx, a, exc):
        calls = [e for e in cx.fx if e[0] == "super-merge"]
        return [("stub-refused-before-anything-happens", z3.Implies(self._has_stub(cx, a), z3.BoolVal(not calls)), "a record containing a stub cannot be merged: nothing is created")]

    def ensures(self, cx, a, res):
        calls = [e for e in cx.fx if e[0] == "super-merge"]
        return [
            ("no-stub-in-the-chain", z3.Not(self._has_stub(cx, a)), "a stub cannot be merged"),
            ("merge-is-the-record-level-merge", z3.BoolVal(len(calls) == 1 and calls[0][1] is a.target and res == "merged-path"), "otherwise the merge is IH5Record.merge_files (C05 contract) for the same target, and its result is returned"),
        ]


SUPER_MERGE_REFUSES = z3.Bool("IH5Record_merge_refuses")


def super_merge(cx, rec, target):
    cx.effect("super-merge", target)
    if cx.decide(SUPER_MERGE_REFUSES):
        cx.py_raise("ValueError", "refused by IH5Record.merge_files")
    return "merged-path"


def ih5_meta_of(cx, rec):
    """rec.ih5_meta: the user blocks in container order (copies; only read here)"""
    L = record.files_of(rec)
    j = z3.Int(fresh_name("mj"))
    ub, _ = record.ub_ref_at(cx, rec, j)
    out = SSeq.fresh(TRef("IH5UserBlock"), "ih5_meta")
    cx.assume(z3.And(out.n == L.n, z3.ForAll([j], z3.Implies(z3.And(0 <= j, j < L.n), out.at_term(j) == ub.t))))
    return out


class CreateStub(FnSpec):
    file = "ih5/manifest.py"
    qual = "IH5MFRecord.create_stub"
    props = ("C10",)

    def init(self):
        self.bindings["IH5UBExtManifest"] = ExtClass()
        self.bindings["IH5Manifest"] = ManifestClass()
        self.bindings["Path"] = record.path_ctor
        self.bindings["init_stub_base"] = lambda cx, ds, ub, skel: cx.effect("init-stub-base", ds, ub, skel)
        self.bindings["IH5MFRecord"] = SClass("IH5MFRecord")

    def setup(self, cx):
        return A(cls=SClass("IH5MFRecord"), record=PathVal(z3.String("stub_record_path")), manifest_file=MFPath(z3.String("manifest_file")))

    def ensures(self, cx, a, res):
        fx = cx.fx
        kinds = [e[0] for e in fx]
        want = ["mf-parse", "open-read", "stub-create", "init-stub-base", "stub-commit"]
        if kinds != want:
            return [("protocol", z3.BoolVal(False), "parse the manifest, hash it, create the container, initialise structure and user block, commit as stub")]
        parse, hread, create, init, commit = fx
        mf = cx.ghost["parsed_manifest"]
        ds = create[2]
        ub = init[2]
        g = lambda f: ub.py_getattr(cx, f)  # noqa: E731
        src = mf.fields["user_block"]
        alg = z3.StringVal(hashing.def_alg(cx))
        same_fields = z3.And(*[as_bool(cx, V_eq(cx, g(f), src.py_getattr(cx, f))) for f in ("record_uuid", "patch_uuid", "patch_index", "hdf5_hashsum")])
        return [
            ("manifest-read-from-the-given-file", z3.And(parse[1] == a.manifest_file.t, hread[1] == a.manifest_file.t), "the stub is built from the given manifest file"),
            ("container-created-at-the-given-path", create[1] == a.record.t, "a new record is created at the given path"),
            ("existing-files-never-truncated", z3.BoolVal(create[3] is False), "the stub is created exclusively: existing containers of that name are never deleted to make room (IH5Record._create without truncate raises if the record exists)"),
            ("structure-from-the-manifest-skeleton", z3.BoolVal(init[1] is ds and init[3] is mf.fields["skeleton"]), "the stub gets the skeleton stored in the manifest"),
            ("user-block-is-a-copy-of-the-real-one", z3.And(z3.BoolVal(ub is not src), ub.t != src.t, same_fields), "the stub carries the real newest container's identity (record uuid, patch uuid, patch index, hash) on a copy of the user block"),
            ("marked-as-stub-linked-to-this-manifest", z3.And(g("ext_present").t, g("ext_stub").t, g("ext_uuid").t == mf.fields["manifest_uuid"].t, g("ext_hash").t == z3.Concat(alg, z3.StringVal(":"), hashing.HEX(alg, DISK(a.manifest_file.t)))), "the stub is marked as stub and links the manifest by uuid and by the hash of the manifest file's bytes"),
            ("committed-as-stub-with-the-manifests-extensions", z3.BoolVal(commit[1] is ds and commit[2] is True and commit[3] is mf.fields["manifest_exts"]), "manifest extensions persist into the stub's own manifest"),
            ("returns-the-committed-stub", z3.BoolVal(res is ds), "the read-only stub record is returned"),
        ]


def V_eq(cx, x, y):
    from pyvc.values import v_eq

    return v_eq(cx, x, y)


def stub_create(cx, clsobj, path, truncate=False, **kw):
    if kw:
        raise Unsupported(f"_create called with {sorted(kw)}")
    ds = record.rec_obj(cx, "stub", "IH5MFRecord")
    ds.committed = False
    cx.effect("stub-create", path_term(path), ds, truncate)
    return ds


def stub_ctor(cx, path, mode="r", **kw):
    """`IH5MFRecord(path, mode)` / `cls(path, mode)` by the mode table of IH5Record.__init__ (InitModes, C03: create-only-when-asked,
    only-w-replaces): 'w' is `_create(path, truncate=True)`, 'x' / 'w-' are `_create(path, truncate=False)`."""
    m = mode
    if isinstance(m, SVal) and hasattr(m, "t") and z3.is_string_value(z3.simplify(m.t)):
        m = z3.simplify(m.t).as_string()
    if kw or not isinstance(m, str) or m not in ("w", "x", "w-"):
        raise Unsupported(f"IH5MFRecord constructor with mode {mode!r}")
    return stub_create(cx, None, path, truncate=(m == "w"))


def stub_commit(cx, ds, **kw):
    extra = set(kw) - {"__is_stub__", "manifest_exts"}
    if extra:
        raise Unsupported(f"commit_patch called with {extra}")
    cx.effect("stub-commit", ds, kw.get("__is_stub__", False), kw.get("manifest_exts"))
    ds.committed = True


class FixesAfterMerge(FnSpec):
    file = "ih5/manifest.py"
    qual = "IH5MFRecord._fixes_after_merge"
    props = ("C05", "C10")

    def init(self):
        self.bindings["IH5UBExtManifest"] = ExtClass()
        self.inline |= {"IH5MFRecord.manifest"}

    def setup(self, cx):
        r = mfrec(cx)
        ub = SRef.fresh("IH5UserBlock", "merged_ub")
        return A(self=r, file=PathVal(z3.String("merged_file")), ub=ub)

    def raises(self, cx, a):
        g = lambda f: a.ub.py_getattr(cx, f).t  # noqa: E731
        r = a.self
        return {"AssertionError": z3.And(r.has_mf, z3.Or(z3.Not(g("ext_present")), g("ext_uuid") != r.old_mf.fields["manifest_uuid"].t))}

    def on_raise(self, cx, a, exc):
        return [("nothing-written", z3.BoolVal(not [e for e in cx.fx if e[0] == "mfwrite"]), "an inconsistent merged user block writes no manifest")]

    def ensures(self, cx, a, res):
        r = a.self
        w = [e for e in cx.fx if e[0] == "mfwrite"]
        other = [e for e in cx.fx if e[0] in record.WRITE_KINDS and e[0] != "mfwrite"]
        ok = len(w) == 1
        return [
            ("manifest-carried-over-iff-the-source-has-one", z3.BoolVal(ok) == r.has_mf, "the merged container gets a manifest exactly when the source record has one loaded"),
            ("it-is-the-LOADED-manifest-at-the-merged-containers-canonical-place", z3.And(w[0][1] == MFPATH(a.file.t), w[0][2] == MFBYTES(r.old_mf.fields["manifest_uuid"].t, r.old_mf.fields["manifest_exts"].t)) if ok else z3.Not(r.has_mf), "what is written next to the merged container is the manifest object the source record has loaded (wherever its file lives), so the merged record identifies itself exactly as the source"),
            ("nothing-else-written", z3.BoolVal(not other and len(w) <= 1), "no other file is touched"),
        ]


def add_manifest(reg):
    reg.set_class_home("IH5MFRecord", "ih5/manifest.py")
    reg.attr_bindings[("IH5Record", "_files")] = lambda cx, o: record.files_of(o)
    reg.attr_bindings[("IH5MFRecord", "_files")] = lambda cx, o: record.files_of(o)
    reg.method_bindings[("IH5UserBlock", "copy")] = ub_copy

    def fresh_manifest(cx, rec):
        mf = ManifestObj("IH5Manifest", name="fresh_manifest")
        mf.fields["manifest_uuid"] = SStr(z3.String(fresh_name("fresh_manifest_uuid")))
        mf.fields["manifest_exts"] = ExtsVal(EMPTY_EXTS)  # _fresh_manifest passes exts={}
        return mf

    def super_commit(cx, rec, **kw):
        if kw:
            cx.py_raise("ValueError", "unknown kwargs")
        if cx.decide(rec.super_refuses):
            cx.py_raise("ValueError", "refused by IH5Record.commit_patch")
        cx.effect("base-commit")

    def mf_save(cx, mf, path):
        cx.effect("mfwrite", path_term(path), MFBYTES(mf.fields["manifest_uuid"].t, mf.fields["manifest_exts"].t))

    reg.method_bindings[("IH5MFRecord", "_fresh_manifest")] = fresh_manifest
    reg.method_bindings[("IH5MFRecord", "super.commit_patch")] = super_commit
    reg.method_bindings[("IH5Manifest", "save")] = mf_save
    reg.method_bindings[("IH5MFRecord", "_manifest_filepath")] = lambda cx, rec, fn: MFPath(MFPATH(fn.t if isinstance(fn, SStr) else path_term(fn)))
    hashing.add_all(reg)
    reg.method_bindings[("IH5MFRecord", "super._open")] = super_open
    reg.method_bindings[("IH5MFRecord", "super._check_ublock")] = super_check
    reg.method_bindings[("IH5MFRecord", "super.merge_files")] = super_merge
    reg.attr_bindings[("IH5MFRecord", "ih5_meta")] = ih5_meta_of
    reg.method_bindings[("IH5MFRecord", "_create")] = stub_create
    reg.ctors["IH5MFRecord"] = stub_ctor
    reg.method_bindings[("IH5MFRecord", "commit_patch")] = stub_commit
    reg.attr_bindings[("IH5MFRecord", "_has_writable")] = lambda cx, o: SBool(z3.BoolVal(not getattr(o, "committed", False)))
    specs = [MFCommit(), MFOpen(), MFCheckUblock(), MFMerge(), CreateStub(), FixesAfterMerge()]
    for s in specs:
        reg.add(s)
    return specs
