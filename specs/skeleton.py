"""Contract for ih5/skeleton.py init_stub_skeleton / init_stub_base — C10 (the stub exposes the same paths, kinds and attribute names)."""
from __future__ import annotations

import z3

from pyvc.api import A, FnSpec, LoopSpec
from pyvc.containers import INT, STR, ClassDecl, SMap, SObj, SRef, SSet, TRef, TTuple
from pyvc.values import SBool, SInt, SStr, SVal, Unsupported, fresh_name

S, B, I = z3.StringSort(), z3.BoolSort(), z3.IntSort()
Ref = z3.DeclareSort("Ref")
ClassDecl("SkelInfo", {})
NODE_TYPE = z3.Function("skeleton_node_type", Ref, I)  # 1 = group, 2 = dataset
SK_ATTRS = z3.Function("skeleton_attr_names", Ref, z3.ArraySort(S, B))
ANC = z3.Function("path_is_ancestor_or_self", S, S, B)
GROUP, DATASET = z3.IntVal(1), z3.IntVal(2)
PA = TTuple(STR, STR)
ROOT = z3.StringVal("/")

T_SKEL = [
    "T1 write protocol of the empty target record: create_group(k) / ds[k] = value create k (refusing an existing k) and, as plain groups, exactly its missing ancestors; ds[k].attrs[a] = v needs k to exist; nothing else changes",
    "path ancestry is reflexive and transitive, the root is an ancestor of every path",
]


class TypeEnum(SVal):
    def py_getattr(self, cx, name):
        return TypeVal({"group": GROUP, "dataset": DATASET}[name])


class TypeVal(SVal):
    def __init__(self, t):
        self.t = t

    def py_eq(self, cx, o):
        return isinstance(o, TypeVal) and self.t == o.t


class AttrKeys(SVal):
    pass


class InfoAttrs(SVal):
    def __init__(self, info_t):
        self.info_t = info_t

    def meth_keys(self, cx):
        return SSet(STR, SK_ATTRS(self.info_t))


class StubDs(SVal):
    """the fresh target record: ghost tree (path -> kind) and attribute set ((path, name))"""

    def __init__(self):
        self.kind = SMap.fresh(STR, INT, "ds_kind")
        self.attrs = SSet.fresh(PA, "ds_attrs")

    # --- reads
    def py_len(self, cx):
        k = z3.String(fresh_name("lk"))
        n = z3.Int(fresh_name("ds_len"))
        cx.assume(z3.And(n >= 0, (n == 0) == z3.Not(z3.Exists([k], z3.And(self.kind.has(k), k != ROOT)))))
        return SInt(n)

    def py_getattr(self, cx, name):
        if name == "attrs":
            return NodeAttrs(self, ROOT)
        if name == "ghost_kind":
            return self.kind
        if name == "ghost_attrs":
            return self.attrs
        raise Unsupported("record attribute " + name)

    def py_contains(self, cx, k):
        return self.kind.has(k.t)

    def py_getitem(self, cx, k):
        cx.decide_or_fail(self.kind.has(k.t), "KeyError", "no such node")
        return NodeAt(self, k.t)

    # --- writes
    def _create(self, cx, kt, kind):
        cx.decide_or_fail(z3.Not(self.kind.has(kt)), "ValueError", "exists already")
        old = self.kind.snapshot()
        self.kind.havoc_inplace(cx, "ds_kind_n")
        p = z3.String(fresh_name("cp"))
        new = self.kind
        cx.assume(z3.ForAll([p], z3.And(
            z3.Implies(old.has(p), z3.And(new.has(p), new.get_term(p) == old.get_term(p))),
            z3.Implies(z3.And(new.has(p), z3.Not(old.has(p))), z3.And(ANC(p, kt), new.get_term(p) == z3.If(p == kt, kind, GROUP))),
        )))
        cx.assume(z3.And(new.has(kt), new.get_term(kt) == kind))
        cx.note_write(("stub", "kind"), self)

    def meth_create_group(self, cx, k):
        self._create(cx, k.t, GROUP)

    def py_setitem(self, cx, k, v):
        self._create(cx, k.t, DATASET)


class NodeAt(SVal):
    def __init__(self, ds, path_t):
        self.ds, self.path_t = ds, path_t

    def py_getattr(self, cx, name):
        if name == "attrs":
            return NodeAttrs(self.ds, self.path_t)
        raise Unsupported("node attribute " + name)


class NodeAttrs(SVal):
    def __init__(self, ds, path_t):
        self.ds, self.path_t = ds, path_t

    def py_len(self, cx):
        a = z3.String(fresh_name("la"))
        n = z3.Int(fresh_name("attrs_len"))
        cx.assume(z3.And(n >= 0, (n == 0) == z3.Not(z3.Exists([a], self.ds.attrs.has(PA.mk(self.path_t, a))))))
        return SInt(n)

    def py_setitem(self, cx, k, v):
        self.ds.attrs.dom = z3.Store(self.ds.attrs.dom, PA.mk(self.path_t, k.t), z3.BoolVal(True))
        cx.note_write(("stub", "attrs"), self.ds)


class H5Mod(SVal):
    def py_getattr(self, cx, name):
        if name == "Empty":
            return lambda cx2, dt=None: SVal()
        raise Unsupported("h5py." + name)


def skel_ok(ds, skel, k, full_attrs=True):
    """node k of the skeleton is present in the stub with the right kind (and all its attribute names)"""
    info = skel.get_term(k)
    a = z3.String(fresh_name("sa"))
    c = z3.And(ds.kind.has(k), ds.kind.get_term(k) == NODE_TYPE(info))
    if full_attrs:
        c = z3.And(c, z3.ForAll([a], z3.Implies(z3.Select(SK_ATTRS(info), a), ds.attrs.has(PA.mk(k, a)))))
    return c


class InitStubSkeleton(FnSpec):
    file = "ih5/skeleton.py"
    qual = "init_stub_skeleton"
    props = ("C10",)

    def init(self):
        self.bindings["H5Type"] = TypeEnum()
        self.bindings["h5py"] = H5Mod()

        def inv_outer(cx, env, it):
            a = cx.ghost["iss"]
            ds, skel = a.ds, a.skel
            cx.ghost["outer_it"] = it
            k, p, x = z3.String(fresh_name("ok")), z3.String(fresh_name("op")), z3.String(fresh_name("ox"))
            return [
                ("processed-nodes-present-with-kind-and-attributes", z3.ForAll([k], z3.Implies(z3.Select(it.processed, k), skel_ok(ds, skel, k)))),
                ("only-skeleton-nodes-and-their-ancestor-groups", z3.ForAll([p], z3.Implies(ds.kind.has(p), z3.Or(p == ROOT, z3.Exists([k], z3.And(z3.Select(it.processed, k), ANC(p, k))))))),
                ("unprocessed-existing-paths-are-groups", z3.ForAll([p], z3.Implies(z3.And(ds.kind.has(p), z3.Not(z3.Select(it.processed, p))), ds.kind.get_term(p) == GROUP))),
                ("only-skeleton-attributes", z3.ForAll([p, x], z3.Implies(ds.attrs.has(PA.mk(p, x)), z3.And(z3.Select(it.processed, p), z3.Select(SK_ATTRS(skel.get_term(p)), x))))),
            ]

        def inv_inner(cx, env, it):
            a = cx.ghost["iss"]
            ds, skel = a.ds, a.skel
            outer = cx.ghost.get("outer_it")
            kcur = env["k"].t
            p, x = z3.String(fresh_name("ip")), z3.String(fresh_name("ix"))
            k = z3.String(fresh_name("ik"))
            proc = outer.processed if outer is not None else z3.K(S, z3.BoolVal(False))
            return [
                ("current-node-present-with-kind", skel_ok(ds, skel, kcur, full_attrs=False)),
                ("attributes-so-far", z3.ForAll([x], z3.Implies(z3.Select(it.processed, x), ds.attrs.has(PA.mk(kcur, x))))),
                ("earlier-nodes-kept", z3.ForAll([k], z3.Implies(z3.Select(proc, k), skel_ok(ds, skel, k)))),
                ("only-skeleton-nodes-and-their-ancestor-groups", z3.ForAll([p], z3.Implies(ds.kind.has(p), z3.Or(p == ROOT, ANC(p, kcur), z3.Exists([k], z3.And(z3.Select(proc, k), ANC(p, k))))))),
                ("unprocessed-existing-paths-are-groups", z3.ForAll([p], z3.Implies(z3.And(ds.kind.has(p), z3.Not(z3.Select(proc, p)), p != kcur), ds.kind.get_term(p) == GROUP))),
                ("only-skeleton-attributes", z3.ForAll([p, x], z3.Implies(ds.attrs.has(PA.mk(p, x)), z3.Or(z3.And(z3.Select(proc, p), z3.Select(SK_ATTRS(skel.get_term(p)), x)), z3.And(p == kcur, z3.Select(it.processed, x), z3.Select(SK_ATTRS(skel.get_term(kcur)), x)))))),
            ]

        self.loops[0] = LoopSpec(inv_outer, modifies=["k", "v", "a"], havoc_inplace=["ds.ghost_kind", "ds.ghost_attrs"])
        self.loops[1] = LoopSpec(inv_inner, modifies=["a"], havoc_inplace=["ds.ghost_kind", "ds.ghost_attrs"])

    def setup(self, cx):
        x, y, z = z3.Strings("anc_x anc_y anc_z")
        cx.assume(z3.ForAll([x], z3.And(ANC(x, x), ANC(ROOT, x))))
        cx.assume(z3.ForAll([x, y, z], z3.Implies(z3.And(ANC(x, y), ANC(y, z)), ANC(x, z))))
        ds = StubDs()
        skel_map = SMap.fresh(STR, TRef("SkelInfo"), "skeleton")
        skel = SObj("IH5Skeleton", name="skel")
        skel.fields["__root__"] = skel_map
        a = A(ds=ds, skel=skel)
        a.skel_map = skel_map
        g = A(ds=ds, skel=skel_map)
        cx.ghost["iss"] = g
        a.kind0, a.attrs0 = ds.kind.snapshot(), ds.attrs.snapshot()
        return a

    def requires(self, cx, a):
        sk = a.skel_map
        k, k2, p, x = z3.String(fresh_name("rk")), z3.String(fresh_name("rl")), z3.String(fresh_name("rp")), z3.String(fresh_name("rx"))
        ds = a.ds
        return [
            ("target-is-a-record-with-a-root-group", z3.And(ds.kind.has(ROOT), ds.kind.get_term(ROOT) == GROUP)),
            ("skeleton-kinds", z3.ForAll([k], z3.Implies(sk.has(k), z3.Or(NODE_TYPE(sk.get_term(k)) == GROUP, NODE_TYPE(sk.get_term(k)) == DATASET)))),
            ("skeleton-is-a-tree", z3.ForAll([k, k2], z3.Implies(z3.And(sk.has(k2), ANC(k, k2), k != k2), z3.And(z3.Implies(sk.has(k), NODE_TYPE(sk.get_term(k)) == GROUP))))),
            ("skeleton-root-is-a-group", z3.Implies(sk.has(ROOT), NODE_TYPE(sk.get_term(ROOT)) == GROUP)),
            ("attributes-sit-on-existing-nodes", z3.ForAll([p, x], z3.Implies(ds.attrs.has(PA.mk(p, x)), ds.kind.has(p)))),
        ]

    def _nonempty(self, a):
        p, x = z3.String(fresh_name("np")), z3.String(fresh_name("nx"))
        return z3.Or(z3.Exists([p], z3.And(a.kind0.has(p), p != ROOT)), z3.Exists([x], a.attrs0.has(PA.mk(ROOT, x))))

    def raises(self, cx, a):
        return {"ValueError": self._nonempty(a)}

    def ensures(self, cx, a, res):
        ds, sk = a.ds, a.skel_map
        k, p, x = z3.String(fresh_name("ek")), z3.String(fresh_name("ep")), z3.String(fresh_name("ex"))
        return [
            ("every-skeleton-node-present-with-kind-and-attribute-names", z3.ForAll([k], z3.Implies(sk.has(k), skel_ok(ds, sk, k))), "the stub exposes every path of the skeleton with the same kind (group / dataset) and every attribute name"),
            ("nothing-but-skeleton-nodes-and-their-ancestors", z3.ForAll([p], z3.Implies(ds.kind.has(p), z3.Or(p == ROOT, z3.Exists([k], z3.And(sk.has(k), ANC(p, k)))))), "no other nodes"),
            ("no-other-attributes", z3.ForAll([p, x], z3.Implies(ds.attrs.has(PA.mk(p, x)), z3.And(sk.has(p), z3.Select(SK_ATTRS(sk.get_term(p)), x)))), "no other attributes"),
        ]


def add_skeleton(reg):
    reg.attr_bindings[("SkelInfo", "node_type")] = lambda cx, o: TypeVal(NODE_TYPE(o.t))
    reg.attr_bindings[("SkelInfo", "attrs")] = lambda cx, o: InfoAttrs(o.t)
    s = InitStubSkeleton()
    reg.add(s)
    return [s]


class InitStubBase(FnSpec):
    file = "ih5/skeleton.py"
    qual = "init_stub_base"
    props = ("C10",)

    def init(self):
        self.bindings["init_stub_skeleton"] = lambda cx, t, sk: cx.effect("init-skeleton", t, sk)

    def setup(self, cx):
        from .record import ALLOC0

        t = SObj("StubTarget", name="target")
        ub = SRef.fresh("IH5UserBlock", "src_ub")
        cx.assume(ALLOC0(ub.t))
        return A(target=t, src_ub=ub, src_skel=SVal())

    def ensures(self, cx, a, res):
        fx = cx.fx
        ok = [e[0] for e in fx] == ["init-skeleton", "set-ublock"]
        out = [("structure-then-user-block", z3.BoolVal(ok and fx[0][1] is a.target and fx[0][2] is a.src_skel and fx[1][1] == -1), "the skeleton structure is created in the target, then the newest container's user block is replaced")]
        if ok:
            ub = fx[1][2]
            g = lambda u, f: u.py_getattr(cx, f)  # noqa: E731
            same = z3.And(*[g(ub, f).t == g(a.src_ub, f).t for f in ("record_uuid", "patch_uuid", "patch_index")])
            out.append(("stub-carries-the-real-identity-as-a-base", z3.And(ub.t != a.src_ub.t, same, g(ub, "prev_patch").isnone), "the stub's user block is a copy of the real one (record uuid, patch uuid, patch index: so patches made on it continue the real chain) marked as base container (no predecessor)"))
        return out


def add_skeleton_base(reg):
    from .record import ub_copy

    reg.method_bindings[("IH5UserBlock", "copy")] = ub_copy
    reg.method_bindings[("StubTarget", "_set_ublock")] = lambda cx, t, idx, ub: cx.effect("set-ublock", idx, ub)
    s = InitStubBase()
    reg.add(s)
    return [s]
