"""schema/pg.py — the schema plugin group's own bookkeeping of the inheritance between REGISTERED schemas:
plugin_deps, _compute_parent_path, init_plugin, parent_path, children, check_plugin (C07 'requested by any ancestor', C20 'compat', C13)."""
from __future__ import annotations

import z3

from pyvc.api import A, FnSpec, LoopSpec
from pyvc.containers import SObj
from pyvc.values import SBool, SInt, SMaybe, SStr, STuple, SVal, Unsupported, fresh_name

S, B, I = z3.StringSort(), z3.BoolSort(), z3.IntSort()
Cls = z3.DeclareSort("SchemaClass")
Ref = z3.DeclareSort("SchemaPluginRef")
Ver = z3.DeclareSort("VersionTuple")
RS = z3.SeqSort(Ref)
REF = z3.Function("Plugin_ref_of", Cls, Ref)  # cls.Plugin.ref()
NAME = z3.Function("ref_name", Ref, S)
VER = z3.Function("ref_version", Ref, Ver)
MKREF = z3.Function("PluginRef_of", S, Ver, Ref)
NOPARENT = z3.Function("parent_schema_map_says_None_for", Cls, B)  # self._parent_schema[c] is None
PARENTCLS = z3.Function("parent_schema_map_value_for", Cls, Cls)
GETU = z3.Function("loaded_plugin_class_for", S, Ver, Cls)  # self._get_unsafe(name, version)
PLUGIN = z3.Const("plugin", Cls)
ANC = z3.Function("kth_class_on_the_registered_parent_chain", I, Cls)  # definition below
CHAIN = z3.Function("refs_of_the_chain_up_to", I, RS)  # definition below
EMPTY = z3.Empty(RS)

T_PGS = [
    "assumption (registry consistency): the loaded plugin for a registered class's own reference is that class (what PluginGroup.is_plugin tests) — so walking up through _get_unsafe(ref of the parent) and through the parent itself are the same walk",
    "definition: chain class 0 is the plugin; chain class k+1 is the parent the group recorded for chain class k; refs_of_the_chain_up_to(0) = [ref(plugin)], (k+1) = (k) ++ [ref of that parent] — unfolded per instance",
    "PluginRef(name=, version=) builds the reference with these two (T5); cls.Plugin.ref() is the class's own reference; list.reverse() reverses in place; list(xs) / set(xs) are copies",
    "definition: x is among the first 0 of the path never; among the first k+1 iff among the first k or equal to path[k] — unfolded per instance",
    "termination of the walk up the chain (the recorded parents are acyclic because classes are) is not proved: partial correctness",
]


class ClsV(SVal):
    def __init__(self, t):
        self.t = t

    def fresh_like(self, cx, hint="c"):
        return ClsV(z3.Const(fresh_name(hint), Cls))

    def py_getattr(self, cx, n):
        if n == "Plugin":
            return InfoV(self.t)
        raise Unsupported("schema class attribute " + n)

    def py_truth(self, cx):
        return True

    def py_is_none(self, cx):
        return False

    def py_hash(self, cx):
        raise Unsupported("hash of a schema class")


class InfoV(SVal):
    def __init__(self, c):
        self.c = c

    def meth_ref(self, cx):
        return RefV(REF(self.c))

    def py_getattr(self, cx, n):
        if n == "name":
            return SStr(NAME(REF(self.c)))
        if n == "version":
            return VerV(VER(REF(self.c)))
        raise Unsupported("Plugin info attribute " + n)


class RefV(SVal):
    def __init__(self, t):
        self.t = t

    def fresh_like(self, cx, hint="r"):
        return RefV(z3.Const(fresh_name(hint), Ref))

    def py_getattr(self, cx, n):
        if n == "name":
            return SStr(NAME(self.t))
        if n == "version":
            return VerV(VER(self.t))
        raise Unsupported("ref attribute " + n)


class VerV(SVal):
    def __init__(self, t):
        self.t = t

    def py_is_none(self, cx):
        return False


class RefList(SVal):
    """python list of refs; reverse() flips a flag (the statement is about the un-reversed chain, root-most LAST before the reverse)"""

    pytype = "list"

    def __init__(self, t, reversed_=False):
        self.t, self.reversed = t, reversed_

    def meth_append(self, cx, v):
        if self.reversed or not isinstance(v, RefV):
            raise Unsupported("append to the reversed list / of a non-ref")
        self.t = z3.Concat(self.t, z3.Unit(v.t))

    def meth_reverse(self, cx):
        self.reversed = not self.reversed

    def havoc_inplace(self, cx, hint="l"):
        self.t = z3.Const(fresh_name(hint), RS)

    def fresh_like(self, cx, hint="l"):
        return RefList(z3.Const(fresh_name(hint), RS), self.reversed)


class ParentSchemaMap(SVal):
    def py_getitem(self, cx, c):
        if isinstance(c, SMaybe):
            c = c.force(cx, "KeyError")
        if not isinstance(c, ClsV):
            raise Unsupported("_parent_schema[...] of something else than a class")
        return SMaybe(NOPARENT(c.t), ClsV(PARENTCLS(c.t)))

    def py_setitem(self, cx, c, v):
        cx.effect("record-parent", c, v)
        self.last = (c, v)


def unfold(cx, j):
    """the definitions of ANC / CHAIN at step j -> j+1"""
    p = PARENTCLS(ANC(j))
    cx.assume(z3.And(ANC(0) == PLUGIN, CHAIN(0) == z3.Unit(REF(PLUGIN))))
    cx.assume(z3.Implies(j >= 0, z3.And(ANC(j + 1) == p, CHAIN(j + 1) == z3.Concat(CHAIN(j), z3.Unit(REF(p))))))


class ComputeParentPath(FnSpec):
    file = "schema/pg.py"
    qual = "PGSchema._compute_parent_path"
    props = ("C07", "C20")

    def init(self):
        def inv(cx, env, it):
            ret, curr, parent = env["ret"], env["curr"], env["parent"]
            j = z3.Length(ret.t) - 1 if isinstance(ret, RefList) else z3.IntVal(0)  # steps made so far = refs collected beyond the own one
            curr_some = z3.BoolVal(True)
            if isinstance(curr, SMaybe) and isinstance(curr.val, ClsV):  # (a class that was tested against None)
                curr, curr_some = curr.val, z3.Not(curr.isnone)
            if not isinstance(ret, RefList) or ret.reversed or not isinstance(curr, ClsV):
                return [("collecting-refs-upwards", z3.BoolVal(False))]
            unfold(cx, j)
            k = z3.Int(fresh_name("ik"))
            pn = parent.isnone if isinstance(parent, SMaybe) else z3.BoolVal(parent is None)
            pv = parent.val.t if isinstance(parent, SMaybe) else (parent.t if isinstance(parent, ClsV) else PARENTCLS(curr.t))
            return [
                ("depth", j >= 0),
                ("collected-so-far-is-the-chain-up-to-the-current-class", z3.And(curr_some, ret.t == CHAIN(j), curr.t == ANC(j))),
                ("parent-is-the-recorded-parent-of-the-current-class", z3.And(pn == NOPARENT(curr.t), z3.Implies(z3.Not(pn), pv == PARENTCLS(curr.t)))),
                ("every-class-passed-had-a-parent", z3.ForAll([k], z3.Implies(z3.And(0 <= k, k < j), z3.Not(NOPARENT(ANC(k)))))),
            ]

        self.loops[0] = LoopSpec(inv, modifies=["ret", "curr", "parent", "p_ref"])

    def container_value(self, cx, name, v):
        if name == "ret" and isinstance(v, list) and len(v) == 1 and isinstance(v[0], RefV):
            return RefList(z3.Unit(v[0].t))
        return None

    def setup(self, cx):
        me = SObj("PGSchemaObj", name="self")
        me.fields["_parent_schema"] = ParentSchemaMap()
        me.fields["_get_unsafe"] = lambda cx2, name, ver: ClsV(GETU(name.t, ver.t))
        c = z3.Const("rc_c", Cls)
        cx.assume(z3.ForAll([c], GETU(NAME(REF(c)), VER(REF(c))) == c))  # registry consistency (assumption, see T_PGS)
        return A(self=me, plugin=ClsV(PLUGIN))

    def raises(self, cx, a):
        return {}

    def ensures(self, cx, a, res):
        k = z3.Int(fresh_name("ek"))
        if not isinstance(res, RefList):
            return [("a-list-of-refs", z3.BoolVal(False), "")]
        j = z3.Length(res.t) - 1
        return [
            ("the-chain-of-registered-ancestors-root-most-first", z3.And(z3.BoolVal(res.reversed), res.t == CHAIN(j)), "the result is the REVERSED list [ref(plugin), ref(parent), ref(grandparent), ...]: root-most registered ancestor first, the schema itself last — each next class being the parent plugin recorded for the previous one"),
            ("up-to-the-first-class-without-a-recorded-parent", z3.And(j >= 0, NOPARENT(ANC(j)), z3.ForAll([k], z3.Implies(z3.And(0 <= k, k < j), z3.Not(NOPARENT(ANC(k)))))), "the chain ends exactly at the first class for which the group recorded no parent plugin"),
        ]


# ---- init_plugin ----------------------------------------------------------------------------------------------------------------------------------------------
PATH = z3.Const("computed_parent_path", RS)  # what _compute_parent_path returned (root-most first, the plugin's own ref last)
OWN = z3.Const("own_ref", Ref)
KidRel = z3.ArraySort(Ref, z3.ArraySort(Ref, B))
HasKey = z3.ArraySort(Ref, B)


class ChildrenMap(SVal):
    def __init__(self, has, rel):
        self.has, self.rel = has, rel

    def py_contains(self, cx, r):
        return SBool(z3.Select(self.has, r.t))

    def py_setitem(self, cx, r, v):
        if not (isinstance(v, (set, frozenset)) and not v):
            raise Unsupported("assignment of something else than an empty set")
        self.has = z3.Store(self.has, r.t, z3.BoolVal(True))
        self.rel = z3.Store(self.rel, r.t, z3.K(Ref, z3.BoolVal(False)))

    def py_getitem(self, cx, r):
        if not cx.decide(z3.Select(self.has, r.t)):
            cx.py_raise("KeyError", "no children set for that ref")
        return ChildSet(self, r.t)

    def havoc_inplace(self, cx, hint="c"):
        self.has, self.rel = z3.Const(fresh_name(hint + "_has"), HasKey), z3.Const(fresh_name(hint + "_rel"), KidRel)


class ChildSet(SVal):
    def __init__(self, m, key):
        self.m, self.key = m, key

    def meth_add(self, cx, r):
        self.m.rel = z3.Store(self.m.rel, self.key, z3.Store(z3.Select(self.m.rel, self.key), r.t, z3.BoolVal(True)))


class ParentsMap(SVal):
    def __init__(self):
        self.written = []

    def py_setitem(self, cx, r, v):
        self.written.append((r, v))

    def py_getitem(self, cx, r):
        for k, v in reversed(self.written):
            if z3.eq(k.t, r.t):
                return v
        raise Unsupported("_parents[...] of a ref not written in this call")


class PathList(SVal):
    """the list _compute_parent_path returned"""

    def __init__(self, t):
        self.t = t

    def py_getitem(self, cx, idx):
        from pyvc.values import SliceVal

        if isinstance(idx, SliceVal) and idx.lo is None and idx.hi == -1 and idx.step is None:
            return PathPrefix(self.t)
        raise Unsupported("another index of the parent path than [:-1]")

    @property
    def n(self):
        return z3.Length(self.t)

    def at(self, i):
        return RefV(self.t[i])

    def py_iter_schema(self, cx):
        from pyvc.containers import SeqIter

        return SeqIter(self)


class PathPrefix(SVal):
    def __init__(self, t):
        self.t = t  # the full path; the prefix is all but the last

    @property
    def n(self):
        return z3.If(z3.Length(self.t) > 0, z3.Length(self.t) - 1, 0)

    def at(self, i):
        return RefV(self.t[i])

    def py_iter_schema(self, cx):
        from pyvc.containers import SeqIter

        return SeqIter(self)


SERVED = z3.Function("is_among_the_first_k_of_the_path", I, Ref, B)  # definition: SERVED(0, x) = False; SERVED(k+1, x) = SERVED(k, x) or x == PATH[k]


def strict_anc(i_hi, x):
    """x is among the first i_hi elements of PATH"""
    return SERVED(i_hi, x)


def unfold_served(cx, k):
    x = z3.Const(fresh_name("sv_x"), Ref)
    cx.assume(z3.ForAll([x], z3.Not(SERVED(0, x))))
    cx.assume(z3.ForAll([x], SERVED(k + 1, x) == z3.Or(SERVED(k, x), x == PATH[k])))


class InitPlugin(FnSpec):
    file = "schema/pg.py"
    qual = "PGSchema.init_plugin"
    props = ("C07", "C20")

    def init(self):
        def inv(cx, env, it):
            a = cx.ghost["ip"]
            unfold_served(cx, it.i)
            return self.state(cx, a, it.i, "inv")

        self.loops[0] = LoopSpec(inv, modifies=["parent"], havoc_inplace=["self._children"])

    def state(self, cx, a, upto, tag):
        """children map after the first `upto` strict ancestors were served"""
        m = a.self.fields["_children"]
        x, c = z3.Const(fresh_name(tag + "_x"), Ref), z3.Const(fresh_name(tag + "_c"), Ref)
        has1 = z3.Or(z3.Select(a.has0, x), x == OWN)
        base = z3.If(z3.And(x == OWN, z3.Not(z3.Select(a.has0, OWN))), z3.BoolVal(False), z3.Select(z3.Select(a.rel0, x), c))
        want = z3.Or(base, z3.And(c == OWN, strict_anc(upto, x)))
        return [
            ("own-children-set-exists-others-keep-theirs", z3.ForAll([x], z3.Select(m.has, x) == has1)),
            ("own-ref-added-to-the-ancestors-served-so-far-nothing-else-changed", z3.ForAll([x, c], z3.Implies(has1, z3.Select(z3.Select(m.rel, x), c) == want))),
        ]

    def setup(self, cx):
        me = SObj("PGSchemaObj", name="self")
        has0, rel0 = z3.Const("children_keys_before", HasKey), z3.Const("children_before", KidRel)
        me.fields["_children"] = ChildrenMap(has0, rel0)
        me.fields["_parents"] = ParentsMap()
        me.fields["_compute_parent_path"] = lambda cx2, p: (cx2.effect("compute", p), PathList(PATH))[1]
        a = A(self=me, plugin=ClsV(PLUGIN))
        a.has0, a.rel0 = has0, rel0
        cx.assume(OWN == REF(PLUGIN))
        cx.ghost["ip"] = a
        return a

    def requires(self, cx, a):
        i = z3.Int("rq_i")
        n = z3.Length(PATH)
        return [
            ("path-ends-with-the-own-ref", z3.And(n >= 1, PATH[n - 1] == OWN)),  # ComputeParentPath
            ("ancestors-were-initialised-before", z3.ForAll([i], z3.Implies(z3.And(0 <= i, i < n - 1), z3.Select(a.has0, PATH[i])))),  # plugin_deps: the parent plugin is loaded (hence initialised) first; by induction all of the chain
        ]

    def raises(self, cx, a):
        return {}

    def ensures(self, cx, a, res):
        pm = a.self.fields["_parents"]
        ok = len(pm.written) == 1 and isinstance(pm.written[0][0], RefV) and isinstance(pm.written[0][1], PathList)
        out = [("parent-path-recorded-under-the-own-ref", z3.BoolVal(False) if not ok else z3.And(pm.written[0][0].t == OWN, pm.written[0][1].t == PATH), "the computed chain is what parent_path will report for this schema")]
        n = z3.Length(PATH)
        for nm, g in self.state(cx, a, n - 1, "ens"):
            out.append((nm, g, "afterwards the schema is listed as a child of EVERY strict registered ancestor on its chain (so a query for an ancestor finds it), of nothing else, and it has a children set of its own (empty if new, untouched if it existed)"))
        return out


# ---- plugin_deps / parent_path / children / check_plugin ---------------------------------------------------------------------------------------------------------
class PluginDeps(FnSpec):
    file = "schema/pg.py"
    qual = "PGSchema.plugin_deps"
    props = ("C07", "C20", "C16")

    def init(self):
        self.bindings["infer_parent"] = lambda cx, p: (cx.effect("infer", p), SMaybe(z3.Bool("no_base_is_a_plugin"), ClsV(z3.Const("closest_plugin_base", Cls))))[1]
        self.bindings["set"] = lambda cx: set()

    def setup(self, cx):
        me = SObj("PGSchemaObj", name="self")

        class PS(SVal):
            def __init__(s):
                s.val = None

            def py_setitem(s, cx2, c, v):
                cx2.effect("record-parent", c, v)
                s.val = (c, v)

            def py_getitem(s, cx2, c):
                if s.val is None or s.val[0] is not c:
                    raise Unsupported("_parent_schema[...] of another class")
                return s.val[1]

        me.fields["_parent_schema"] = PS()
        me.fields["PluginRef"] = lambda cx2, **kw: RefV(MKREF(kw["name"].t, kw["version"].t)) if set(kw) == {"name", "version"} else (_ for _ in ()).throw(Unsupported("PluginRef with other arguments"))
        return A(self=me, plugin=ClsV(PLUGIN))

    def raises(self, cx, a):
        return {}

    def ensures(self, cx, a, res):
        rec = [e for e in cx.fx if e[0] == "record-parent"]
        base = z3.Const("closest_plugin_base", Cls)
        none = z3.Bool("no_base_is_a_plugin")
        ok_rec = len(rec) == 1 and rec[0][1] is a.plugin and isinstance(rec[0][2], SMaybe)
        out = [("closest-plugin-base-recorded-as-the-parent", z3.BoolVal(bool(ok_rec)), "the parent the group records for a schema is infer_parent(schema): the closest base class that is itself a plugin (or None)")]
        if isinstance(res, (set, frozenset, tuple)) and len(res) == 1 and isinstance(next(iter(res)), RefV):  # (a set display with a symbolic element is kept as a tuple of its elements)
            r = next(iter(res)).t
            out.append(("depends-on-exactly-that-parent-plugin", z3.And(z3.Not(none), r == MKREF(NAME(REF(base)), VER(REF(base)))), "a schema depends on its parent plugin (name and version from the parent's own Plugin section), so the parent is loaded and initialised first"))
        else:
            out.append(("no-dependency-without-a-parent-plugin", z3.And(none, z3.BoolVal(res == set())), ""))
        return out


class Lookup(FnSpec):
    """parent_path / children: the stored answer for exactly the requested release, as a copy"""

    file = "schema/pg.py"
    props = ("C07", "C20")

    def __init__(self, which):
        self.which = which
        self.qual = "PGSchema." + which
        super().__init__()

    def init(self):
        class PG(SVal):
            def meth_plugin_args(s, cx, sch, v, require_version=False):
                cx.effect("plugin_args", sch, v, require_version)
                return STuple((SStr(z3.String("requested_name")), VerV(z3.Const("requested_version", Ver))))

        self.bindings["pg"] = PG()
        self.bindings["list"] = lambda cx, x: ("copy", "list", x)
        self.bindings["set"] = lambda cx, x: ("copy", "set", x)

    def setup(self, cx):
        me = SObj("PGSchemaObj", name="self")

        class Store(SVal):
            def __init__(s, tag):
                s.tag = tag

            def py_getitem(s, cx2, r):
                cx2.effect("lookup", s.tag, r)
                return ("stored", s.tag, r)

        me.fields["_parents"], me.fields["_children"] = Store("parents"), Store("children")
        me.fields["PluginRef"] = lambda cx2, **kw: RefV(MKREF(kw["name"].t, kw["version"].t))
        me.fields["_ensure_is_loaded"] = lambda cx2, r: cx2.effect("ensure-loaded", r)
        return A(self=me, schema="schema-arg", version="version-arg")

    def raises(self, cx, a):
        return {}

    def ensures(self, cx, a, res):
        fx = [e[:-1] for e in cx.fx]
        kinds = [e[0] for e in fx]
        want_ref = MKREF(z3.String("requested_name"), z3.Const("requested_version", Ver))
        tag, kind = ("parents", "list") if self.which == "parent_path" else ("children", "set")
        ok = kinds == ["plugin_args", "ensure-loaded", "lookup"] and fx[0][1:] == ("schema-arg", "version-arg", True) and isinstance(fx[1][1], RefV) and fx[2][1] == tag and fx[2][2] is fx[1][1] and isinstance(res, tuple) and res[:2] == ("copy", kind) and res[2] == ("stored", tag, fx[1][1])
        return [("stored-answer-for-exactly-that-release-after-loading-it-as-a-copy", z3.BoolVal(False) if not ok else fx[1][1].t == want_ref, "a version is required; the schema is loaded first (so its chain is recorded); the answer is a COPY of what init_plugin recorded for exactly that name and version")]


class CheckPlugin(FnSpec):
    file = "schema/pg.py"
    qual = "PGSchema.check_plugin"
    props = ("C13",)

    def init(self):
        self.bindings["check_types"] = lambda cx, p: cx.effect("check_types", p)

    def setup(self, cx):
        return A(self=SObj("PGSchemaObj", name="self"), name="ep-name", plugin=ClsV(PLUGIN))

    def raises(self, cx, a):
        return {}

    def ensures(self, cx, a, res):
        c = [e for e in cx.fx if e[0] == "check_types"]
        return [("every-schema-plugin-passes-the-override-check", z3.BoolVal(len(c) == 1 and c[0][1] is a.plugin), "the group's own check of a schema plugin is check_types(schema) (C13: field overrides must be declared or compatible) — run by _load_plugin before the schema is initialised")]


def add_pgschema(reg):
    reg.set_class_home("PGSchemaObj", "schema/pg.py", "PGSchema")
    return [ComputeParentPath(), InitPlugin(), PluginDeps(), Lookup("parent_path"), Lookup("children"), CheckPlugin(), InferParent()]


# ---- infer_parent (schema/core.py): which class counts as THE parent of a schema ---------------------------------------------------------------------------------
MRO_LEN = z3.Int("length_of_the_mro")
MRO = z3.Function("mro_entry", I, Cls)
IS_SCHEMA = z3.Function("is_subclass_of_MetadataSchema", Cls, B)
OWN_PLUGIN = z3.Function("has_a_Plugin_section_of_its_own", Cls, B)


class MroClass(SVal):
    def __init__(self, t):
        self.t = t

    def py_getattr(self, cx, n):
        if n == "__dict__":
            return OwnDict(self.t)
        raise Unsupported("class attribute " + n)


class OwnDict(SVal):
    def __init__(self, c):
        self.c = c

    def meth_get(self, cx, k, d=None):
        if k != "Plugin" or d is not None:
            raise Unsupported("another key of the class dict")
        return SMaybe(z3.Not(OWN_PLUGIN(self.c)), "the-own-plugin-section")


class PluginCls(SVal):
    def py_getattr(self, cx, n):
        if n == "__mro__":
            return MroTok(0)
        raise Unsupported("class attribute " + n)


class MroTok(SVal):
    def __init__(self, lo):
        self.lo = lo

    def py_getitem(self, cx, idx):
        from pyvc.values import SliceVal

        if isinstance(idx, SliceVal) and isinstance(idx.lo, int) and idx.lo >= 0 and idx.hi is None and idx.step is None:
            return MroTok(self.lo + idx.lo)
        raise Unsupported("another index of the mro")


class FilterTok(SVal):
    def __init__(self, pred, src):
        self.pred, self.src = pred, src


class InferParent(FnSpec):
    file = "schema/core.py"
    qual = "infer_parent"
    props = ("C13", "C07", "C20")

    def init(self):
        self.bindings["MetadataSchema"] = "MetadataSchema-class"
        self.bindings["issubclass"] = lambda cx, c, b: SBool(IS_SCHEMA(c.t)) if isinstance(c, MroClass) and b == "MetadataSchema-class" else (_ for _ in ()).throw(Unsupported("issubclass of something else"))

        def _filter(cx, f, src):
            from pyvc.values import as_bool, truth

            if not isinstance(src, MroTok):
                raise Unsupported("filter over something else than the mro")

            def pred(i):
                v, fails, axioms = cx.run.interp.eval_on_element(cx, f, MroClass(MRO(i)), i, truth_only=True)
                if fails or axioms:
                    raise Unsupported("the test may raise")
                return as_bool(cx, truth(cx, v))

            return FilterTok(pred, src)

        def _next(cx, it, *d):
            if not isinstance(it, FilterTok) or d != (None,):
                raise Unsupported("next() of something else")
            j = z3.Int(fresh_name("first_match"))
            k = z3.Int(fresh_name("nk"))
            none = z3.Bool(fresh_name("no_match"))
            lo = it.src.lo
            cx.assume(z3.Implies(none, z3.ForAll([k], z3.Implies(z3.And(lo <= k, k < MRO_LEN), z3.Not(it.pred(k))))))  # T4 next(filter(...), None)
            cx.assume(z3.Implies(z3.Not(none), z3.And(lo <= j, j < MRO_LEN, it.pred(j), z3.ForAll([k], z3.Implies(z3.And(lo <= k, k < j), z3.Not(it.pred(k)))))))
            cx.ghost["ifp_j"] = j
            return SMaybe(none, ClsV(MRO(j)))

        self.bindings["filter"] = _filter
        self.bindings["next"] = _next

    def setup(self, cx):
        cx.assume(MRO_LEN >= 2)  # the class itself and object
        return A(plugin=PluginCls())

    def raises(self, cx, a):
        return {}

    def ensures(self, cx, a, res):
        k = z3.Int(fresh_name("ek"))
        q = lambda i: z3.And(IS_SCHEMA(MRO(i)), OWN_PLUGIN(MRO(i)))  # noqa: E731
        j = cx.ghost.get("ifp_j")
        if not isinstance(res, SMaybe) or j is None:
            return [("a-class-or-none", z3.BoolVal(False), "")]
        return [
            ("none-iff-no-proper-base-is-a-schema-plugin", res.isnone == z3.ForAll([k], z3.Implies(z3.And(1 <= k, k < MRO_LEN), z3.Not(q(k)))), "no parent exactly when no PROPER base class (the class itself is skipped) is a MetadataSchema with a Plugin section of its own"),
            ("else-the-nearest-such-base", z3.Implies(z3.Not(res.isnone), z3.And(res.val.t == MRO(j), 1 <= j, j < MRO_LEN, q(j), z3.ForAll([k], z3.Implies(z3.And(1 <= k, k < j), z3.Not(q(k)))))), "otherwise the parent is the NEAREST such base in the mro: intermediate classes that are not plugins (or only inherit a Plugin section) are skipped — this is the class the override check compares against and the next link of the registered chain"),
        ]
