"""C12 — serialisation round trip: the repository's own glue (P-tier); value parsers/encoders are checked bounded."""
from . import schema_core, valuetypes


def build(reg):
    specs = schema_core.build_c12(reg) + valuetypes.add_valuetypes(reg) + valuetypes.add_parsers(reg)
    return {
        "verify": specs,
        "lemmas": [],
        "trusted": [
            "pydantic ModelMetaclass builds fields/validators and (de)serialises with the class's __json_encoder__ (T5)",
            "the parent metaclass initialiser of SchemaMagic is DynEncoderModelMetaclass.__init__ (MRO resolved by CPython)",
            "T5 ModelField.infer(name=, value=, annotation=Optional[Any], ...) is the pydantic field with that name whose default is that value; is_enum / is_literal / isinstance(value, enum) / is_subtype(Literal[value], type) are opaque predicates of the field type and the value",
        ],
        "assumptions": ["dict.update(other) = pointwise override (built-in semantics)", "the value-level parsers (pint, isodate, semver, numpy) are opaque and exercised by the bounded tier only; of schema/types.py the repository's own dispatch (Duration.Parser.parse, StringParser.parse) is under contract"],
    }
