"""plugin/types.py: entry-point names <-> (name, version) — C16 ("convert to (name, version) and back without loss")."""
from __future__ import annotations

import z3

from pyvc.api import A, FnSpec
from pyvc.values import SInt, SStr, STuple, SVal, Unsupported

S, I, B = z3.StringSort(), z3.IntSort(), z3.BoolSort()
DIGITS = z3.Plus(z3.Range("0", "9"))
SEP = z3.StringVal("__")
DOT = z3.StringVal(".")
EP_OK = z3.Function("matches_EP_NAME_REGEX", S, B)
SV_OK = z3.Function("matches_SEMVER_STR_REGEX", S, B)

T_EPN = [
    "str(k) of a non-negative int k is a non-empty string of decimal digits and int(str(k)) == k (SMT-LIB str.from_int / str.to_int); stated as a hypothesis where membership in [0-9]+ is needed, since the solvers do not derive it",
    "plugin names are qualified names (letter, then letters/digits with single '_' or '-' between, segments joined by '.'): they contain no '__' and do not end in '_' — that much of QUAL_NAME is all the round trip uses",
    "EPName(s) / SemVerStr(s) (phantom FullMatch types) return s if it matches their pattern and raise TypeError otherwise; the patterns themselves are exercised by the bounded tier",
]


def name_ok(n):
    return z3.And(z3.Length(n) > 0, z3.Not(z3.Contains(n, SEP)), z3.Not(z3.SuffixOf(z3.StringVal("_"), n)))


def sv_text(a, b, c):
    return z3.Concat(z3.IntToStr(a), DOT, z3.IntToStr(b), DOT, z3.IntToStr(c))


def digit_facts(*xs, with_int=False):
    return [z3.And(z3.InRe(z3.IntToStr(x), DIGITS), z3.StrToInt(z3.IntToStr(x)) == x) if with_int else z3.InRe(z3.IntToStr(x), DIGITS) for x in xs]


def _ver(cx, with_int=False):
    """three non-negative numbers, with the facts of T_EPN[0] about their decimal text (int(str(k)) == k only where int() is applied: it slows the other queries down)"""
    a, b, c = z3.Ints("va vb vc")
    cx.assume(z3.And(a >= 0, b >= 0, c >= 0))
    for f in digit_facts(a, b, c, with_int=with_int):
        cx.assume(f)
    return a, b, c


def str_term(v):
    return v.t if isinstance(v, SStr) else (z3.StringVal(v) if isinstance(v, str) else None)


class ToSemverStr(FnSpec):
    file = "plugin/types.py"
    qual = "to_semver_str"
    props = ("C16",)
    pure = True

    def setup(self, cx):
        a, b, c = _ver(cx)
        r = A(ver=STuple((SInt(a), SInt(b), SInt(c))))
        r.v = (a, b, c)
        return r

    def raises(self, cx, a):
        return {}

    def ensures(self, cx, a, res):
        t = str_term(res)
        return [("major-dot-minor-dot-patch", z3.BoolVal(False) if t is None else t == sv_text(*a.v), "the version text is the three numbers in decimal, joined by dots, in order")]

    def result(self, cx, a):
        return SStr(sv_text(*[x.t for x in a.ver.items]))

    def native_plan(self, m, o):
        v = [m.get(k, 0) for k in ("va", "vb", "vc")]
        return {"fn": "to_semver_str", "args": [{"__tuple__": v}]}


class FromSemverStr(FnSpec):
    file = "plugin/types.py"
    qual = "from_semver_str"
    props = ("C16",)
    pure = True

    def setup(self, cx):
        a, b, c = _ver(cx, with_int=True)
        r = A(ver=SStr(sv_text(a, b, c)))
        r.v = (a, b, c)
        return r

    def raises(self, cx, a):
        return {}

    def ensures(self, cx, a, res):
        items = res.items if isinstance(res, STuple) else (list(res) if isinstance(res, (tuple, list)) else None)
        if items is None or len(items) != 3 or not all(isinstance(x, (SInt, int)) for x in items):
            return [("three-numbers", z3.BoolVal(False), "a version text gives back three numbers")]
        ts = [x.t if isinstance(x, SInt) else z3.IntVal(x) for x in items]
        return [("the-numbers-it-was-made-of", z3.And(*[t == v for t, v in zip(ts, a.v)]), "from_semver_str(to_semver_str(v)) == v: nothing lost, order kept")]

    def result(self, cx, a):
        t = a.ver.t
        return STuple(tuple(SInt(FSV[i](t)) for i in range(3)))

    def native_plan(self, m, o):
        v = [m.get(k, 0) for k in ("va", "vb", "vc")]
        return {"fn": "from_semver_str", "args": [".".join(str(x) for x in v)], "expect": {"__tuple__": v}}


FSV = [z3.Function(f"semver_component_{i}", S, I) for i in range(3)]


class ToEpName(FnSpec):
    file = "plugin/types.py"
    qual = "to_ep_name"
    props = ("C16",)

    def init(self):
        self.bindings["EPName"] = lambda cx, s: (s if cx.decide(EP_OK(s.t)) else cx.py_raise("TypeError", "not an entry point name"))
        self.bindings["EP_NAME_VER_SEP"] = "__"

    def setup(self, cx):
        a, b, c = _ver(cx)
        r = A(p_name=SStr.fresh("plugin_name"), p_version=STuple((SInt(a), SInt(b), SInt(c))))
        r.v = (a, b, c)
        return r

    def raises(self, cx, a):
        return {"TypeError": z3.Not(EP_OK(z3.Concat(a.p_name.t, SEP, sv_text(*a.v))))}

    def native_plan(self, m, o):
        v = [m.get(k, 0) for k in ("va", "vb", "vc")]
        name = next((val for k, val in m.items() if k.startswith("plugin_name")), None)
        if not isinstance(name, str):
            return None
        return {"fn": "to_ep_name", "args": [name, {"__tuple__": v}]}

    def ensures(self, cx, a, res):
        t = str_term(res)
        return [("name-separator-version", z3.BoolVal(False) if t is None else t == z3.Concat(a.p_name.t, SEP, sv_text(*a.v)), "the entry point name is <name>__<major>.<minor>.<patch>")]


class FromEpNameBody(FnSpec):
    file = "plugin/types.py"
    qual = "from_ep_name"
    props = ("C16",)
    pure = True  # callers (c16.FromEpName.result) see the (name, version) of the entry point name

    def init(self):
        self.bindings["SemVerStr"] = lambda cx, s: (s if cx.decide(SV_OK(s.t)) else cx.py_raise("TypeError", "not a version text"))
        self.bindings["EP_NAME_VER_SEP"] = "__"

    def setup(self, cx):
        a, b, c = _ver(cx)
        n = z3.String("plugin_name")
        cx.assume(name_ok(n))  # T_EPN[1]
        cx.assume(SV_OK(sv_text(a, b, c)))  # the text to_semver_str makes matches the version pattern (bounded tier)
        cx.assume(z3.And(*[FSV[i](sv_text(a, b, c)) == v for i, v in enumerate((a, b, c))]))  # from_semver_str's contract (FromSemverStr, verified on its own) at this version
        r = A(ep_name=SStr(z3.Concat(n, SEP, sv_text(a, b, c))))
        r.n, r.v = n, (a, b, c)
        return r

    def raises(self, cx, a):
        return {}

    def native_plan(self, m, o):
        v = [m.get(k, 0) for k in ("va", "vb", "vc")]
        name = m.get("plugin_name")
        if not isinstance(name, str):
            return None
        return {"fn": "from_ep_name", "args": [name + "__" + ".".join(str(x) for x in v)], "expect": {"__tuple__": [name, {"__tuple__": v}]}}

    def ensures(self, cx, a, res):
        items = res.items if isinstance(res, STuple) else (list(res) if isinstance(res, (tuple, list)) else None)
        if items is None or len(items) != 2:
            return [("name-and-version", z3.BoolVal(False), "returns (name, version)")]
        nm, ver = items
        vt = ver.items if isinstance(ver, STuple) else None
        if str_term(nm) is None or vt is None or len(vt) != 3:
            return [("name-and-version", z3.BoolVal(False), "returns (name, version)")]
        return [
            ("the-name-it-was-made-of", str_term(nm) == a.n, "from_ep_name(to_ep_name(name, v)) gives the name back — also a name containing single '_' or '-' or dots"),
            ("the-version-it-was-made-of", z3.And(*[x.t == v for x, v in zip(vt, a.v)]), "... and the version"),
        ]


def add_epnames(reg, from_ep_name_cls=None):
    specs = [ToSemverStr(), FromSemverStr(), ToEpName(), (from_ep_name_cls or FromEpNameBody)(), PluginArgs()]
    for s in specs:
        reg.add(s)
    return specs


# ---- StoredMetadata: the name of a metadata object node <-> (schema, uuid) --------------------------------------------------------
UUID_OF = z3.Function("UUID_of_text", S, S)  # uuid.UUID(text), identified by its canonical text (T: UUID(str(u)) == u)
EPN_NAME = z3.Function("epn_name", S, S)
EPN_VER = [z3.Function(f"epn_v{i}", S, I) for i in range(3)]

T_STORED = [
    "uuid.UUID(str(u)) == u and str(u) is 36 characters of hex digits and '-' (no '/', no '=')",
    "obj.name of a raw node is its absolute path; StoredMetadata(uuid=, schema=, node=) is a plain record of the three",
]


class NodeNamed(SVal):
    def __init__(self, name_t):
        self.name_t = name_t

    def py_getattr(self, cx, n):
        if n == "name":
            return SStr(self.name_t)
        raise Unsupported("node attribute " + n)


class Rec(SVal):
    def __init__(self, kind, **kw):
        self.kind, self.kw = kind, kw


class SchemasNS(SVal):
    def meth_PluginRef(self, cx, **kw):
        return Rec("PluginRef", **kw)


class FromNode(FnSpec):
    file = "container/interface.py"
    qual = "StoredMetadata.from_node"
    props = ("C06", "C07", "C20")

    def init(self):
        self.bindings["EPName"] = lambda cx, s: (s if cx.decide(EP_OK(s.t)) else cx.py_raise("TypeError", "not an entry point name"))
        self.bindings["from_ep_name"] = lambda cx, s: (SStr(EPN_NAME(s.t)), STuple(tuple(SInt(f(s.t)) for f in EPN_VER)))  # its own contract (C16)
        self.bindings["UUID"] = lambda cx, s: Rec("UUID", text=s)
        self.bindings["schemas"] = SchemasNS()
        self.bindings["StoredMetadata"] = lambda cx, **kw: Rec("StoredMetadata", **kw)

    def setup(self, cx):
        prefix, epn, u = z3.String("meta_dir_path"), z3.String("ep_name_text"), z3.String("uuid_text")
        for t in (epn, u):
            cx.assume(z3.And(z3.Not(z3.Contains(t, z3.StringVal("/"))), z3.Not(z3.Contains(t, z3.StringVal("="))), z3.Length(t) > 0))
        cx.assume(EP_OK(epn))
        rest = z3.String("meta_dir_path_without_the_leading_slash")
        cx.assume(z3.And(prefix == z3.Concat(z3.StringVal("/"), rest), z3.Length(rest) > 0, z3.Not(z3.PrefixOf(z3.StringVal("/"), rest))))  # absolute, normalised path of the metadata directory
        obj = NodeNamed(z3.Concat(prefix, z3.StringVal("/"), epn, z3.StringVal("="), u))
        a = A(obj=obj)
        a.epn, a.u = epn, u
        cx.ghost["hint_last_part"] = lambda t: t == z3.Concat(epn, z3.StringVal("="), u)  # the last path segment is <ep name>=<uuid>
        return a

    def raises(self, cx, a):
        return {}

    def ensures(self, cx, a, res):
        ok = isinstance(res, Rec) and res.kind == "StoredMetadata" and set(res.kw) == {"uuid", "schema", "node"}
        if not ok:
            return [("a-record-of-uuid-schema-node", z3.BoolVal(False), "")]
        uu, sch, node = res.kw["uuid"], res.kw["schema"], res.kw["node"]
        shapes = isinstance(uu, Rec) and uu.kind == "UUID" and isinstance(sch, Rec) and sch.kind == "PluginRef" and set(sch.kw) == {"name", "version"}
        if not shapes:
            return [("a-record-of-uuid-schema-node", z3.BoolVal(False), "")]
        nm, ver = sch.kw["name"], sch.kw["version"]
        return [
            ("uuid-is-the-text-after-the-equals-sign", uu.kw["text"].t == a.u, "the object's uuid is read from the last path segment, after '='"),
            ("schema-is-the-entry-point-name-before-it", z3.And(nm.t == EPN_NAME(a.epn), *[x.t == f(a.epn) for x, f in zip(ver.items, EPN_VER)]), "its schema (name, version) is what the entry-point-style text before '=' encodes — whatever directory the object sits in"),
            ("node-is-the-node-itself", z3.BoolVal(node is a.obj), "the record points at the very node"),
        ]


class ParentStub(SVal):
    def __init__(self, name_t):
        self.name_t = name_t

    def py_getattr(self, cx, n):
        if n == "name":
            return SStr(self.name_t)
        raise Unsupported("group attribute " + n)


class ToPath(FnSpec):
    file = "container/interface.py"
    qual = "StoredMetadata.to_path"
    props = ("C06", "C07", "C20")

    def init(self):
        self.bindings["to_ep_name"] = lambda cx, n, v: SStr(z3.Concat(n.t, SEP, sv_text(*[x.t for x in v.items])))  # its own contract (ToEpName), for a valid name

    def setup(self, cx):
        from pyvc.containers import SObj

        a_, b_, c_ = _ver(cx)
        me = SObj("StoredMetadata", name="self")
        prefix, n, u = z3.String("meta_dir_path"), z3.String("schema_name"), z3.String("uuid_text")

        class NodeS(SVal):
            def py_getattr(s2, cx2, nm):
                if nm == "parent":
                    return ParentStub(prefix)
                raise Unsupported("node attribute " + nm)

        class RefS(SVal):
            def py_getattr(s2, cx2, nm):
                if nm == "name":
                    return SStr(n)
                if nm == "version":
                    return STuple((SInt(a_), SInt(b_), SInt(c_)))
                raise Unsupported("ref attribute " + nm)

        class UuidS(SVal):
            def py_str(s2, cx2):
                return SStr(u)

        me.fields["node"], me.fields["schema"], me.fields["uuid"] = NodeS(), RefS(), UuidS()
        a = A(self=me)
        a.want = z3.Concat(prefix, z3.StringVal("/"), n, SEP, sv_text(a_, b_, c_), z3.StringVal("="), u)
        return a

    def raises(self, cx, a):
        return {}

    def ensures(self, cx, a, res):
        t = str_term(res)
        return [("dir-slash-epname-equals-uuid", z3.BoolVal(False) if t is None else t == a.want, "the canonical path of a metadata object is <metadata dir>/<schema>__<version>=<uuid> — exactly the shape from_node reads back (FromNode), with to/from_ep_name inverse on it (C16)")]


def add_stored(reg):
    reg.set_class_home("StoredMetadata", "container/interface.py")
    specs = [FromNode(), ToPath()]
    for s in specs:
        reg.add(s)
    return specs


# ---- plugin_args: what name and version a request means ------------------------------------------------------------------------------
class ArgShape(SVal):
    """the `plugin` argument: a str | a (name, version) pair | an object with name and version (PluginRef, Plugin info) | a class with an inner Plugin | something else"""

    def __init__(self, shape, depth=0):
        self.shape, self.depth = shape, depth
        self.name = SStr.fresh(f"name_of_{shape}_{depth}")
        self.ver = VerTok(f"version_of_{shape}_{depth}")

    def py_isinstance(self, cx, c):
        names = c if isinstance(c, (tuple, list)) else [c]
        out = False
        for n in names:
            n = getattr(n, "name", n)
            if n == "str":
                out = out or self.shape == "str"
            elif n == "tuple":
                out = out or self.shape == "pair"
            elif n == "HasNameVersion":
                out = out or self.shape == "named"
            elif n != "object":
                raise Unsupported(f"isinstance against {n!r}")
        return out

    def py_len(self, cx):
        if self.shape == "pair":
            return 2
        raise Unsupported("len of the plugin argument")

    def py_getitem(self, cx, i):
        if self.shape == "pair" and i in (0, 1):
            return self.name if i == 0 else self.ver
        raise Unsupported("subscript of the plugin argument")

    def py_getattr(self, cx, n):
        if self.shape == "named" and n in ("name", "version"):
            return self.name if n == "name" else self.ver
        if n == "Plugin":
            if self.shape == "class":
                if not hasattr(self, "info"):
                    self.info = ArgShape("named", self.depth + 1)
                return self.info
            cx.py_raise("AttributeError", "no Plugin")
        raise Unsupported("attribute of the plugin argument: " + n)

    def py_truth(self, cx):
        return True  # objects and classes are truthy; (an empty str name is outside the callers' use: see setup)

    def py_str(self, cx):
        return self.name


class VerTok(SVal):
    """a version tuple (never empty, so truthy) identified by where it came from"""

    def __init__(self, tag):
        self.tag = tag

    def py_truth(self, cx):
        return True

    def py_is_none(self, cx):
        return False


class PluginArgs(FnSpec):
    file = "plugin/types.py"
    qual = "plugin_args"
    props = ("C16", "C07")
    recursive = True

    def init(self):
        self.bindings["HasNameVersion"] = type("C", (), {"name": "HasNameVersion"})()

    def setup(self, cx):
        shape = ["str", "pair", "named", "class", "other"][cx.choose(5)]
        given = cx.choose(2) == 1
        req = cx.choose(2) == 1
        a = A(plugin=ArgShape(shape), version=VerTok("version_argument") if given else None, require_version=req)
        a.shape, a.given, a.req = shape, given, req
        return a

    def expected(self, a):
        p = a.plugin
        if a.shape == "str":
            return p, a.version  # for a str the name IS the argument
        if a.shape in ("pair", "named"):
            return p.name, (a.version if a.given else p.ver)
        if a.shape == "class":
            return p.info.name if hasattr(p, "info") else None, (a.version if a.given else (p.info.ver if hasattr(p, "info") else None))
        return "", a.version

    def raises(self, cx, a):
        want_name, want_ver = self.expected(a) if a.shape != "class" else (None, a.version if a.given else "some")
        return {"ValueError": z3.BoolVal(bool(a.req and want_ver is None))}

    def ensures(self, cx, a, res):
        items = res.items if isinstance(res, STuple) else (list(res) if isinstance(res, (tuple, list)) else None)
        if items is None or len(items) != 2:
            return [("name-and-version", z3.BoolVal(False), "returns (name, version)")]
        wn, wv = self.expected(a)
        nm, ver = items
        name_ok_ = (nm is wn) or (isinstance(nm, str) and isinstance(wn, str) and nm == wn)
        return [
            ("the-name-the-argument-carries", z3.BoolVal(bool(name_ok_)), "the name is the string itself, the first of a pair, the .name of a reference/plugin info, or that of a class's inner Plugin"),
            ("explicit-version-wins-else-the-carried-one", z3.BoolVal(ver is wv), "an explicitly passed version takes precedence; otherwise the version the argument carries (None for a bare name)"),
        ]

    # callee side (the recursion on the inner Plugin info)
    def bind_call(self, interp, cx, f, args, kwargs):
        a = FnSpec.bind_call(self, interp, cx, f, args, kwargs)
        p = a.plugin
        if not isinstance(p, ArgShape):
            raise Unsupported("plugin_args contract used on another kind of value")
        a.shape, a.given, a.req = p.shape, a.get("version") is not None, bool(a.get("require_version", False))
        return a

    def result(self, cx, a):
        p = a.plugin
        if not isinstance(p, ArgShape) or p.shape != "named":
            raise Unsupported("plugin_args contract used on another shape")
        v = a.get("version")
        return STuple((p.name, v if v is not None else p.ver))
