"""ih5/skeleton.py: how a skeleton is made and re-indexed (C10: a stub carries every path, kind and attribute name of the real record,
all pointing at the one container the stub stands for): SkeletonNodeInfo.with_patch_index / for_node, IH5Skeleton.with_patch_index / for_record."""
from __future__ import annotations

import ast

import z3

from pyvc.api import A, ContractStale, FnSpec, LoopSpec
from pyvc.containers import INT, STR, SMap, SObj, SSet, SetIter
from pyvc.engine import Closure, Env, Frame
from pyvc.values import SInt, SStr, SVal, Unsupported, fresh_name

S, B, I = z3.StringSort(), z3.BoolSort(), z3.IntSort()
Info = z3.DeclareSort("SkeletonNodeInfoValue")
WITH_IDX = z3.Function("node_info_with_patch_index", Info, I, Info)  # SkeletonNodeInfo.with_patch_index (its own contract below)
NodeS = z3.DeclareSort("RecordNode")
INFO_FOR = z3.Function("node_info_for_node", NodeS, Info)  # SkeletonNodeInfo.for_node (its own contract below)
N_NAME = z3.Function("node_name", NodeS, S)

T_SKI = [
    "T5 pydantic: model.copy() is a new object with the same field values (fields holding dicts share them until reassigned); dict(d) is a new dict with d's entries",
    "rec.visititems(f) calls f(name, node) once per node below the root (T1 / overlay visit); node names are absolute paths, pairwise distinct",
]


class TInfo:
    def sort(self):
        return Info

    def wrap(self, t):
        return InfoV(t)

    def unwrap(self, cx, v):
        if isinstance(v, InfoV):
            return v.t
        raise Unsupported("not a node info")


class InfoV(SVal):
    def __init__(self, t):
        self.t = t

    def meth_with_patch_index(self, cx, idx):
        return InfoV(WITH_IDX(self.t, idx.t if isinstance(idx, SInt) else z3.IntVal(idx)))


# ---- SkeletonNodeInfo.with_patch_index -----------------------------------------------------------------------------------------------------------
class InfoObj(SObj):
    """a SkeletonNodeInfo: node_type, patch_index, attrs (dict name -> index)"""


def dict_copy(cx, d):
    if isinstance(d, SMap):
        return d.snapshot()
    raise Unsupported("dict() of something else")


class InfoWithIdx(FnSpec):
    file = "ih5/skeleton.py"
    qual = "SkeletonNodeInfo.with_patch_index"
    props = ("C10",)

    def init(self):
        self.bindings["dict"] = dict_copy

        def inv(cx, env, it):
            a = cx.ghost["iw"]
            ret = env["ret"]
            at = ret.fields["attrs"]
            k = z3.String(fresh_name("ik"))
            return [
                ("same-attribute-names", z3.ForAll([k], at.has(k) == a.attrs0.has(k))),
                ("re-indexed-so-far", z3.ForAll([k], z3.Implies(z3.Select(it.processed, k), at.get_term(k) == a.idx.t))),
                ("original-untouched", a.self.fields["attrs"].same(cx, a.attrs0)),
            ]

        self.loops[0] = LoopSpec(inv, modifies=["k"], havoc_inplace=["ret.attrs"])

    def setup(self, cx):
        me = InfoObj("SkeletonNodeInfoObj", name="self")
        me.fields["node_type"] = "the-node-type"
        me.fields["patch_index"] = SInt(z3.Int("old_patch_index"))
        me.fields["attrs"] = SMap.fresh(STR, INT, "attrs")

        def copy(cx2):
            c = InfoObj("SkeletonNodeInfoObj", name="ret")
            c.fields.update(me.fields)  # shallow: the attrs dict is shared until reassigned
            return c

        me.fields["copy"] = copy
        a = A(self=me, idx=SInt(z3.Int("new_patch_index")))
        a.attrs0 = me.fields["attrs"].snapshot()
        cx.ghost["iw"] = a
        return a

    def raises(self, cx, a):
        return {}

    def ensures(self, cx, a, res):
        if not isinstance(res, InfoObj) or res is a.self:
            return [("a-new-info-object", z3.BoolVal(False), "")]
        at = res.fields["attrs"]
        k = z3.String(fresh_name("ek"))
        pi = res.fields["patch_index"]
        return [
            ("same-kind-and-attribute-names-everything-at-the-new-index", z3.And(z3.BoolVal(res.fields["node_type"] == "the-node-type"), (pi.t if isinstance(pi, SInt) else z3.IntVal(pi)) == a.idx.t, z3.ForAll([k], z3.And(at.has(k) == a.attrs0.has(k), z3.Implies(at.has(k), at.get_term(k) == a.idx.t)))), "the copy has the same node type and the same attribute names; the node and every attribute now point at the given patch index"),
            ("original-not-modified", z3.And(a.self.fields["attrs"].same(cx, a.attrs0), a.self.fields["patch_index"].t == z3.Int("old_patch_index")), "the skeleton it was made from keeps its indices (the real record's manifest is not altered by making a stub)"),
        ]


# ---- IH5Skeleton.with_patch_index ---------------------------------------------------------------------------------------------------------------
class SkelWithIdx(FnSpec):
    file = "ih5/skeleton.py"
    qual = "IH5Skeleton.with_patch_index"
    props = ("C10",)

    def init(self):
        self.bindings["dict"] = dict_copy

        def inv(cx, env, it):
            a = cx.ghost["sw"]
            root = env["ret"].fields["__root__"]
            k = z3.String(fresh_name("sk"))
            return [
                ("same-paths", z3.ForAll([k], root.has(k) == a.root0.has(k))),
                ("entries-so-far-re-indexed-others-as-before", z3.ForAll([k], z3.Implies(root.has(k), root.get_term(k) == z3.If(z3.Select(it.processed, k), WITH_IDX(a.root0.get_term(k), a.idx.t), a.root0.get_term(k))))),
                ("original-untouched", a.self.fields["__root__"].same(cx, a.root0)),
            ]

        self.loops[0] = LoopSpec(inv, modifies=["k", "v"], havoc_inplace=["ret.__root__"])

    def setup(self, cx):
        me = SObj("IH5SkeletonObj", name="self")
        me.fields["__root__"] = SMap.fresh(STR, TInfo(), "skeleton")

        def copy(cx2):
            c = SObj("IH5SkeletonObj", name="ret")
            c.fields.update(me.fields)
            return c

        me.fields["copy"] = copy
        a = A(self=me, idx=SInt(z3.Int("new_patch_index")))
        a.root0 = me.fields["__root__"].snapshot()
        cx.ghost["sw"] = a
        return a

    def raises(self, cx, a):
        return {}

    def ensures(self, cx, a, res):
        if not isinstance(res, SObj) or res is a.self:
            return [("a-new-skeleton", z3.BoolVal(False), "")]
        root = res.fields["__root__"]
        k = z3.String(fresh_name("ek"))
        return [
            ("every-path-kept-and-re-indexed", z3.ForAll([k], z3.And(root.has(k) == a.root0.has(k), z3.Implies(root.has(k), root.get_term(k) == WITH_IDX(a.root0.get_term(k), a.idx.t)))), "the stub's skeleton has EVERY path of the real one, each re-indexed to the stub's single container"),
            ("original-not-modified", a.self.fields["__root__"].same(cx, a.root0), "the manifest's skeleton is not altered"),
        ]


# ---- SkeletonNodeInfo.for_node -------------------------------------------------------------------------------------------------------------------
IS_DATASET = z3.Bool("node_is_a_dataset")
PIDX = z3.Function("patch_index_of_container", I, I)  # node._record._ublock(cidx).patch_index
NODE_CIDX = z3.Int("creation_container_of_the_node")
ATTR_CIDX = z3.Function("container_holding_attribute", S, I)  # node.attrs._find(key)


def keys_map_schema(interp, cx, fr, e):
    """`{key: f(key) for key in <symbolic key set>}`: exactly those keys, each mapped by f (evaluated once on a generic key)"""
    if not isinstance(e, ast.DictComp) or len(e.generators) != 1 or e.generators[0].ifs:
        return NotImplemented
    g = e.generators[0]
    src = interp.eval(cx, fr, g.iter)
    if not isinstance(src, SSet):
        return NotImplemented
    if not (isinstance(g.target, ast.Name) and isinstance(e.key, ast.Name) and e.key.id == g.target.id):
        raise ContractStale("the attribute table is no longer built as {name: index of name}")
    kk = z3.Const(fresh_name("ak"), src.kt.sort())
    sub = Frame(fr.modinfo, fr.qual, Env(fr.env), spec=fr.spec, cls=fr.cls)
    vals, fails, axioms = interp.eval_exprs_on_element(cx, sub, g.target, src.kt.wrap(kk), [e.value], kk)
    if fails or axioms:
        raise Unsupported("the per-attribute expression may raise")
    res = SMap.fresh(STR, INT, "attr_table")
    cx.assume(z3.ForAll([kk], z3.And(res.has(kk) == src.has(kk), z3.Implies(src.has(kk), res.get_term(kk) == vals[0].t))))
    return res


class ForNode(FnSpec):
    file = "ih5/skeleton.py"
    qual = "SkeletonNodeInfo.for_node"
    props = ("C10",)

    def init(self):
        from pyvc.engine import SClass

        self.bindings["IH5Dataset"] = SClass("IH5Dataset")
        self.bindings["H5Type"] = type("HT", (SVal,), {"py_getattr": lambda s, cx, n: "type:" + n})()
        self.comps[0] = keys_map_schema

    def setup(self, cx):
        names = SSet.fresh(STR, "attribute_names_of_the_node")

        class Ub(SVal):
            def __init__(s, c):
                s.c = c

            def py_getattr(s, cx2, n):
                if n == "patch_index":
                    return SInt(PIDX(s.c))
                raise Unsupported("user block attribute " + n)

        class Rec(SVal):
            def meth__ublock(s, cx2, c):
                return Ub(c.t if isinstance(c, SInt) else z3.IntVal(c))

        class Attrs(SVal):
            def meth_keys(s, cx2):
                return names

            def meth__find(s, cx2, k):
                return SInt(ATTR_CIDX(k.t))

        class NodeArg(SVal):
            def py_isinstance(s, cx2, c):
                n = getattr(c, "name", c)
                if n == "IH5Dataset":
                    return IS_DATASET
                raise Unsupported(f"isinstance(node, {n})")

            def py_getattr(s, cx2, n):
                return {"_record": Rec(), "_cidx": SInt(NODE_CIDX), "attrs": Attrs()}[n] if n in ("_record", "_cidx", "attrs") else (_ for _ in ()).throw(Unsupported("node attribute " + n))

        class Cls(SVal):
            def py_call(s, cx2, **kw):
                return ("info", kw)

        a = A(cls=Cls(), node=NodeArg())
        a.names = names
        return a

    def raises(self, cx, a):
        return {}

    def ensures(self, cx, a, res):
        ok = isinstance(res, tuple) and res[0] == "info" and set(res[1]) == {"node_type", "patch_index", "attrs"} and isinstance(res[1]["attrs"], SMap) and isinstance(res[1]["patch_index"], SInt)
        if not ok:
            return [("a-node-info", z3.BoolVal(False), "")]
        kw = res[1]
        k = z3.String(fresh_name("fk"))
        at = kw["attrs"]
        return [
            ("kind-of-the-node", z3.BoolVal(kw["node_type"] == "type:dataset") == IS_DATASET if kw["node_type"] in ("type:dataset", "type:group") else z3.BoolVal(False), "a dataset node is recorded as dataset, anything else as group"),
            ("patch-index-of-the-container-it-comes-from", kw["patch_index"].t == PIDX(NODE_CIDX), "the node's index is the patch index (not the position in the file list) of the container holding it"),
            ("every-attribute-name-with-the-patch-index-of-its-container", z3.ForAll([k], z3.And(at.has(k) == a.names.has(k), z3.Implies(at.has(k), at.get_term(k) == PIDX(ATTR_CIDX(k))))), "EVERY attribute name of the node is listed, each with the patch index of the container that holds its current value"),
        ]


# ---- IH5Skeleton.for_record ---------------------------------------------------------------------------------------------------------------------
VISITED = z3.Function("node_is_visited_below_the_root", NodeS, B)
ROOT_N = z3.Const("root_node_of_the_record", NodeS)


class SkelDict(SVal):
    """skel: {"/": info(root)} grown by the visit callback: path -> info"""

    def __init__(self):
        self.visit_pred = None

    def entries(self, p):
        """the info stored under path p (as a relation): root entry or a visited node of that name"""


class NodeV2(SVal):
    def __init__(self, t):
        self.t = t

    def py_getattr(self, cx, n):
        if n == "name":
            return SStr(N_NAME(self.t))
        raise Unsupported("node attribute " + n)


class ForRecord(FnSpec):
    file = "ih5/skeleton.py"
    qual = "IH5Skeleton.for_record"
    props = ("C10",)

    def init(self):
        self.bindings["SkeletonNodeInfo"] = type("SNI", (SVal,), {"meth_for_node": lambda s, cx, n: InfoV(INFO_FOR(n.t))})()

    def setup(self, cx):
        spec = self

        class Rec(SVal):
            def py_getitem(s, cx2, k):
                if k != "/":
                    raise Unsupported("rec[...] other than the root")
                return NodeV2(ROOT_N)

            def meth_visititems(s, cx2, cb):
                # the callback must be `skel[node.name] = SkeletonNodeInfo.for_node(node)` on the dict built before
                if not isinstance(cb, Closure) or not isinstance(cb.node, ast.FunctionDef) or len(cb.node.args.args) != 2 or len(cb.node.body) != 1:
                    raise ContractStale("the visit callback is no longer one assignment")
                st = cb.node.body[0]
                pn = cb.node.args.args[1].arg
                if not (isinstance(st, ast.Assign) and len(st.targets) == 1 and isinstance(st.targets[0], ast.Subscript) and isinstance(st.targets[0].value, ast.Name)):
                    raise ContractStale("the visit callback does not assign into the skeleton dict")
                target = cb.env.lookup(st.targets[0].value.id)
                if not (isinstance(target, dict) and list(target.keys()) == ["/"]):
                    raise ContractStale("the skeleton dict does not start with exactly the root entry")
                n = z3.Const(fresh_name("vn"), NodeS)
                sub = Frame(cb.modinfo, spec.qual, Env(cb.env), spec=spec)
                sub.env.set(cb.node.args.args[0].arg, SStr(z3.String(fresh_name("vp"))))
                sub.env.set(pn, NodeV2(n))
                vals, fails, axioms = cx2.run.interp.eval_exprs_on_element(cx2, sub, None, None, [st.targets[0].slice, st.value], n)
                if fails or axioms:
                    raise Unsupported("the visit callback may raise")
                spec.summary = (target, n, vals[0], vals[1])

        a = A(cls=type("C", (SVal,), {"py_call": lambda s, cx2, **kw: ("skeleton", kw)})(), rec=Rec())
        self.summary = None
        return a

    def raises(self, cx, a):
        return {}

    def ensures(self, cx, a, res):
        ok = isinstance(res, tuple) and res[0] == "skeleton" and set(res[1]) == {"__root__"} and self.summary is not None and res[1]["__root__"] is self.summary[0]
        if not ok:
            return [("a-skeleton-of-the-visited-dict", z3.BoolVal(False), "the skeleton is the dict filled by the visit")]
        d, n, key, val = self.summary
        root = d["/"]
        return [
            ("root-entry", z3.BoolVal(isinstance(root, InfoV)) if not isinstance(root, InfoV) else root.t == INFO_FOR(ROOT_N), "the root group is recorded under '/'"),
            ("every-visited-node-under-its-name-with-its-info", z3.And(z3.BoolVal(isinstance(key, SStr) and isinstance(val, InfoV)), key.t == N_NAME(n) if isinstance(key, SStr) else z3.BoolVal(False), val.t == INFO_FOR(n) if isinstance(val, InfoV) else z3.BoolVal(False)), "each node the visit reaches is entered under its own path with the info computed for that very node (so the skeleton lists every group and dataset of the current view)"),
        ]


def add_skelinfo(reg):
    reg.set_class_home("SkeletonNodeInfoObj", "ih5/skeleton.py", "SkeletonNodeInfo")
    reg.set_class_home("IH5SkeletonObj", "ih5/skeleton.py", "IH5Skeleton")
    specs = [InfoWithIdx(), SkelWithIdx(), ForNode(), ForRecord()]
    return specs
