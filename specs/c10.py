"""C10 — patches built on a stub apply to the real record (P-tier: manifest commit protocol, extension inheritance)."""
from . import hashing, manifest, mfparts, overlay, record, skeleton, skelinfo


def build(reg):
    record.add_record_bindings(reg)
    specs = manifest.add_manifest(reg) + skeleton.add_skeleton(reg) + skeleton.add_skeleton_base(reg) + overlay.add_writers(reg) + mfparts.add_mfparts(reg) + skelinfo.add_skelinfo(reg)  # what a patch written on a stub records must not depend on hidden older containers
    from . import oneliners

    specs = specs + oneliners.add_oneliners(reg, props=("C10",))  # one- and two-line delegations, verified against what other contracts bind them to
    return {"verify": specs, "lemmas": [("stub-chain-continuation", lemma_stub)], "trusted": oneliners.T_ONE + hashing.TRUSTED + [manifest.T5_MF, record.T5_COPY] + skeleton.T_SKEL + mfparts.T_MFP + skelinfo.T_SKI, "assumptions": ["IH5Record.commit_patch is represented by its C02 contract (refuses with ValueError without effect, or commits the newest container)"]}


def lemma_stub():
    """a patch accepted on top of the stub's user block is accepted on top of the real newest block (same record uuid, patch uuid, index)"""
    import z3

    s = {"rec": z3.String("stub_rec"), "pu": z3.String("stub_pu"), "idx": z3.Int("stub_idx")}
    r = {"rec": z3.String("real_rec"), "pu": z3.String("real_pu"), "idx": z3.Int("real_idx")}
    p = {"rec": z3.String("p_rec"), "idx": z3.Int("p_idx"), "prev_none": z3.Bool("p_prev_none"), "prev": z3.String("p_prev")}
    same = z3.And(s["rec"] == r["rec"], s["pu"] == r["pu"], s["idx"] == r["idx"])  # create_stub copies the manifest's user block
    rej = lambda prev: z3.Or(p["rec"] != prev["rec"], p["idx"] <= prev["idx"], p["prev_none"], p["prev"] != prev["pu"])  # noqa: E731
    yield "patch-accepted-on-stub-iff-on-real", [same], rej(s) == rej(r)
