"""C18 — traversal order of a diff: DiffNode.nodes (removed children, modified children, the node itself, added children; each
category in path order, recursively) and the ordering lemmas that follow from that shape (what is removed below a node
comes before the node, what is added below it comes after)."""
from __future__ import annotations

import z3

from pyvc.api import A, FnSpec, LoopSpec
from pyvc.containers import MapValues, SMapHeapView, SRef
from pyvc.values import SInt, SVal, Unsupported, fresh_name

from . import c18 as M

Ref = M.Ref
RS = z3.SeqSort(Ref)  # python list of DiffNode objects, as a mathematical sequence
I = z3.IntSort()
EMPTY = z3.Empty(RS)

NODES = z3.Function("nodes_of", Ref, RS)  # the list x.nodes() returns (read-only on the diff, so a function of the node)
SORTED = z3.Function("values_sorted_by_path", M.NMAP.sort(), RS)  # sorted(d.values(), key=path) of a child dict
FLAT = z3.Function("nodes_of_the_first", RS, I, RS)  # FLAT(s, i) = nodes_of(s[0]) ++ ... ++ nodes_of(s[i-1])

T_ORDER = [
    "T4 sorted(xs, key=f) is the list of all of xs, each once, ascending in f (the key is read from the code: it must be the node's path)",
    "definition: nodes_of_the_first(s, 0) = [] and nodes_of_the_first(s, i+1) = nodes_of_the_first(s, i) ++ nodes_of(s[i]) (recursion on i; unfolded per instance)",
]


def bucket_seq(cx, r, kind):
    return SORTED(M.fld(cx, r, kind))


def nodes_shape(cx, r):
    """right-hand side of the definition of nodes_of(r): the property's order, spelled out"""
    sr, sm, sa = (bucket_seq(cx, r, k) for k in ("removed", "modified", "added"))
    return z3.Concat(FLAT(sr, z3.Length(sr)), FLAT(sm, z3.Length(sm)), z3.Unit(r), FLAT(sa, z3.Length(sa)))


class NodeList(SVal):
    """a python list of diff nodes (mutable: append and += act on this object)"""

    pytype = "list"

    def __init__(self, t):
        self.t = t

    def _elem(self, cx, v):
        if isinstance(v, SRef) and v.cls == "DiffNode":
            return v.t
        raise Unsupported("something other than a diff node in the node list")

    def meth_append(self, cx, v):
        self.t = z3.Concat(self.t, z3.Unit(self._elem(cx, v)))

    def py_add(self, cx, o):
        if isinstance(o, NodeList):
            return NodeList(z3.Concat(self.t, o.t))
        if isinstance(o, list):
            t = self.t
            for x in o:
                t = z3.Concat(t, z3.Unit(self._elem(cx, x)))
            return NodeList(t)
        raise Unsupported("node list + something else")

    def py_radd(self, cx, o):
        if isinstance(o, list):
            t = EMPTY
            for x in o:
                t = z3.Concat(t, z3.Unit(self._elem(cx, x)))
            return NodeList(z3.Concat(t, self.t))
        raise Unsupported("something else + node list")

    def py_len(self, cx):
        return SInt(z3.Length(self.t))

    def fresh_like(self, cx, hint="l"):
        return NodeList(z3.Const(fresh_name(hint), RS))

    def havoc_inplace(self, cx, hint="l"):
        self.t = z3.Const(fresh_name(hint), RS)


class SortedChildren(SVal):
    """sorted(d.values(), key=lambda x: x.path) for a child dict d of a node"""

    def __init__(self, kind, t):
        self.kind, self.t = kind, t

    @property
    def n(self):
        return z3.Length(self.t)

    def at(self, i):
        return SRef("DiffNode", self.t[i])

    def py_iter_schema(self, cx):
        from pyvc.containers import SeqIter

        return SeqIter(self)


class Nodes(FnSpec):
    file = "util/diff.py"
    qual = "DiffNode.nodes"
    props = ("C18",)
    recursive = True
    pure = True

    def init(self):
        self.bindings["sorted"] = self._sorted

        def inv(cx, env, it):
            a = cx.ghost["nd"]
            r = a.self.t
            b = env["b"]
            ret = env["ret"]
            if not isinstance(b, SMapHeapView) or not isinstance(ret, NodeList) or b.ref.t is not r and not z3.eq(b.ref.t, r):
                return [("loop-over-a-child-dict-of-this-node", z3.BoolVal(False))]
            s = bucket_seq(cx, r, b.field)
            sr, sm = bucket_seq(cx, r, "removed"), bucket_seq(cx, r, "modified")
            before = {"removed": EMPTY, "modified": FLAT(sr, z3.Length(sr)), "added": z3.Concat(FLAT(sr, z3.Length(sr)), FLAT(sm, z3.Length(sm)), z3.Unit(r))}[b.field]
            # definitional unfolding of FLAT at the current position (and its base case)
            cx.assume(FLAT(s, 0) == EMPTY)
            cx.assume(z3.Implies(z3.And(it.i >= 0, it.i < z3.Length(s)), FLAT(s, it.i + 1) == z3.Concat(FLAT(s, it.i), NODES(s[it.i]))))
            return [(f"collected-so-far:{b.field}", ret.t == z3.Concat(before, FLAT(s, it.i)))]

        self.loops[("iter", "sorted(b.values(), key=lambda x: x.path)")] = self.loops[1] = LoopSpec(inv, modifies=["v", "ret"])  # (also by position: another sort key is then judged by the obligation below, not as a stale contract)

    @staticmethod
    def _sorted(cx, it, key=None, reverse=False):
        from pyvc.engine import Closure

        if not isinstance(it, MapValues) or not isinstance(it.m, SMapHeapView) or it.m.field not in ("removed", "modified", "added"):
            raise Unsupported("sorted() of something else than the values of a child dict")
        probe = SRef.fresh("DiffNode", "sort_probe")
        ok = False
        if isinstance(key, Closure):
            try:
                kv = cx.run.interp.call_closure(cx, key, [probe], {})
                ok = isinstance(kv, M.PathV) and z3.eq(z3.simplify(kv.t), z3.simplify(M.fld(cx, probe.t, "path")))
            except Unsupported:
                ok = False
        ok = ok and reverse is False
        cx.oblige("children-sorted-by-their-path", "call-pre", z3.BoolVal(bool(ok)), clause="within one category the children are taken in the order of their paths")
        m = it.m
        return SortedChildren(m.field, SORTED(z3.Select(cx.heap_array(m.key, m.ft), m.ref.t)))

    def empty_container(self, cx, name, ann):
        return NodeList(EMPTY) if name == "ret" else None

    def setup(self, cx):
        for ax in M.axioms(light=True):
            cx.assume(ax)
        a = A(self=SRef.fresh("DiffNode", "node"))
        cx.ghost["nd"] = a
        a.heap0 = {f: M.H(cx, f) for f in M.FIELDS}
        return a

    def raises(self, cx, a):
        return {}

    def ensures(self, cx, a, res):
        if not isinstance(res, NodeList):
            return [("a-list-of-diff-nodes", z3.BoolVal(False), "")]
        same = z3.And(*[M.H(cx, f) == a.heap0[f] for f in M.FIELDS]) if all(M.H(cx, f) is not a.heap0[f] for f in M.FIELDS) else z3.BoolVal(all(M.H(cx, f) is a.heap0[f] for f in M.FIELDS))
        return [
            ("removed-then-modified-then-itself-then-added", res.t == nodes_shape(cx, a.self.t), "the list is: everything below the removed children (in path order), everything below the modified children (in path order), the node itself, everything below the added children (in path order)"),
            ("the-diff-is-only-read", same, "listing does not change the diff"),
        ]

    # callee side (the recursive call v.nodes()): the list of that node
    def apply(self, cx, a):
        if not isinstance(a.self, SRef):
            raise Unsupported("nodes() of something else than a diff node")
        return NodeList(NODES(a.self.t))


# ---- lemmas over the definition nodes_of(n) = shape(n) ---------------------------------------------------------------------------------------------
def lemma_order():
    """What the shape gives.  Stated for arbitrary sequences (N for nodes_of(n); FR, FM, FA for the removed / modified / added parts
    nodes_of_the_first(sorted children, all of them); Fi, F1 for nodes_of_the_first(s, i) and (s, i+1); K for the list nodes_of(c) of one child c),
    so each holds in particular for the instances the contract of DiffNode.nodes speaks about:
    a node is in its own list; nodes_of_the_first keeps the whole list of every child (induction on i: base, and the step in its two cases);
    hence everything listed for a removed or modified child lies, as one block, before the node, and everything listed for an added child after it."""
    n, c = z3.Consts("lo_n lo_c", Ref)
    N, FR, FM, FA, Fi, F1, K, Ki = z3.Consts("lo_N lo_FR lo_FM lo_FA lo_Fi lo_F1 lo_K lo_Ki", RS)
    defn = N == z3.Concat(FR, FM, z3.Unit(n), FA)
    yield "a-node-is-in-its-own-list", [defn], z3.Contains(N, z3.Unit(n))
    # (base: nodes_of_the_first(s, 0) concerns no child at all)
    yield "blocks-kept:step-earlier-child", [F1 == z3.Concat(Fi, Ki), z3.Contains(Fi, K)], z3.Contains(F1, K)
    yield "blocks-kept:step-this-child", [F1 == z3.Concat(Fi, Ki)], z3.Contains(F1, Ki)
    before = z3.Concat(FR, FM)
    own = z3.Contains(K, z3.Unit(c))  # a-node-is-in-its-own-list, for the child
    yield "removed-child-block-before-the-node", [defn, z3.Contains(FR, K), own], z3.And(N == z3.Concat(before, z3.Unit(n), FA), z3.Contains(before, K), z3.Contains(before, z3.Unit(c)))
    yield "modified-child-block-before-the-node", [defn, z3.Contains(FM, K), own], z3.And(N == z3.Concat(before, z3.Unit(n), FA), z3.Contains(before, K), z3.Contains(before, z3.Unit(c)))
    yield "added-child-block-after-the-node", [defn, z3.Contains(FA, K), own], z3.And(N == z3.Concat(before, z3.Unit(n), FA), z3.Contains(FA, K), z3.Contains(FA, z3.Unit(c)))
    yield "removed-part-before-modified-part-before-the-node", [defn], z3.And(z3.PrefixOf(FR, N), z3.PrefixOf(z3.Concat(FR, FM), N), z3.PrefixOf(z3.Concat(FR, FM, z3.Unit(n)), N))


def add_order(reg):
    s = Nodes()
    reg.add(s)
    return [s]


# ---- DirDiff.annotate: the ordered listing handed to the packers -----------------------------------------------------------------------------------
PathS = M.PathS
PSeq = z3.SeqSort(PathS)
B = z3.BoolSort()
PSTR = z3.Function("str_of_path", PathS, z3.StringSort())  # str(p)
MIDX = z3.Function("position_in_sorted_missing", PathS, I)

T_ANNOTATE = [
    "T2 pathlib: for relative paths p, q: base / str(p) == base / str(q) only if p == q (relative_to(base) gives p back)",
    "T4 sorted(a set) is the list of its elements, each once, ascending; a dict lists its entries in the order their keys were first inserted; assigning to an existing key keeps its position",
    "dir_paths(base_dir) is some set of relative paths (what is found below base_dir, T2 rglob/relative_to)",
]


class OrdDict(SVal):
    """a python dict with its insertion order: entries 0..n-1 with key (a path), value (a diff node or None); keys pairwise different"""

    pytype = "dict"

    def __init__(self, n, key, val, none):
        self.n, self.key, self.val, self.none = n, key, val, none

    @staticmethod
    def fresh(hint):
        return OrdDict(z3.Int(fresh_name(hint + "_n")), z3.Const(fresh_name(hint + "_key"), z3.ArraySort(I, PathS)), z3.Const(fresh_name(hint + "_val"), z3.ArraySort(I, Ref)), z3.Const(fresh_name(hint + "_none"), z3.ArraySort(I, B)))

    def havoc_inplace(self, cx, hint="d"):
        f = OrdDict.fresh(hint)
        self.n, self.key, self.val, self.none = f.n, f.key, f.val, f.none
        cx.assume(self.n >= 0)

    def entry_value(self, i):
        from pyvc.values import SMaybe

        return SMaybe(z3.Select(self.none, i), SRef("DiffNode", z3.Select(self.val, i)))

    def meth_items(self, cx):
        return OrdItems(self)

    def meth_keys(self, cx):
        return OrdKeys(self)

    def py_setitem(self, cx, k, v):
        if not isinstance(k, M.PathV):
            raise Unsupported("a key that is not a path")
        if v is None:
            none, vt = z3.BoolVal(True), z3.Const(fresh_name("noval"), Ref)
        elif isinstance(v, SRef):
            none, vt = z3.BoolVal(False), v.t
        else:
            raise Unsupported("a value that is neither a diff node nor None")
        i = z3.Int(fresh_name("sk_i"))
        if cx.decide(z3.Exists([i], z3.And(0 <= i, i < self.n, z3.Select(self.key, i) == k.t))):
            j = z3.Int(fresh_name("at_j"))
            cx.assume(z3.And(0 <= j, j < self.n, z3.Select(self.key, j) == k.t))
            self.val, self.none = z3.Store(self.val, j, vt), z3.Store(self.none, j, none)
        else:
            self.key, self.val, self.none = z3.Store(self.key, self.n, k.t), z3.Store(self.val, self.n, vt), z3.Store(self.none, self.n, none)
            self.n = self.n + 1


class OrdItems(SVal):
    def __init__(self, d):
        self.d = d


class OrdKeys(SVal):
    def __init__(self, d):
        self.d = d


class SortedPaths(SVal):
    def __init__(self, t):
        self.t = t

    @property
    def n(self):
        return z3.Length(self.t)

    def at(self, i):
        return M.PathV(self.t[i])

    def py_iter_schema(self, cx):
        from pyvc.containers import SeqIter

        return SeqIter(self)


def _one_generator(e, want_target):
    import ast

    if not isinstance(e, ast.DictComp) or len(e.generators) != 1 or e.generators[0].ifs or e.generators[0].is_async:
        return None
    g = e.generators[0]
    if want_target == 1 and isinstance(g.target, ast.Name):
        return g, [g.target.id]
    if want_target == 2 and isinstance(g.target, ast.Tuple) and len(g.target.elts) == 2 and all(isinstance(x, ast.Name) for x in g.target.elts):
        return g, [x.id for x in g.target.elts]
    return None


def _build_dict(interp, cx, fr, e, names, elems, n, ci, tag):
    """entries i in [0, n): key / value expressions of the comprehension evaluated for the i-th element (ci is the index they are stated over)"""
    from pyvc.engine import Env, Frame
    from pyvc.values import SMaybe

    sub = Frame(fr.modinfo, fr.qual, Env(fr.env), spec=fr.spec, cls=fr.cls)
    for nm, v in zip(names, elems):
        sub.env.set(nm, v)
    kv, vv = interp.eval(cx, sub, e.key), interp.eval(cx, sub, e.value)
    if not isinstance(kv, M.PathV):
        raise Unsupported("dict comprehension whose key is not a path")
    if vv is None:
        none_t, val_t = z3.BoolVal(True), z3.Const(fresh_name("noval"), Ref)
    elif isinstance(vv, SRef):
        none_t, val_t = z3.BoolVal(False), vv.t
    elif isinstance(vv, SMaybe) and isinstance(vv.val, SRef):
        none_t, val_t = vv.isnone, vv.val.t
    else:
        raise Unsupported("dict comprehension whose value is not a diff node")
    d = OrdDict.fresh(tag)
    rng = z3.And(0 <= ci, ci < n)
    cx.assume(d.n == n)
    cx.assume(z3.ForAll([ci], z3.Implies(rng, z3.And(z3.Select(d.key, ci) == kv.t, z3.Select(d.val, ci) == val_t, z3.Select(d.none, ci) == none_t))))
    cj = z3.Int(fresh_name("cj"))
    kj = z3.substitute(kv.t, (ci, cj))
    cx.oblige(f"keys-of-{tag}-pairwise-different", "call-pre", z3.ForAll([ci, cj], z3.Implies(z3.And(rng, 0 <= cj, cj < n, ci != cj), kv.t != kj)), clause="no two entries collapse into one key, so the dict has one entry per element, in the order of the elements")
    return d


def comp_by_path(interp, cx, fr, e):
    """{node.path: node for node in nodes}"""
    r = _one_generator(e, 1)
    if r is None:
        return NotImplemented
    g, names = r
    src = interp.eval(cx, fr, g.iter)
    if not isinstance(src, NodeList):
        return NotImplemented
    ci = z3.Int(fresh_name("ci"))
    return _build_dict(interp, cx, fr, e, names, [SRef("DiffNode", src.t[ci])], z3.Length(src.t), ci, "path_nodes")


def comp_prefixed(interp, cx, fr, e):
    """{base_dir / str(k): v for k, v in path_nodes.items()}"""
    r = _one_generator(e, 2)
    if r is None:
        return NotImplemented
    g, names = r
    src = interp.eval(cx, fr, g.iter)
    if not isinstance(src, OrdItems):
        return NotImplemented
    d = src.d
    ci = z3.Int(fresh_name("ci"))
    return _build_dict(interp, cx, fr, e, names, [M.PathV(z3.Select(d.key, ci)), d.entry_value(ci)], d.n, ci, "prefixed")


class Annotate(FnSpec):
    file = "util/diff.py"
    qual = "DirDiff.annotate"
    props = ("C18",)

    def init(self):
        from pyvc.containers import SSet
        from pyvc.values import SStr

        self.comps[0] = comp_by_path
        self.comps[1] = comp_prefixed

        def _str(cx, v=""):
            if isinstance(v, M.PathV):
                return SStr(PSTR(v.t))
            raise Unsupported("str() of something else than a path")

        def _set(cx, v):
            if isinstance(v, SSet):
                return v
            if isinstance(v, OrdKeys):  # the set of keys of an ordered dict
                d = v.d
                ks = SSet.fresh(M.TP(), "key_set")
                kidx = z3.Function(fresh_name("position_of_key"), PathS, I)
                i = z3.Int(fresh_name("ki"))
                p = z3.Const(fresh_name("kp"), PathS)
                cx.assume(z3.ForAll([i], z3.Implies(z3.And(0 <= i, i < d.n), ks.has(z3.Select(d.key, i)))))
                cx.assume(z3.ForAll([p], z3.Implies(ks.has(p), z3.And(0 <= kidx(p), kidx(p) < d.n, z3.Select(d.key, kidx(p)) == p))))
                return ks
            raise Unsupported("set() of something else")

        def _sorted(cx, s, **kw):
            a = cx.ghost["an"]
            if kw or not isinstance(s, SSet):
                raise Unsupported("sorted() of something else than a set of paths")
            ms = z3.Const(fresh_name("missing_sorted"), PSeq)
            i = z3.Int(fresh_name("mi"))
            p = z3.Const(fresh_name("mp"), PathS)
            rng = z3.And(0 <= i, i < z3.Length(ms))
            cx.assume(z3.ForAll([i], z3.Implies(rng, z3.And(s.has(ms[i]), MIDX(ms[i]) == i))))  # T4: elements of the set, each once
            cx.assume(z3.ForAll([p], z3.Implies(s.has(p), z3.And(0 <= MIDX(p), MIDX(p) < z3.Length(ms), ms[MIDX(p)] == p))))  # T4: all of them
            a.missing = ms
            return SortedPaths(ms)

        self.bindings["str"] = _str
        self.bindings["set"] = _set
        self.bindings["sorted"] = _sorted
        self.bindings["dir_paths"] = lambda cx, b: cx.ghost["an"].dir_paths

        def inv(cx, env, it):
            a = cx.ghost["an"]
            ret = env["ret"]
            if not isinstance(ret, OrdDict) or getattr(a, "missing", None) is None:
                return [("appending-to-the-listing", z3.BoolVal(False))]
            return self.listing(cx, a, ret, it.i, "inv")

        self.loops[0] = LoopSpec(inv, modifies=["path", "ret"])

    @staticmethod
    def listing(cx, a, d, k, tag):
        """d lists the diff's nodes in nodes() order, then the first k missing paths, all under base_dir"""
        N, ms, base = NODES(a.root), a.missing, a.base
        ln = z3.Length(N)
        i = z3.Int(fresh_name(tag + "_i"))
        pre = lambda p: M.PJ(base, PSTR(p))  # noqa: E731
        return [
            ("length", d.n == ln + k),
            ("first-the-nodes-of-the-diff-in-traversal-order", z3.ForAll([i], z3.Implies(z3.And(0 <= i, i < ln), z3.And(z3.Select(d.key, i) == pre(M.fld(cx, N[i], "path")), z3.Not(z3.Select(d.none, i)), z3.Select(d.val, i) == N[i])))),
            ("then-the-unchanged-paths-with-None", z3.ForAll([i], z3.Implies(z3.And(ln <= i, i < ln + k), z3.And(z3.Select(d.key, i) == pre(ms[i - ln]), z3.Select(d.none, i))))),
        ]

    def setup(self, cx):
        from pyvc.containers import SObj, SSet

        for ax in M.axioms(light=True):
            cx.assume(ax)
        me = SObj("DirDiff", name="self")
        a = A(self=me, base_dir=M.PathV(z3.Const("base_dir", PathS)))
        a.base = a.base_dir.t
        a.has_root = cx.choose(2) == 1
        a.missing = None
        if not a.has_root:
            me.fields["_diff_root"] = None
            cx.ghost["an"] = a
            return a
        rt = SRef.fresh("DiffNode", "root")
        me.fields["_diff_root"] = rt
        a.root = rt.t
        N = NODES(a.root)
        i, j = z3.Ints("un_i un_j")
        p, q = z3.Consts("un_p un_q", PathS)
        path = lambda x: M.fld(cx, x, "path")  # noqa: E731
        # one node per path (DiffNode.compare: children sit at parent/name, names are different within a directory)
        cx.assume(z3.ForAll([i, j], z3.Implies(z3.And(0 <= i, i < z3.Length(N), 0 <= j, j < z3.Length(N), i != j), path(N[i]) != path(N[j]))))
        cx.assume(z3.ForAll([p, q], z3.Implies(M.PJ(a.base, PSTR(p)) == M.PJ(a.base, PSTR(q)), p == q)))  # T2
        a.dir_paths = SSet.fresh(M.TP(), "paths_below_base_dir")
        a.diff_paths = SSet.fresh(M.TP(), "paths_of_the_diff")
        DIDX = z3.Function("position_in_nodes", PathS, I)
        cx.assume(z3.ForAll([i], z3.Implies(z3.And(0 <= i, i < z3.Length(N)), a.diff_paths.has(path(N[i])))))
        cx.assume(z3.ForAll([p], z3.Implies(a.diff_paths.has(p), z3.And(0 <= DIDX(p), DIDX(p) < z3.Length(N), path(N[DIDX(p)]) == p))))
        cx.ghost["an"] = a
        return a

    def annotated_value(self, cx, name, ann, v):
        return None

    def raises(self, cx, a):
        return {}

    def ensures(self, cx, a, res):
        if not a.has_root:
            return [("an-empty-diff-lists-nothing", z3.BoolVal(res == {}), "")]
        if not isinstance(res, OrdDict) or a.missing is None:
            return [("an-ordered-listing", z3.BoolVal(False), "")]
        p = z3.Const(fresh_name("ep"), PathS)
        out = [(nm, g, "the listing has, in this order: every node of the diff under base_dir/<its path> in the order of nodes() (removed below a node first, the node, added below it last), then every path found below base_dir that the diff does not mention, with None") for nm, g in self.listing(cx, a, res, z3.Length(a.missing), "ens")]
        i = z3.Int(fresh_name("ei"))
        ms = a.missing
        want = lambda x: z3.And(a.dir_paths.has(x), z3.Not(a.diff_paths.has(x)))  # noqa: E731
        out.append(("unchanged-only-paths-below-base-dir-not-in-the-diff", z3.ForAll([i], z3.Implies(z3.And(0 <= i, i < z3.Length(ms)), want(ms[i]))), "None is listed only for what exists below base_dir and is not part of the diff"))
        out.append(("unchanged-all-paths-below-base-dir-not-in-the-diff", z3.ForAll([p], z3.Implies(want(p), z3.And(0 <= MIDX(p), MIDX(p) < z3.Length(ms), ms[MIDX(p)] == p))), "and for all of it (at the position the sorted order gives it)"))
        return out


def add_annotate(reg):
    s = Annotate()
    reg.add(s)
    return [s]
