"""The guards every IH5 writer rests on (C02: nothing but the newest, uncommitted container is ever written; C01/C09):
IH5Record._has_writable, IH5Node._last_idx / _is_read_only / _guard_open / _guard_read_only, and the dataset node:
IH5Dataset.__getitem__ / __setitem__ / copy_into_patch."""
from __future__ import annotations

import z3

from pyvc.api import A, FnSpec
from pyvc.containers import SObj
from pyvc.values import SBool, SInt, SStr, SVal, Unsupported

S, B, I = z3.StringSort(), z3.BoolSort(), z3.IntSort()
NFILES = z3.Int("number_of_open_containers")
FILE_OPEN = z3.Function("container_file_is_open", I, B)  # bool(h5py.File)
FILE_MODE = z3.Function("container_file_mode", I, S)

T_GUARDS = ["T1 h5py: bool(file) tells whether the file object is open; file.mode is 'r' or 'r+'; all(map(bool, files)) holds iff every file is open"]


class FileTok(SVal):
    def __init__(self, i):
        self.i = i

    def py_truth(self, cx):
        return FILE_OPEN(self.i)

    def py_getattr(self, cx, n):
        if n == "mode":
            return SStr(FILE_MODE(self.i))
        raise Unsupported("file attribute " + n)


class FilesTok(SVal):
    def py_truth(self, cx):
        return NFILES > 0

    def py_len(self, cx):
        return SInt(NFILES)

    def py_getitem(self, cx, i):
        if isinstance(i, int) and not isinstance(i, bool):
            cx.decide_or_fail(NFILES > i if i >= 0 else NFILES >= -i, "IndexError", "list index out of range")
            return FileTok(z3.IntVal(i) if i >= 0 else NFILES + i)
        raise Unsupported("another index into the file list")


ALL_OPEN = z3.Bool("every_container_file_is_open")


class HasWritable(FnSpec):
    file = "ih5/record.py"
    qual = "IH5Record._has_writable"
    props = ("C02", "C11")

    def setup(self, cx):
        me = SObj("IH5RecordFiles", name="self")
        me.fields["__files__"] = FilesTok()
        cx.assume(NFILES >= 0)
        return A(self=me)

    def raises(self, cx, a):
        return {}

    def ensures(self, cx, a, res):
        rt = res.t if isinstance(res, SBool) else z3.BoolVal(res) if isinstance(res, bool) else None
        if rt is None:
            return [("a-truth-value", z3.BoolVal(False), "")]
        last = NFILES + (-1)
        return [("writable-iff-the-newest-container-is-open-for-writing", rt == z3.And(NFILES > 0, FILE_OPEN(last), FILE_MODE(last) == z3.StringVal("r+")), "a record counts as writable exactly when it has containers, the NEWEST one is open and in mode r+ — older containers never make it writable")]


def node(cx, cls="IH5NodeObj"):
    me = SObj(cls, name="self")
    return me


class LastIdx(FnSpec):
    file = "ih5/overlay.py"
    qual = "IH5Node._last_idx"
    props = ("C02",)

    def setup(self, cx):
        me = node(cx)
        me.fields["_files"] = FilesTok()
        return A(self=me)

    def raises(self, cx, a):
        return {}

    def ensures(self, cx, a, res):
        return [("index-of-the-newest-container", z3.BoolVal(False) if not isinstance(res, SInt) else res.t == NFILES - 1, "")]


class IsReadOnly(FnSpec):
    file = "ih5/overlay.py"
    qual = "IH5Node._is_read_only"
    props = ("C02",)

    def setup(self, cx):
        me = node(cx)
        rec = SObj("RecordTok", name="record")
        rec.fields["_has_writable"] = SBool(z3.Bool("record_has_writable"))
        me.fields["_record"] = rec
        return A(self=me)

    def raises(self, cx, a):
        return {}

    def ensures(self, cx, a, res):
        rt = res.t if isinstance(res, SBool) else z3.BoolVal(res) if isinstance(res, bool) else None
        return [("read-only-iff-the-record-has-no-writable-container", z3.BoolVal(False) if rt is None else rt == z3.Not(z3.Bool("record_has_writable")), "")]


class GuardReadOnly(FnSpec):
    file = "ih5/overlay.py"
    qual = "IH5Node._guard_read_only"
    props = ("C02",)

    def setup(self, cx):
        me = node(cx)
        me.fields["_is_read_only"] = SBool(z3.Bool("node_is_read_only"))
        return A(self=me)

    def raises(self, cx, a):
        return {"ValueError": z3.Bool("node_is_read_only")}


class GuardOpen(FnSpec):
    file = "ih5/overlay.py"
    qual = "IH5Node._guard_open"
    props = ("C02", "C03")

    def setup(self, cx):
        class NodeObj(SObj):
            def py_truth(s, cx2):  # IH5Node.__bool__ (its own contract below)
                return z3.Bool("node_is_usable")

        return A(self=NodeObj("IH5NodeObj", name="self"))

    def raises(self, cx, a):
        return {"KeyError": z3.Not(z3.Bool("node_is_usable"))}


class NodeBool(FnSpec):
    file = "ih5/overlay.py"
    qual = "IH5Node.__bool__"
    props = ("C02", "C03")

    def init(self):
        self.bindings["all"] = lambda cx, x: SBool(ALL_OPEN) if x == ("map", "bool", "files") else (_ for _ in ()).throw(Unsupported("all() of something else"))
        self.bindings["map"] = lambda cx, f, x: ("map", "bool", "files") if f == "bool-builtin" and isinstance(x, FilesTok) else (_ for _ in ()).throw(Unsupported("map of something else"))

        def _bool(cx, x):
            from pyvc.values import truth

            return SBool(truth(cx, x)) if not isinstance(truth(cx, x), bool) else truth(cx, x)

        class BoolBuiltin(SVal):
            def py_call(s, cx, x):
                return _bool(cx, x)

            def __eq__(s, o):
                return o == "bool-builtin"

            def __hash__(s):
                return hash("bool-builtin")

        self.bindings["bool"] = BoolBuiltin()

    def setup(self, cx):
        me = node(cx)
        me.fields["_files"] = FilesTok()
        cx.assume(NFILES >= 0)
        return A(self=me)

    def raises(self, cx, a):
        return {}

    def ensures(self, cx, a, res):
        rt = res.t if isinstance(res, SBool) else z3.BoolVal(res) if isinstance(res, bool) else None
        return [("usable-iff-there-are-containers-and-all-are-open", z3.BoolVal(False) if rt is None else rt == z3.And(NFILES > 0, ALL_OPEN), "a node of a closed record (no files, or a closed file) is not usable — every access then fails in _guard_open")]


# ---- IH5Dataset ---------------------------------------------------------------------------------------------------------------------------------------------
CIDX = z3.Int("container_index_the_dataset_node_was_found_in")


class DsFiles(SVal):
    """self._files of a dataset node: reads and writes are logged with the container index they go to"""

    def py_len(self, cx):
        return SInt(NFILES)

    def py_getitem(self, cx, i):
        if i == -1:
            return DsFile(NFILES - 1)
        if isinstance(i, SInt):
            return DsFile(i.t)
        raise Unsupported("another index into the file list")


class DsFile(SVal):
    def __init__(self, i):
        self.i = i

    def py_getitem(self, cx, p):
        cx.effect("open-node", self.i, p)
        return DsRaw(self.i, p)

    def py_setitem(self, cx, p, v):
        cx.effect("write-node", self.i, p, v)


class DsRaw(SVal):
    def __init__(self, i, p):
        self.i, self.p = i, p

    def py_getitem(self, cx, k):
        cx.effect("read-data", self.i, self.p, k)
        return ("data", self.i, self.p, k)

    def py_setitem(self, cx, k, v):
        cx.effect("write-data", self.i, self.p, k, v)


def ds_obj(cx):
    class DsObj(SObj):
        def py_getitem(s, cx2, k):  # self[()] — IH5Dataset.__getitem__ by its contract
            if cx2.decide(z3.Not(z3.Bool("node_is_usable"))):
                cx2.py_raise("KeyError", "Record is not open or accessible!")
            cx2.effect("read-own-value", k)
            return ("own-value", k)

    me = DsObj("IH5DatasetObj", name="self")
    me.fields["_files"] = DsFiles()
    me.fields["_gpath"] = SStr(z3.String("gpath"))
    me.fields["_cidx"] = SInt(CIDX)
    me.fields["_last_idx"] = SInt(NFILES - 1)
    me.fields["_guard_open"] = lambda cx2: cx2.py_raise("KeyError", "Record is not open or accessible!") if cx2.decide(z3.Not(z3.Bool("node_is_usable"))) else None
    me.fields["_guard_read_only"] = lambda cx2: cx2.py_raise("ValueError", "Create a patch") if cx2.decide(z3.Bool("node_is_read_only")) else None
    me.fields["_guard_value"] = lambda cx2, v: cx2.py_raise("ValueError", "forbidden value") if cx2.decide(z3.Bool("value_is_forbidden")) else None
    return me


def writes(cx):
    return [e for e in cx.fx if e[0].startswith("write")]


class DsGetitem(FnSpec):
    file = "ih5/overlay.py"
    qual = "IH5Dataset.__getitem__"
    props = ("C01", "C02", "C09")

    def setup(self, cx):
        cx.assume(z3.And(NFILES >= 1, 0 <= CIDX, CIDX < NFILES))
        return A(self=ds_obj(cx), key="the-index")

    def raises(self, cx, a):
        return {"KeyError": z3.Not(z3.Bool("node_is_usable"))}

    def on_raise(self, cx, a, exc):
        return [("nothing-touched", z3.BoolVal(not cx.fx), "")]

    def ensures(self, cx, a, res):
        g = a.self.fields["_gpath"]
        fx = [e[:-1] for e in cx.fx]
        ok = len(fx) == 2 and fx[0][0] == "open-node" and fx[0][2] is g and fx[1][0] == "read-data" and fx[1][2] is g and fx[1][3] == "the-index" and isinstance(res, tuple) and res[0] == "data"
        return [("read-from-the-container-the-node-was-found-in", z3.BoolVal(False) if not ok else z3.And(fx[0][1] == CIDX, fx[1][1] == CIDX), "a dataset node reads its data at its own path from the container it was resolved to (the newest one holding it) and writes nothing")]


class DsSetitem(FnSpec):
    file = "ih5/overlay.py"
    qual = "IH5Dataset.__setitem__"
    props = ("C02", "C01", "C09")

    def setup(self, cx):
        cx.assume(z3.And(NFILES >= 1, 0 <= CIDX, CIDX < NFILES))
        return A(self=ds_obj(cx), key="the-index", val="the-value")

    def raises(self, cx, a):
        return {"KeyError": z3.Not(z3.Bool("node_is_usable")), "ValueError": z3.Or(z3.Bool("node_is_read_only"), CIDX != NFILES - 1, z3.Bool("value_is_forbidden"))}

    def on_raise(self, cx, a, exc):
        return [("refused-without-a-write", z3.BoolVal(not writes(cx)), "a closed or read-only record, a dataset living in an older (committed) container and a forbidden value are refused before anything is written")]

    def ensures(self, cx, a, res):
        g = a.self.fields["_gpath"]
        w = [e[:-1] for e in writes(cx)]
        ok = len(w) == 1 and w[0][0] == "write-data" and w[0][2] is g and w[0][3] == "the-index" and w[0][4] == "the-value"
        return [("in-place-only-in-the-newest-uncommitted-container", z3.BoolVal(False) if not ok else z3.And(w[0][1] == NFILES - 1, CIDX == NFILES - 1, z3.Not(z3.Bool("node_is_read_only"))), "data is changed in place only when the dataset lives in the newest container of a record that has an uncommitted patch — a committed container is never written")]


class DsCopyIntoPatch(FnSpec):
    file = "ih5/overlay.py"
    qual = "IH5Dataset.copy_into_patch"
    props = ("C02", "C01")

    def setup(self, cx):
        cx.assume(z3.And(NFILES >= 1, 0 <= CIDX, CIDX < NFILES))
        return A(self=ds_obj(cx))

    def raises(self, cx, a):
        return {"KeyError": z3.Not(z3.Bool("node_is_usable")), "ValueError": z3.Or(z3.Bool("node_is_read_only"), CIDX == NFILES - 1)}

    def on_raise(self, cx, a, exc):
        return [("refused-without-a-write", z3.BoolVal(not writes(cx)), "")]

    def ensures(self, cx, a, res):
        g = a.self.fields["_gpath"]
        w = [e[:-1] for e in writes(cx)]
        ok = len(w) == 1 and w[0][0] == "write-node" and w[0][2] is g and w[0][3] == ("own-value", ())
        return [("the-whole-current-value-is-written-into-the-newest-container-only", z3.BoolVal(False) if not ok else z3.And(w[0][1] == NFILES - 1, CIDX != NFILES - 1), "the copy writes the dataset's current value (self[()]) at the same path into the newest, uncommitted container; the older container is only read")]


def add_ovlguards(reg, datasets=True):
    reg.set_class_home("IH5RecordFiles", "ih5/record.py", "IH5Record")
    reg.set_class_home("IH5NodeObj", "ih5/overlay.py", "IH5Node")
    reg.set_class_home("IH5DatasetObj", "ih5/overlay.py", "IH5Dataset")
    specs = [HasWritable(), LastIdx(), IsReadOnly(), GuardReadOnly(), GuardOpen(), NodeBool()]
    if datasets:
        specs += [DsGetitem(), DsSetitem(), DsCopyIntoPatch()]
    return specs  # bodies verified on their own; callers keep the bindings they have for these guards
