"""C19 — directory hashsums identify directory content (P-tier: hashing kernel; whole-tree walk is bounded)."""
from . import dirhash, hashing, packerpg


def build(reg):
    specs = hashing.add_all(reg) + dirhash.add_dirhash(reg)
    specs += [x for x in packerpg.add_packerpg(reg) if 'C19' in x.props]  # where the hashsums go: recorded in the container for the packed directory
    return {"verify": specs, "lemmas": [], "trusted": hashing.TRUSTED + dirhash.T_DIR + dirhash.T_LINK + packerpg.T_PACKER, "assumptions": ["bytes modelled as z3 strings over code points 0..255"]}
