"""C19 — directory hashsums identify directory content (P-tier: hashing kernel; whole-tree walk is bounded)."""
from . import hashing


def build(reg):
    specs = hashing.add_all(reg)
    return {"verify": specs, "lemmas": [], "trusted": hashing.TRUSTED, "assumptions": ["bytes modelled as z3 strings over code points 0..255"]}
