"""C19 — directory hashsums identify directory content (P-tier: hashing kernel; whole-tree walk is bounded)."""
from . import dirhash, hashing


def build(reg):
    specs = hashing.add_all(reg) + dirhash.add_dirhash(reg)
    return {"verify": specs, "lemmas": [], "trusted": hashing.TRUSTED + dirhash.T_DIR + dirhash.T_LINK, "assumptions": ["bytes modelled as z3 strings over code points 0..255"]}
