"""schema/core.py check_allowed_types and schema/decorators.py override: what a schema class must satisfy before it is used (C13, C14)."""
from __future__ import annotations

import z3

from pyvc.api import A, FnSpec, LoopSpec
from pyvc.containers import STR, SMap, SetIter
from pyvc.values import SBool, SMaybe, SStr, STuple, SVal, Unsupported, fresh_name

S, B = z3.StringSort(), z3.BoolSort()
Hint = z3.DeclareSort("TypeHint")
PUBLIC = z3.Function("is_public_name", S, B)
MERGEABLE = z3.Function("is_mergeable_type", Hint, B)  # partial.py (bounded there)
HAS_UNDEF = z3.Function("hint_mentions_a_version_unspecified_plugin_class", Hint, B)

T_SCHK = ["T4 next(filter(p, filter(q, xs)), None) is the first x of xs passing q and p, or None; traverse_typehint(h) lists every type mentioned in h (util/typing.py, bounded)"]


class THint:
    def sort(self):
        return Hint

    def wrap(self, t):
        return HintV(t)

    def unwrap(self, cx, v):
        return v.t


class HintV(SVal):
    def __init__(self, t):
        self.t = t


class CheckAllowedTypes(FnSpec):
    file = "schema/core.py"
    qual = "check_allowed_types"
    props = ("C14", "C13")

    def init(self):
        self.bindings["cast"] = lambda cx, t, v: v
        self.bindings["Any"] = "Any"
        self.bindings["type"] = "type-builtin"
        self.bindings["UndefVersion"] = "UndefVersion-class"
        self.bindings["is_public_name"] = lambda cx, n: SBool(PUBLIC(n.t))
        self.bindings["is_mergeable_type"] = lambda cx, h: SBool(MERGEABLE(h.t))
        self.bindings["traverse_typehint"] = lambda cx, h: ("types-in", h)
        self.bindings["is_instance_of"] = lambda cx, t: ("instance-of", t)
        self.bindings["is_subclass_of"] = lambda cx, t: ("subclass-of", t)
        self.bindings["filter"] = lambda cx, p, xs: ("filter", p, xs)

        def _next(cx, it, *d):
            ok = d == (None,) and isinstance(it, tuple) and it[0] == "filter" and it[1] == ("subclass-of", "UndefVersion-class") and isinstance(it[2], tuple) and it[2][0] == "filter" and it[2][1] == ("instance-of", "type-builtin") and isinstance(it[2][2], tuple) and it[2][2][0] == "types-in" and isinstance(it[2][2][1], HintV)
            if not ok:
                raise Unsupported("another search than: first class in the hint that is marked version-unspecified")
            return SMaybe(z3.Not(HAS_UNDEF(it[2][2][1].t)), "the-illegal-class")

        self.bindings["next"] = _next

        def inv(cx, env, it):
            a = cx.ghost["cat"]
            k = z3.String(fresh_name("ik"))
            return [("fields-seen-so-far-are-fine", z3.ForAll([k], z3.Implies(z3.Select(it.processed, k), self.fine(a, k))))]

        self.loops[0] = LoopSpec(inv, modifies=["field", "hint", "illegal", "msg"])

    @staticmethod
    def fine(a, k):
        h = a.hints.get_term(k)
        return z3.Or(z3.Not(PUBLIC(k)), z3.And(MERGEABLE(h), z3.Not(HAS_UNDEF(h))))

    def setup(self, cx):
        hints = SMap.fresh(STR, THint(), "typehints")

        class Schema(SVal):
            def py_getattr(s, cx2, n):
                if n == "_typehints":
                    return hints
                raise Unsupported("schema attribute " + n)

        a = A(schema=Schema())
        a.hints = hints
        cx.ghost["cat"] = a
        return a

    def raises(self, cx, a):
        k = z3.String(fresh_name("rk"))
        return {"TypeError": z3.Exists([k], z3.And(a.hints.has(k), z3.Not(self.fine(a, k))))}

    def ensures(self, cx, a, res):
        k = z3.String(fresh_name("ek"))
        return [("every-public-field-has-a-mergeable-type-without-version-unspecified-classes", z3.ForAll([k], z3.Implies(a.hints.has(k), self.fine(a, k))), "a schema passes only if EVERY public field's type is of mergeable shape (so partial merging is defined for it, C14) and mentions no plugin class that was obtained without a version")]


# ---- override(...) -------------------------------------------------------------------------------------------------------------------------------------------------
class AddOverrides(FnSpec):
    file = "schema/decorators.py"
    qual = "override.<locals>.add_overrides"
    props = ("C13",)

    def init(self):
        self.bindings["_expect_schema_class"] = lambda cx, c: cx.effect("expect-schema-class", c)
        self.bindings["names"] = ("field_a", "field_b")
        self.bindings["set"] = lambda cx, x: set(x)

    def setup(self, cx):
        class Ov(SVal):
            def meth_update(s, cx2, new):
                cx2.effect("overrides-update", frozenset(new) if isinstance(new, (set, frozenset)) else new)

        class Mcls(SVal):
            def py_getattr(s, cx2, n):
                if n == "__overrides__":
                    return Ov()
                raise Unsupported("class attribute " + n)

        return A(mcls=Mcls())

    def raises(self, cx, a):
        return {}

    def ensures(self, cx, a, res):
        fx = [e[:-1] for e in cx.fx]
        return [("exactly-the-named-fields-are-declared-overridden-on-that-class", z3.BoolVal(fx == [("expect-schema-class", a.mcls), ("overrides-update", frozenset({"field_a", "field_b"}))] and res is a.mcls), "@override(names) adds exactly these names to the class's own __overrides__ (after checking it is a schema class) — only for them check_overrides skips the subtype test")]


class Override(FnSpec):
    file = "schema/decorators.py"
    qual = "override"
    props = ("C13",)

    def init(self):
        self.bindings["_check_names_public"] = lambda cx, names: cx.effect("check-names-public", tuple(names))

    def setup(self, cx):
        return A(__varargs__=["field_a", "field_b"])

    def raises(self, cx, a):
        return {}

    def ensures(self, cx, a, res):
        from pyvc.engine import Closure

        fx = [e[:-1] for e in cx.fx]
        return [("names-checked-then-the-decorator", z3.BoolVal(fx == [("check-names-public", ("field_a", "field_b"))] and isinstance(res, Closure) and res.name.endswith("add_overrides")), "the names are checked to be public field names before the class decorator is handed out")]


def add_schemachecks(reg):
    return [CheckAllowedTypes(), AddOverrides(), Override()]
