"""Contracts for embedding files — C17: packer/utils.py (_h5_wrap_bytes, pack_file), harvester/common.py (FileMetaHarvester.run)."""
from __future__ import annotations

import z3

from pyvc.api import A, FnSpec
from pyvc.containers import SObj
from pyvc.engine import SClass
from pyvc.values import SBool, SInt, SMaybe, SStr, SVal, Unsupported, fresh_name

from . import hashing
from .common_io import DISK, HEX, BytesVal, PathVal, open_binding, path_term

S, B, I = z3.StringSort(), z3.BoolSort(), z3.IntSort()
ALL_NUL = z3.Function("all_bytes_are_zero", S, B)
BASENAME = z3.Function("path_basename", S, S)
IS_FILE = z3.Function("is_regular_file", S, B)
MIME = z3.Function("libmagic_mime_type", S, S)
TARGET_EXISTS = z3.Function("target_exists_in_node", S, B)
QUOTE = z3.Function("urllib_quote", S, S)
LSTAT_SIZE = z3.Function("lstat_size_of_directory_entry", S, I)

T_PACK = [
    "T8 numpy: numpy.void(bs) is a scalar holding exactly the bytes bs; its truth value is False exactly when all bytes are zero; h5py.Empty('b') is the empty value",
    "T2 pathlib/os: path.read_bytes() and open(path,'rb') give the file's bytes, path.stat().st_size their number, path.name the last component, path.is_file() whether it is a regular file",
    "libmagic (mime type), urllib.parse.quote, harvest()/harvesters registry and MetadorDataset.meta are opaque here; node.create_dataset / ret.meta[...] are call-logging stubs (their contracts: C08/C07 specs)",
]


class VoidVal(SVal):
    """numpy.void(bs)"""

    def __init__(self, bytes_t):
        self.bytes_t = bytes_t

    def py_truth(self, cx):
        return z3.Not(ALL_NUL(self.bytes_t))  # numpy: a void scalar of zero bytes only is falsy


class EmptyVal(SVal):
    def __init__(self, dt):
        self.dt = dt

    def py_truth(self, cx):
        return True


class NumpyMod(SVal):
    def py_getattr(self, cx, name):
        if name == "void":
            return lambda cx2, b: VoidVal(b.t)
        raise Unsupported("numpy." + name)


class H5Mod(SVal):
    def py_getattr(self, cx, name):
        if name == "Empty":
            return lambda cx2, dt=None: EmptyVal(dt)
        raise Unsupported("h5py." + name)


class WrapBytes(FnSpec):
    file = "packer/utils.py"
    qual = "_h5_wrap_bytes"
    props = ("C17",)

    def init(self):
        self.bindings["numpy"] = NumpyMod()
        self.bindings["h5py"] = H5Mod()

    def setup(self, cx):
        return A(bs=BytesVal(z3.String("bs")))

    def result(self, cx, a):
        return WrappedBytes(a.bs.t)

    pure = True

    def ensures(self, cx, a, res):
        b = a.bs.t
        is_void = isinstance(res, VoidVal)
        return [
            ("non-empty-bytes-stored-exactly", z3.Implies(z3.Length(b) > 0, z3.And(z3.BoolVal(is_void), (res.bytes_t == b) if is_void else False)), "every non-empty byte string — also one made only of NUL bytes — is wrapped as an opaque scalar holding exactly these bytes"),
            ("empty-bytes-stored-as-empty", z3.Implies(z3.Length(b) == 0, z3.BoolVal(isinstance(res, EmptyVal) and getattr(res, "dt", None) == "b")), "the empty file is stored as the HDF5 empty value"),
        ]


class WrappedBytes(SVal):
    """what _h5_wrap_bytes returns, as seen by callers"""

    def __init__(self, bytes_t):
        self.bytes_t = bytes_t


class FPath(PathVal):
    def py_getattr(self, cx, name):
        if name == "name":
            return SStr(BASENAME(self.t))
        raise Unsupported("Path." + name)

    def meth_stat(self, cx):
        st = SObj("StatResult", name="st")
        st.fields["st_size"] = SInt(z3.Length(DISK(self.t)))
        return st

    def meth_lstat(self, cx):
        st = SObj("StatResult", name="lst")
        st.fields["st_size"] = SInt(LSTAT_SIZE(self.t))  # of the directory entry itself: for a symlink the length of the link text
        return st

    def meth_is_file(self, cx):
        return SBool(IS_FILE(self.t))

    def meth_read_bytes(self, cx):
        cx.effect("open-read", self.t)
        return BytesVal(DISK(self.t))


class MagicMod(SVal):
    def meth_from_file(self, cx, path, mime=False):
        if mime is not True:
            raise Unsupported("magic.from_file without mime=True")
        return SStr(MIME(path_term(path)))


class HarvestFile(FnSpec):
    file = "harvester/common.py"
    qual = "FileMetaHarvester.run"
    props = ("C17",)

    def init(self):
        self.bindings["open"] = open_binding
        self.bindings["magic"] = MagicMod()

    def setup(self, cx):
        me = SObj("FileMetaHarvesterObj", name="self")
        args = SObj("HarvesterArgs", name="args")
        args.fields["filepath"] = FPath(z3.String("filepath"))
        me.fields["args"] = args
        return A(self=me)

    def ensures(self, cx, a, res):
        p = a.self.fields["args"].fields["filepath"].t
        made = [e for e in cx.fx if e[0] == "schema-instance"]
        if len(made) != 1 or res is not made[0][2]:
            return [("returns-the-file-metadata", z3.BoolVal(False), "one metadata object is built and returned")]
        kw = made[0][1]
        g = lambda k: kw.get(k)  # noqa: E731
        ok_types = isinstance(g("sha256"), SStr) and isinstance(g("contentSize"), SInt) and isinstance(g("filename"), SStr) and isinstance(g("encodingFormat"), SStr)
        if not ok_types:
            return [("field-shapes", z3.BoolVal(False), "sha256/contentSize/filename/encodingFormat are given")]
        return [
            ("sha256-of-the-files-bytes", g("sha256").t == HEX(z3.StringVal("sha256"), DISK(p)), "the attached SHA-256 is the digest of exactly the bytes the file has NOW (read from the file in this call, not remembered from an earlier one)"),
            ("size-of-the-files-bytes", g("contentSize").t == z3.Length(DISK(p)), "contentSize is the number of bytes"),
            ("name-and-type", z3.And(g("filename").t == BASENAME(p), g("encodingFormat").t == MIME(p)), "file name and mime type of the same file"),
        ]


class PackNode(SVal):
    """the container / group the file is embedded into"""

    def py_contains(self, cx, k):
        return TARGET_EXISTS(k.t if isinstance(k, SStr) else z3.StringVal(k))

    def meth_create_dataset(self, cx, target, data=None, **kw):
        ds = NewDataset(target)
        cx.effect("create-dataset", target, data, ds)
        return ds

    def py_str(self, cx):
        return SStr(z3.StringVal("<node>"))


class NewDataset(SVal):
    def __init__(self, target):
        self.target = target

    def py_getattr(self, cx, name):
        if name == "name":
            return SStr(z3.Concat(z3.StringVal("/"), self.target.t if isinstance(self.target, SStr) else z3.StringVal(self.target)))
        if name == "meta":
            return MetaIface(self)
        raise Unsupported("dataset attribute " + name)


class MetaIface(SVal):
    def __init__(self, ds):
        self.ds = ds

    def py_setitem(self, cx, k, v):
        cx.effect("attach", self.ds, k, v)


class MetaObj(SObj):
    def py_isinstance(self, cx, c):
        if c == "FileMeta":
            return COMPAT
        return SObj.py_isinstance(self, cx, c)


COMPAT = z3.Bool("given_metadata_is_a_core_file_instance")
IS_PLUGIN = z3.Bool("type_of_metadata_is_a_schema_plugin")


class FileMetaCls(SVal):
    """FileMeta = schemas.get('core.file', (0,1,0)) as isinstance target"""

    name = "FileMeta"

    def py_getattr(self, cx, name):
        if name == "Plugin":
            o = SObj("PluginInfo", name="core_file_plugin")
            o.fields["name"] = "core.file"
            return o
        raise Unsupported("FileMeta." + name)


class SchemasStub(SVal):
    def meth_is_plugin(self, cx, t):
        return SBool(IS_PLUGIN)


class PackFile(FnSpec):
    file = "packer/utils.py"
    qual = "pack_file"
    props = ("C17",)

    def init(self):
        self.bindings["Path"] = lambda cx, p: p
        self.bindings["FileMeta"] = FileMetaCls()
        self.bindings["schemas"] = SchemasStub()
        self.bindings["urllib"] = UrlLib()
        self.bindings["type"] = lambda cx, o: "type-of-metadata"
        self.bindings["harvesters"] = HarvestersStub()
        self.bindings["harvest"] = harvest_stub

    def setup(self, cx):
        shape_t = cx.choose(2)  # target given / derived from the file name
        shape_m = cx.choose(2)  # metadata given / harvested
        fp = FPath(z3.String("file_path"))
        kw = {}
        if shape_t == 1:
            kw["target"] = SStr(z3.String("target"))
        given = None
        if shape_m == 1:
            given = MetaObj("GivenMeta", name="given_metadata")
            kw["metadata"] = given
        a = A(node=PackNode(), file_path=fp, **kw)
        a.target_t = z3.String("target") if shape_t == 1 else BASENAME(fp.t)
        a.given = given
        if shape_t == 1:
            cx.assume(z3.Length(z3.String("target")) > 0)  # an empty target means "not given" (covered by the other shape)
        return a

    def raises(self, cx, a):
        p = a.file_path.t
        pre = z3.Or(TARGET_EXISTS(a.target_t), z3.Not(IS_FILE(p)))
        return {"ValueError": z3.Or(pre, z3.Not(COMPAT), z3.Not(IS_PLUGIN))}

    def on_raise(self, cx, a, exc):
        writes = [e for e in cx.fx if e[0] in ("create-dataset", "attach")]
        return [("refused-before-anything-is-written", z3.BoolVal(not writes), "an existing target, a missing file or unsuitable metadata is refused before anything is stored")]

    def ensures(self, cx, a, res):
        p = a.file_path.t
        cr = [e for e in cx.fx if e[0] == "create-dataset"]
        at = [e for e in cx.fx if e[0] == "attach"]
        ok = len(cr) == 1 and len(at) == 1 and isinstance(cr[0][2], WrappedBytes)
        out = [("one-dataset-one-metadata-object", z3.BoolVal(ok and res is cr[0][3] and at[0][1] is cr[0][3]), "exactly one dataset is created and the file metadata is attached to THAT dataset, which is returned")]
        if not ok:
            return out
        tgt = cr[0][1]
        out += [
            ("stored-bytes-are-the-files-bytes", cr[0][2].bytes_t == DISK(p), "what is stored is the wrapped content of the given file, byte for byte"),
            ("stored-at-the-target", (tgt.t if isinstance(tgt, SStr) else z3.StringVal(tgt)) == a.target_t, "at the given target path (default: the file's name)"),
            ("attached-under-core-file", z3.BoolVal(at[0][2] == "core.file"), "attached as core.file metadata"),
            ("given-metadata-is-copied-not-mutated", z3.BoolVal(a.given is None or (at[0][3] is not a.given and "id_" not in a.given.fields)), "metadata passed by the caller is copied before its @id is set"),
        ]
        return out


class UrlLib(SVal):
    def py_getattr(self, cx, name):
        if name == "parse":
            return self
        raise Unsupported("urllib." + name)

    def meth_quote(self, cx, s):
        return SStr(QUOTE(s.t if isinstance(s, SStr) else z3.StringVal(s)))


class HarvestersStub(SVal):
    def py_getitem(self, cx, k):
        if k != "core.file.generic":
            raise Unsupported("harvester " + repr(k))
        return lambda cx2, filepath=None: ("core.file.generic", filepath)


def harvest_stub(cx, schema, hvs):
    m = MetaObj("HarvestedMeta", name="harvested_metadata")
    m.harvested_from = hvs
    return m


def meta_copy(cx, m):
    c = MetaObj("CopiedMeta", name="copy_of_given")
    c.copy_of = m
    return c


def add_packer(reg):
    reg.method_bindings[("FileMetaHarvesterObj", "schema")] = lambda cx, o, **kw: _mk(cx, kw)
    reg.set_class_home("FileMetaHarvesterObj", "harvester/common.py", "FileMetaHarvester")
    reg.method_bindings[("GivenMeta", "copy")] = meta_copy
    for c in ("GivenMeta", "CopiedMeta", "HarvestedMeta"):
        reg.attr_bindings[(c, "Plugin")] = lambda cx, o: FileMetaCls().py_getattr(cx, "Plugin")
    hashing.add_all(reg)
    specs = [WrapBytes(), HarvestFile(), PackFile()]
    for s in specs:
        reg.add(s)
    return specs


def _mk(cx, kw):
    inst = SObj("FileMetaInstance", name="file_meta")
    cx.effect("schema-instance", dict(kw), inst)
    return inst
