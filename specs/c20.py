"""C20 — containers are self-describing (P-tier: what TOCSchemas._register embeds is what the plugin system reports; records are dropped exactly when unused)."""
from . import entrypoints, epnames, pgschema, schema_core, toc, tocread, tocreg, wrappers


def build(reg):
    specs = toc.add_toc(reg) + tocreg.add_tocreg(reg) + schema_core.build_c20_schema(reg) + wrappers.add_destroy(reg) + epnames.add_stored(reg) + tocread.add_tocread(reg) + tocread.add_tocread2(reg)  # (and: an object's schema is read back from its node name); a meta-less copy must not unregister what the originals still use
    specs += entrypoints.add_for_package(reg)
    specs += entrypoints.add_entrypoints(reg)  # where the package records come from
    specs += [x for x in pgschema.add_pgschema(reg) if 'C20' in x.props]  # the parent chain that gets embedded as 'compat'
    from . import oneliners

    specs = specs + oneliners.add_oneliners(reg, props=("C20",))  # one- and two-line delegations, verified against what other contracts bind them to
    return {
        "verify": specs,
        "lemmas": [],
        "trusted": oneliners.T_ONE + entrypoints.T_EPS + pgschema.T_PGS + tocread.T_TOCREAD + [toc.T_PLUGIN] + tocreg.T_TOCREG + tocreg.T_PLUGINSYS,
        "assumptions": ["JSON-Schema generation (schema_json) and validation of stored objects against it are pydantic's / jsonschema's and checked bounded"],
    }
