"""Trusted models of dependencies used by several specs (T2 files/streams, T3 hashlib).

bytes are z3 Strings (sequences of code points 0..255).  Every class here is an *assumed* contract and is
listed in the evidence's trusted base; the bounded tier validates them against the real libraries.
"""
from __future__ import annotations

import z3

from pyvc.engine import SClass
from pyvc.values import SBool, SInt, SStr, SVal, Unsupported, fresh_name, term

S = z3.StringSort()
HEX = z3.Function("HEX_H", S, S, S)  # (algorithm name, data) -> hex digest   [T3: H treated as injective where stated]
DISK = z3.Function("disk_bytes", S, S)  # path -> file content at function entry (T2)

T2 = "T2 binary streams: read(n>0) returns the next <= n bytes, empty iff at EOF; seek(k) positions at byte k; open(p,'rb') yields the file's bytes"
T3 = "T3 hashlib: update appends, hexdigest() = HEX(H(all bytes fed)); block_size > 0"


class BytesVal(SVal):
    pytype = "bytes"

    def __init__(self, t):
        self.t = t

    def py_truth(self, cx):
        return z3.Length(self.t) > 0

    def py_isinstance(self, cx, c):
        return c in ("bytes", "object")

    def py_eq(self, cx, o):
        if isinstance(o, BytesVal):
            return self.t == o.t
        return False

    def py_len(self, cx):
        return SInt(z3.Length(self.t))

    def meth_decode(self, cx, enc="utf-8"):
        return SStr(self.t)  # ASCII content (T5: the JSON emitted by pydantic is ASCII); bytes == code points


def exact_chunk(rem, n):
    """read(n) on a regular file: exactly the next min(n, remaining) bytes"""
    return z3.SubString(rem, 0, z3.If(n <= z3.Length(rem), n, z3.Length(rem)))


class Stream(SVal):
    """Binary stream with ghost `remaining` bytes."""

    def __init__(self, remaining, whole=None, exact=False):
        self.remaining = remaining
        self.whole = whole if whole is not None else remaining
        self.exact = exact  # regular file: read(n) returns exactly min(n, remaining) bytes

    def py_truth(self, cx):
        return True

    def py_isinstance(self, cx, c):
        return c in ("BinaryIO", "BytesIO", "object")

    def meth_read(self, cx, n=None):
        if n is None:
            r = self.remaining
            self.remaining = z3.StringVal("")
            return BytesVal(r)
        nt = term(n)
        cx.oblige("call-pre:stream.read:positive-size", "call-pre", nt > 0)
        rem = self.remaining
        if self.exact:
            chunk = exact_chunk(rem, nt)
            self.remaining = z3.SubString(rem, z3.Length(chunk), z3.Length(rem) - z3.Length(chunk))
            return BytesVal(chunk)
        k = z3.Int(fresh_name("read_len"))
        cx.assume(z3.And(k >= 0, k <= nt, k <= z3.Length(rem), z3.Implies(z3.Length(rem) > 0, k > 0)))
        chunk = z3.SubString(rem, 0, k)
        self.remaining = z3.SubString(rem, k, z3.Length(rem) - k)
        return BytesVal(chunk)

    def meth_seek(self, cx, k):
        if isinstance(k, int) and k == 0:
            self.remaining = self.whole
            return k
        kt = term(k)
        w = self.whole
        cx.oblige("call-pre:stream.seek:non-negative", "call-pre", kt >= 0)
        self.remaining = z3.If(kt >= z3.Length(w), z3.StringVal(""), z3.SubString(w, kt, z3.Length(w) - kt))
        return k

    def meth___enter__(self, cx):
        return self

    def havoc_inplace(self, cx, hint="stream"):
        self.remaining = z3.String(fresh_name(hint + "_rem"))


class Hasher(SVal):
    def __init__(self, alg: str):
        self.alg = alg
        self.state = z3.StringVal("")
        self.block = z3.Int(fresh_name("block_size"))

    def py_truth(self, cx):
        return True

    def attr_block_size(self, cx):
        cx.assume(self.block > 0)
        return SInt(self.block)

    def meth_update(self, cx, chunk):
        if not isinstance(chunk, BytesVal):
            raise Unsupported("hash.update(non-bytes)")
        self.state = z3.Concat(self.state, chunk.t)

    def meth_hexdigest(self, cx):
        return SStr(HEX(z3.StringVal(self.alg), self.state))

    def havoc_inplace(self, cx, hint="h"):
        self.state = z3.String(fresh_name(hint + "_state"))


class HashlibModule(SVal):
    def py_getattr(self, cx, name):
        if name in ("sha256", "sha512", "md5", "sha1"):
            return lambda cx2: Hasher(name)
        raise Unsupported(f"hashlib.{name}")


def bytesio(cx, data):
    if not isinstance(data, BytesVal):
        raise Unsupported("BytesIO(non-bytes)")
    return Stream(data.t)


def open_binding(cx, path, mode="r"):
    """open(path, 'rb'): T2 — stream over the file's bytes (read modes only)."""
    if mode != "rb":
        raise Unsupported(f"open(..., {mode!r}) not modelled here")
    p = path_term(path)
    cx.effect("open-read", p)
    return Stream(DISK(p))


class TPath:
    """Type descriptor for PathVal (stored as its string term)."""

    def sort(self):
        return S

    def wrap(self, t):
        return PathVal(t)

    def unwrap(self, cx, v):
        return path_term(v)


class PathVal(SVal):
    """pathlib.Path as an opaque string-identified value."""

    def __init__(self, t):
        self.t = t

    def py_truth(self, cx):
        return True

    def py_eq(self, cx, o):
        return isinstance(o, PathVal) and self.t == o.t

    def py_str(self, cx):
        return SStr(self.t)

    def type_desc(self):
        return TPath()

    def meth_unlink(self, cx, missing_ok=False):
        log = cx.ghost.get("unlink_log")
        if log is not None:  # a spec that collects the unlinked paths in a ghost set (loops): see record.DeleteFiles
            log.py_call_method(cx, "add", [self], {})
            return None
        cx.effect("unlink", self.t)

    def py_hash(self, cx):
        return SStr(self.t).py_hash(cx)


def path_term(p):
    if isinstance(p, PathVal):
        return p.t
    if isinstance(p, SStr):
        return p.t
    if isinstance(p, str):
        return z3.StringVal(p)
    raise Unsupported(f"not a path: {p!r}")
