"""TOCSchemas read side (what a container reports about the schemas in use): get / __getitem__ / versions / parent_path / provider — C20, C07."""
from __future__ import annotations

import ast

import z3

from pyvc.api import A, ContractStale, FnSpec
from pyvc.containers import SObj, SSet
from pyvc.engine import Env, Frame
from pyvc.values import SBool, SMaybe, SStr, STuple, SVal, Unsupported, as_bool, fresh_name, truth

S, B = z3.StringSort(), z3.BoolSort()
PRef = z3.DeclareSort("SchemaRef")
Ver = z3.DeclareSort("VersionTuple")
Json = z3.DeclareSort("JsonValue")
R_NAME = z3.Function("ref_name", PRef, S)
MKREF = z3.Function("PluginRef_of", S, Ver, PRef)
SUPPORTS = z3.Function("ref_supports", PRef, PRef, B)
PATH = z3.Function("jsonschema_path_for", PRef, S)
IN_RAW = z3.Function("path_exists_in_raw_container", S, B)
LOADED = z3.Function("json_loaded_from_node_at", S, Json)

T_TOCREAD = [
    "self._raw[path] is the raw node at that path (KeyError if absent, `in` tells); _load_json(node) parses the bytes stored there; _jsonschema_path_for(ref) is a function of the reference",
    "list(filter(f, d)) / [x for x in l if p(x)] keep exactly the elements passing the test (their order is the dict's and is not part of any statement here)",
]


class TRefS:
    def sort(self):
        return PRef

    def wrap(self, t):
        return RefV(t)

    def unwrap(self, cx, v):
        if isinstance(v, RefV):
            return v.t
        raise Unsupported("not a schema reference")


class RefV(SVal):
    def __init__(self, t):
        self.t = t

    def py_getattr(self, cx, n):
        if n == "name":
            return SStr(R_NAME(self.t))
        raise Unsupported("ref attribute " + n)

    def meth_supports(self, cx, o):
        return SBool(SUPPORTS(self.t, o.t))

    def py_hash(self, cx):
        raise Unsupported("hash of a ref")


class VerV(SVal):
    def __init__(self, t):
        self.t = t

    def py_is_none(self, cx):
        return False


class SchemasNS(SVal):
    def meth_PluginRef(self, cx, **kw):
        if set(kw) != {"name", "version"} or not isinstance(kw["version"], VerV):
            raise Unsupported("PluginRef(...) with other arguments")
        return RefV(MKREF(kw["name"].t, kw["version"].t))


class RawStub(SVal):
    def py_contains(self, cx, p):
        return SBool(IN_RAW(p.t))

    def py_getitem(self, cx, p):
        if not cx.decide(IN_RAW(p.t)):
            cx.py_raise("KeyError", "no such node")
        return NodeAt(p.t)


class NodeAt(SVal):
    def __init__(self, p):
        self.p = p


class JsonV(SVal):
    def __init__(self, t):
        self.t = t

    def py_truth(self, cx):
        raise Unsupported("truth of a JSON value")


def _me():
    me = SObj("TOCSchemasRead", name="self")
    me.fields["_raw"] = RawStub()
    me.fields["_jsonschema_path_for"] = lambda cx, r: SStr(PATH(r.t))
    me.fields["_load_json"] = lambda cx, n: JsonV(LOADED(n.p))
    return me


class GetItem(FnSpec):
    file = "container/interface.py"
    qual = "TOCSchemas.__getitem__"
    props = ("C20",)

    def init(self):
        self.bindings["cast"] = lambda cx, t, v: v
        self.bindings["H5DatasetLike"] = "H5DatasetLike"

    def setup(self, cx):
        return A(self=_me(), schema_ref=RefV(z3.Const("ref", PRef)))

    def raises(self, cx, a):
        return {"AssertionError": z3.Not(IN_RAW(PATH(a.schema_ref.t)))}

    def ensures(self, cx, a, res):
        return [("the-json-stored-for-that-schema", z3.BoolVal(False) if not isinstance(res, JsonV) else res.t == LOADED(PATH(a.schema_ref.t)), "schemas[ref] is the JSON document stored at the schema's jsonschema.json node")]


PRESENT = z3.Bool("schema_is_in_use")
VALUE = z3.Const("what_getitem_returns", Json)


class Get(FnSpec):
    file = "container/interface.py"
    qual = "TOCSchemas.get"
    props = ("C20",)

    def setup(self, cx):
        me = SObj("TOCSchemasRead", name="self")
        a = A(self=me, schema_ref=RefV(z3.Const("ref", PRef)))
        return a

    def raises(self, cx, a):
        return {}

    def ensures(self, cx, a, res):
        none = res is None
        return [
            ("none-only-for-a-schema-not-in-use", z3.BoolVal(none) == z3.Not(PRESENT), "get(ref) answers None exactly when ref is not among the schemas in use"),
            ("otherwise-what-subscription-gives", z3.BoolVal(True) if none else (z3.BoolVal(False) if not isinstance(res, JsonV) else res.t == VALUE), "... and otherwise the very document schemas[ref] gives (a value that is computed must also be returned)"),
        ]


def getitem_stub(cx, me, ref):
    if not cx.decide(PRESENT):
        cx.py_raise("KeyError", "schema not in use")
    return JsonV(VALUE)


def list_filter_schema(interp, cx, fr, e):
    """[x for x in SET if P(x)] over a symbolic collection of refs: the elements passing P (order not modelled)"""
    if not isinstance(e, ast.ListComp) or len(e.generators) != 1:
        return NotImplemented
    g = e.generators[0]
    src = interp.eval(cx, fr, g.iter)
    if not isinstance(src, SSet):
        return NotImplemented
    if not (isinstance(g.target, ast.Name) and isinstance(e.elt, ast.Name) and e.elt.id == g.target.id):
        raise ContractStale("list filter schema: the element expression is not the loop variable")
    kk = z3.Const(fresh_name("lk"), src.kt.sort())
    sub = Frame(fr.modinfo, fr.qual, Env(fr.env), spec=fr.spec, cls=fr.cls)
    vals, fails, axioms = interp.eval_exprs_on_element(cx, sub, g.target, src.kt.wrap(kk), g.ifs, kk)
    if fails or axioms:
        raise Unsupported("filter may raise")
    P = z3.And(*[as_bool(cx, truth(cx, v)) for v in vals]) if vals else z3.BoolVal(True)
    res = SSet.fresh(src.kt, "kept")
    cx.assume(z3.ForAll([kk], res.has(kk) == z3.And(src.has(kk), P)))
    return res


class Versions(FnSpec):
    file = "container/interface.py"
    qual = "TOCSchemas.versions"
    props = ("C07", "C20")

    def init(self):
        self.bindings["schemas"] = SchemasNS()
        self.bindings["list"] = lambda cx, x: x if isinstance(x, SSet) else (_ for _ in ()).throw(Unsupported("list() of something else"))
        self.comps[0] = list_filter_schema

    def setup(self, cx):
        me = SObj("TOCSchemasRead", name="self")
        known = SSet.fresh(TRefS(), "schemas_listed_in_the_children_map")
        me.fields["_children"] = known
        with_ver = cx.choose(2) == 1
        a = A(self=me, p_name=SStr.fresh("p_name"), version=VerV(z3.Const("requested_version", Ver)) if with_ver else None)
        a.known, a.with_ver = known, with_ver
        return a

    def raises(self, cx, a):
        return {}

    def ensures(self, cx, a, res):
        if not isinstance(res, SSet):
            return [("a-collection-of-refs", z3.BoolVal(False), "")]
        r = z3.Const(fresh_name("vr"), PRef)
        want = z3.And(a.known.has(r), R_NAME(r) == a.p_name.t)
        if a.with_ver:
            want = z3.And(want, SUPPORTS(MKREF(a.p_name.t, a.version.t), r))
        return [("exactly-the-listed-releases-of-that-name-the-request-supports", z3.ForAll([r], res.has(r) == want), "versions(name[, v]) are exactly the schemas of that name known to the container — all of them without a version, else those the REQUESTED version supports (requested.supports(stored): an object of an older minor release answers a newer request, not the other way round)")]


def add_tocread(reg):
    reg.set_class_home("TOCSchemasRead", "container/interface.py", "TOCSchemas")
    reg.method_bindings[("TOCSchemasRead", "__getitem__")] = getitem_stub
    specs = [GetItem(), Get(), Versions(), Children()]
    for s in specs:
        reg.add(s)
    return specs


# ---- TOCSchemas.children: the descendants the container knows for a schema ---------------------------------------------------------------------
CH_HAS = z3.Function("children_map_has_entry_for", PRef, B)  # ref in self._children
CH_OF = z3.Function("children_map_lists", PRef, PRef, B)  # c in self._children[ref]
HAS_VER = z3.Bool("a_version_is_given")


class MapTok(SVal):
    def __init__(self, f, src):
        self.f, self.src = f, src


class FilterTok(SVal):
    """*filter(lambda x: x is not None, map(self._children.get, s_refs)) as an argument list of symbolic length"""

    def __init__(self, m):
        self.m = m

    def elementwise(self, interp, cx):
        src = self.m.src
        if isinstance(src, list):  # [the one requested ref]
            if len(src) != 1 or not isinstance(src[0], RefV):
                raise Unsupported("another concrete list of refs")
            r = z3.Const(fresh_name("cr"), PRef)
            rng = z3.And(r == src[0].t, CH_HAS(r))
        elif isinstance(src, SSet):
            r = z3.Const(fresh_name("cr"), PRef)
            rng = z3.And(src.has(r), CH_HAS(r))
        else:
            raise Unsupported("refs of another shape")
        x = z3.Const(fresh_name("cc"), PRef)
        return r, rng, SSet(TRefS(), z3.Lambda([x], CH_OF(r, x)))


class ChildrenMapStub(SVal):
    def meth_keys(self, cx):
        r = z3.Const(fresh_name("kr"), PRef)
        return SSet(TRefS(), z3.Lambda([r], CH_HAS(r)))

    def py_getattr(self, cx, n):
        if n == "get":
            return "children.get"
        raise Unsupported("children map attribute " + n)


class UnionStart(SVal):
    def meth_union(self, cx, *args):
        if len(args) != 1 or not hasattr(args[0], "elementwise"):
            raise Unsupported("set().union of something else")
        bound, rng, val = args[0].elementwise(cx.run.interp, cx)
        x = z3.Const(fresh_name("ux"), PRef)
        res = SSet.fresh(TRefS(), "united")
        cx.assume(z3.ForAll([x], res.has(x) == z3.Exists([bound], z3.And(rng, val.has(x)))))
        return res


class Children(FnSpec):
    file = "container/interface.py"
    qual = "TOCSchemas.children"
    props = ("C07", "C20")

    def init(self):
        self.bindings["schemas"] = SchemasNS()
        self.bindings["plugin_args"] = lambda cx, s, v: STuple((cx.ghost["ch"].name, cx.ghost["ch"].ver))
        self.bindings["set"] = lambda cx, *a: UnionStart() if not a else (_ for _ in ()).throw(Unsupported("set(x)"))
        self.bindings["map"] = lambda cx, f, src: MapTok(f, src) if f == "children.get" else (_ for _ in ()).throw(Unsupported("map of another function"))
        self.bindings["filter"] = self._filter
        self.comps[0] = list_filter_schema

    @staticmethod
    def _filter(cx, f, m):
        from pyvc.engine import Closure

        import ast as _ast

        ok = isinstance(f, Closure) and isinstance(f.node, _ast.Lambda) and _ast.unparse(f.node.body).replace(" ", "") in ("xisnotNone",)
        if not ok or not isinstance(m, MapTok):
            raise Unsupported("filter of another shape than `x is not None` over map(children.get, refs)")
        return FilterTok(m)

    def setup(self, cx):
        me = SObj("TOCSchemasRead", name="self")
        me.fields["_children"] = ChildrenMapStub()
        with_ver = cx.choose(2) == 1
        a = A(self=me, schema="schema-arg", version="version-arg")
        a.name = SStr.fresh("schema_name")
        a.ver = VerV(z3.Const("requested_version", Ver)) if with_ver else None
        a.with_ver = with_ver
        cx.ghost["ch"] = a
        return a

    def raises(self, cx, a):
        return {}

    def ensures(self, cx, a, res):
        if not isinstance(res, SSet):
            return [("a-set-of-refs", z3.BoolVal(False), "")]
        x, r = z3.Const(fresh_name("ex"), PRef), z3.Const(fresh_name("er"), PRef)
        if a.with_ver:
            want = z3.And(CH_HAS(MKREF(a.name.t, a.ver.t)), CH_OF(MKREF(a.name.t, a.ver.t), x))
            cl = "with a version: exactly the children the container lists for that very release (nothing if it does not know it)"
        else:
            want = z3.Exists([r], z3.And(CH_HAS(r), R_NAME(r) == a.name.t, CH_OF(r, x)))
            cl = "without a version: the union over ALL releases of that schema name the container knows"
        return [("exactly-the-listed-children", z3.ForAll([x], res.has(x) == want), cl)]


# ---- TOCSchemas.provider / parent_path / keys / values / items ------------------------------------------------------------------------------------------
PkgKey = z3.DeclareSort("PackageNameVersion")
HAS_PROVIDER = z3.Function("providers_map_lists_some_package_for", PRef, B)  # self._pkgs._providers.get(ref, []) is non-empty
FIRST_PROVIDER = z3.Function("first_listed_provider_of", PRef, PkgKey)


class PkgKeyV(SVal):
    def __init__(self, t):
        self.t = t

    def py_is_none(self, cx):
        return False


class ProvidersList(SVal):
    def __init__(self, ref):
        self.ref = ref


class ProvidersMap(SVal):
    def meth_get(self, cx, ref, default=None):
        if default != []:
            raise Unsupported("_providers.get with another default than []")
        return ProvidersList(ref.t)


class PkgsStub(SVal):
    def py_getattr(self, cx, n):
        if n == "_providers":
            return ProvidersMap()
        raise Unsupported("TOCPackages attribute " + n)

    def py_getitem(self, cx, k):
        if isinstance(k, SMaybe):
            if cx.decide(k.isnone):
                cx.py_raise("KeyError", "None is no package")
            k = k.val
        if not isinstance(k, PkgKeyV):
            raise Unsupported("TOCPackages[...] of something else than a package key")
        cx.effect("pkginfo-of", k.t)
        return ("pkginfo", k.t)


def _iter(cx, x):
    if isinstance(x, ProvidersList):
        return x
    raise Unsupported("iter() of something else")


def _next(cx, it, *d):
    if isinstance(it, ProvidersList) and d == (None,):
        return SMaybe(z3.Not(HAS_PROVIDER(it.ref)), PkgKeyV(FIRST_PROVIDER(it.ref)))
    raise Unsupported("next() of something else")


class Provider(FnSpec):
    file = "container/interface.py"
    qual = "TOCSchemas.provider"
    props = ("C20",)

    def init(self):
        self.bindings["iter"] = _iter
        self.bindings["next"] = _next

    def setup(self, cx):
        me = SObj("TOCSchemasRead", name="self")
        me.fields["_pkgs"] = PkgsStub()
        return A(self=me, schema_ref=RefV(z3.Const("ref", PRef)))

    def raises(self, cx, a):
        return {"KeyError": z3.Not(HAS_PROVIDER(a.schema_ref.t))}

    def ensures(self, cx, a, res):
        ok = isinstance(res, tuple) and res[0] == "pkginfo"
        return [("package-info-of-the-first-listed-provider", z3.BoolVal(False) if not ok else res[1] == FIRST_PROVIDER(a.schema_ref.t), "the package reported for a schema is the container's own record of (the first of) the packages it lists as providing that schema — not whatever the environment has installed")]


class ParentsMap(SVal):
    def py_getitem(self, cx, k):
        if not isinstance(k, RefV):
            raise Unsupported("_parents[...] of something else than a reference")
        if not cx.decide(PARENTS_HAS(k.t)):
            cx.py_raise("KeyError", "unknown schema")
        return ("parents-of", k.t)


PARENTS_HAS = z3.Function("parents_map_has_entry_for", PRef, B)


class ParentPath(FnSpec):
    file = "container/interface.py"
    qual = "TOCSchemas.parent_path"
    props = ("C20", "C07")

    def init(self):
        self.bindings["schemas"] = SchemasNS()

        def plugin_args(cx, s, v, require_version=False):
            cx.effect("plugin_args", s, v, require_version)
            a = cx.ghost["pp"]
            return STuple((a.name, a.ver))

        self.bindings["plugin_args"] = plugin_args

    def setup(self, cx):
        me = SObj("TOCSchemasRead", name="self")
        me.fields["_parents"] = ParentsMap()
        a = A(self=me, schema="schema-arg", version="version-arg")
        a.name, a.ver = SStr.fresh("schema_name"), VerV(z3.Const("requested_version", Ver))
        cx.ghost["pp"] = a
        return a

    def raises(self, cx, a):
        return {"KeyError": z3.Not(PARENTS_HAS(MKREF(a.name.t, a.ver.t)))}

    def ensures(self, cx, a, res):
        pa = [e for e in cx.fx if e[0] == "plugin_args"]
        ok = len(pa) == 1 and pa[0][1] == "schema-arg" and pa[0][2] == "version-arg" and pa[0][3] is True and isinstance(res, tuple) and res[0] == "parents-of"
        return [("stored-parent-path-of-exactly-that-release", z3.BoolVal(False) if not ok else res[1] == MKREF(a.name.t, a.ver.t), "the inheritance chain reported is the one embedded in the container for exactly that schema release (a version is REQUIRED: plugin_args(..., require_version=True))")]


class SchemasKeys(FnSpec):
    file = "container/interface.py"
    qual = "TOCSchemas.keys"
    props = ("C20",)

    def init(self):
        self.bindings["set"] = lambda cx, x: SSet(x.kt, x.dom) if isinstance(x, SSet) else (_ for _ in ()).throw(Unsupported("set() of something else"))

    def setup(self, cx):
        me = SObj("TOCSchemasRead", name="self")
        a = A(self=me)
        a.used = SSet.fresh(TRefS(), "schemas_in_use")
        me.fields["_schemas"] = a.used
        return a

    def raises(self, cx, a):
        return {}

    def ensures(self, cx, a, res):
        r = z3.Const(fresh_name("kr"), PRef)
        if not isinstance(res, SSet):
            return [("a-set", z3.BoolVal(False), "")]
        return [("exactly-the-schemas-in-use-as-a-copy", z3.And(z3.BoolVal(res is not a.used), z3.ForAll([r], res.has(r) == a.used.has(r))), "keys() are exactly the schemas in use, handed out as a copy (changing it does not change the container's index)")]


def add_tocread2(reg):
    reg.set_class_home("TOCSchemasRead", "container/interface.py", "TOCSchemas")
    specs = [Provider(), ParentPath(), SchemasKeys()]
    for s in specs:
        reg.add(s)
    return specs
