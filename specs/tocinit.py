"""MetadorContainerTOC.__init__ (what opening a container does to it) and the two values read from the reserved header:
spec_version and container_uuid — C06 (the index is rebuilt from the raw container alone), C15 (a read-only container is never written)."""
from __future__ import annotations

import z3

from pyvc.api import A, FnSpec
from pyvc.containers import SObj
from pyvc.values import SBool, SStr, SVal, Unsupported

from .wrappers import FLAGS, MEMBERS, NodeAclEnum

S, B, I = z3.StringSort(), z3.BoolSort(), z3.IntSort()
HAS_VERSION_NODE = z3.Bool("raw_container_has_a_version_node")
MAJOR = z3.Int("major_of_the_stored_spec_version")
VERSION_PATH, UUID_PATH = "/metador_container/version", "/metador_container/uuid"

T_TOCINIT = [
    "T4 list comparison: [major, ...] >= [2] iff major >= 2 (the stored version has at least one component); a non-empty list is truthy",
    "T6 uuid1() is a new uuid; str(uuid) is its text",
]


class SpecVer(SVal):
    """the parsed version list of an existing container"""

    def py_truth(self, cx):
        return True

    def py_ge(self, cx, o):
        if isinstance(o, list) and len(o) == 1 and isinstance(o[0], int) and not isinstance(o[0], bool):
            return SBool(MAJOR >= o[0])  # T4
        raise Unsupported("comparison of the version with something else than a one-element list")


class RawStub(SVal):
    def py_contains(self, cx, p):
        if p != VERSION_PATH:
            raise Unsupported("`in` for another path")
        return SBool(HAS_VERSION_NODE)

    def py_setitem(self, cx, k, v):
        cx.effect("raw-write", k, v)


class MNS(SVal):
    def py_getattr(self, cx, n):
        vals = {"METADOR_VERSION_PATH": VERSION_PATH, "METADOR_UUID_PATH": UUID_PATH, "METADOR_SPEC_VERSION": "1.0"}
        if n in vals:
            return vals[n]
        raise Unsupported("M." + n)


class TocInit(FnSpec):
    file = "container/interface.py"
    qual = "MetadorContainerTOC.__init__"
    props = ("C06", "C15")

    def init(self):
        self.bindings["M"] = MNS()
        self.bindings["NodeAcl"] = NodeAclEnum()
        self.bindings["uuid1"] = lambda cx: (cx.effect("uuid1"), UuidTok())[1]
        self.bindings["str"] = lambda cx, v: "text-of-the-new-uuid" if isinstance(v, UuidTok) else (_ for _ in ()).throw(Unsupported("str() of something else"))
        self.bindings["get_driver_type"] = lambda cx, raw: ("driver-type-of", raw)
        self.bindings["TOCPackages"] = lambda cx, raw: (cx.effect("build", "packages", raw), ("packages", raw))[1]
        self.bindings["TOCSchemas"] = lambda cx, raw, pk: (cx.effect("build", "schemas", raw, pk), ("schemas", raw, pk))[1]
        self.bindings["TOCLinks"] = lambda cx, raw, sc: (cx.effect("build", "links", raw, sc), ("links", raw, sc))[1]

    def setup(self, cx):
        raw = RawStub()
        cont = SObj("MetadorContainer", name="container")
        cont.fields["__wrapped__"] = raw
        cont.fields["acl"] = {MEMBERS[f]: SBool(z3.Bool("container_" + f)) for f in FLAGS}
        me = SObj("MetadorContainerTOCObj", name="self")
        me.fields["spec_version"] = SpecVer()
        a = A(self=me, container=cont)
        a.raw, a.ro = raw, z3.Bool("container_read_only")
        return a

    def raises(self, cx, a):
        return {"ValueError": z3.Or(z3.And(HAS_VERSION_NODE, MAJOR >= 2), z3.And(z3.Not(HAS_VERSION_NODE), a.ro))}

    def on_raise(self, cx, a, exc):
        return [("a-refused-container-is-not-touched", z3.BoolVal(not [e for e in cx.fx if e[0] in ("raw-write", "build")]), "a container of a newer major version, and a read-only container without Metador structure, are refused without writing anything")]

    def ensures(self, cx, a, res):
        me, raw = a.self, a.raw
        writes = [e[:-1] for e in cx.fx if e[0] == "raw-write"]
        fresh = writes == [("raw-write", VERSION_PATH, "1.0"), ("raw-write", UUID_PATH, "text-of-the-new-uuid")]
        builds = [e[:-1] for e in cx.fx if e[0] == "build"]
        ok_build = builds == [("build", "packages", raw), ("build", "schemas", raw, ("packages", raw)), ("build", "links", raw, ("schemas", raw, ("packages", raw)))]
        ok_fields = me.fields.get("_packages") == ("packages", raw) and me.fields.get("_schemas") == ("schemas", raw, ("packages", raw)) and me.fields.get("_links") == ("links", raw, ("schemas", raw, ("packages", raw))) and me.fields.get("_raw") is raw and me.fields.get("_container") is a.container and me.fields.get("_driver_type") == ("driver-type-of", raw)
        return [
            ("an-existing-container-is-only-read", z3.Implies(HAS_VERSION_NODE, z3.BoolVal(not writes)), "opening an existing Metador container writes nothing"),
            ("a-fresh-writable-one-gets-version-and-a-new-uuid", z3.Implies(z3.Not(HAS_VERSION_NODE), z3.And(z3.Not(a.ro), z3.BoolVal(fresh))), "a writable container without the structure is initialised with the spec version and a NEW uuid — and only then"),
            ("read-only-never-writes", z3.Implies(a.ro, z3.BoolVal(not writes)), "nothing is written through a read-only container"),
            ("index-rebuilt-from-the-raw-container", z3.BoolVal(bool(ok_build and ok_fields)), "the package, schema and link indices are rebuilt from the raw container itself (packages first, schemas over them, links over the schemas) — no state survives from elsewhere"),
        ]


class UuidTok(SVal):
    pass


# ---- spec_version / container_uuid -------------------------------------------------------------------------------------------------------------------------
STORED = z3.Function("bytes_stored_at_decoded", S, S)  # raw[path][()].decode("utf-8")


class RawRead(SVal):
    def py_getitem(self, cx, p):
        if not isinstance(p, str):
            raise Unsupported("raw[...] of a symbolic path")
        cx.effect("raw-read", p)
        return DsAt(p)


class DsAt(SVal):
    def __init__(self, p):
        self.p = p

    def py_getitem(self, cx, idx):
        if idx != ():
            raise Unsupported("another index than [()]")
        return BytesAt(self.p)


class BytesAt(SVal):
    def __init__(self, p):
        self.p = p

    def meth_decode(self, cx, enc):
        if enc != "utf-8":
            raise Unsupported("another encoding")
        return SStr(STORED(z3.StringVal(self.p)))


class HeaderValue(FnSpec):
    file = "container/interface.py"
    props = ("C06",)

    def __init__(self, which):
        self.which = which
        self.qual = "MetadorContainerTOC." + which
        super().__init__()

    def init(self):
        self.bindings["M"] = MNS()
        self.bindings["cast"] = lambda cx, t, v: v
        self.bindings["H5DatasetLike"] = "H5DatasetLike"
        self.bindings["UUID"] = lambda cx, s: ("UUID", s)
        self.bindings["list"] = lambda cx, x: ("list", x)
        self.bindings["map"] = lambda cx, f, x: ("map", f, x)
        self.bindings["int"] = "int"

    def setup(self, cx):
        me = SObj("MetadorContainerTOCObj", name="self")
        me.fields["_raw"] = RawRead()
        return A(self=me)

    def raises(self, cx, a):
        return {}

    def ensures(self, cx, a, res):
        from pyvc.values import SplitVal

        reads = [e[:-1] for e in cx.fx if e[0] == "raw-read"]
        if self.which == "container_uuid":
            ok = reads == [("raw-read", UUID_PATH)] and isinstance(res, tuple) and res[0] == "UUID" and isinstance(res[1], SStr)
            return [("the-uuid-stored-in-the-header", z3.BoolVal(False) if not ok else res[1].t == STORED(z3.StringVal(UUID_PATH)), "the container uuid is the one stored in the reserved header (parsed from its text), nothing cached")]
        ok = reads == [("raw-read", VERSION_PATH)] and isinstance(res, tuple) and res[0] == "list" and isinstance(res[1], tuple) and res[1][0] == "map" and res[1][1] == "int" and isinstance(res[1][2], SplitVal)
        sv = res[1][2] if ok else None
        return [("the-dotted-version-stored-in-the-header-as-integers", z3.BoolVal(False) if not ok else z3.And(sv.s == STORED(z3.StringVal(VERSION_PATH)), sv.sep == z3.StringVal(".")), "the spec version is the stored dotted text, split at the dots, each part as an integer")]


def add_tocinit(reg):
    reg.set_class_home("MetadorContainerTOCObj", "container/interface.py", "MetadorContainerTOC")
    specs = [TocInit(), HeaderValue("spec_version"), HeaderValue("container_uuid")]
    for s in specs:
        reg.add(s)
    return specs
