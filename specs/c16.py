"""C16 — plugin references order, match and resolve by semantic version (contracts on the real functions)."""
from __future__ import annotations

import sysconfig

import z3

from pyvc.api import A, FnSpec, LoopSpec
from pyvc.containers import INT, STR, ClassDecl, SMap, SObj, SRef, SSeq, TRef, TSeq, TTuple
from pyvc.engine import RepoFunc, SClass
from pyvc.values import SBool, SInt, SStr, STuple, as_bool

VER = TTuple(INT, INT, INT)
ClassDecl("PluginRef", {"group": STR, "name": STR, "version": VER})

FUNCTOOLS = "/root/.pyenv/versions/3.12.1/lib/python3.12/functools.py"  # the interpreter /venv runs on


def key_terms(r: SRef, cx):
    g = r.py_getattr(cx, "group").t
    n = r.py_getattr(cx, "name").t
    v = r.py_getattr(cx, "version")
    return g, n, [x.t for x in v.items]


def key_eq(cx, a, b):
    ga, na, va = key_terms(a, cx)
    gb, nb, vb = key_terms(b, cx)
    return z3.And(ga == gb, na == nb, *[x == y for x, y in zip(va, vb)])


def key_lt(cx, a, b):
    """strict lexicographic order on (group, name, version) — written from the property statement."""
    ga, na, va = key_terms(a, cx)
    gb, nb, vb = key_terms(b, cx)
    ver_lt = z3.Or(va[0] < vb[0], z3.And(va[0] == vb[0], z3.Or(va[1] < vb[1], z3.And(va[1] == vb[1], va[2] < vb[2]))))
    return z3.Or(ga < gb, z3.And(ga == gb, z3.Or(na < nb, z3.And(na == nb, ver_lt))))


def is_bool_eq(res, expected):
    """`res` is a genuine bool equal to `expected` (None or a non-bool result fails)."""
    if isinstance(res, bool):
        return z3.BoolVal(res) == expected
    if isinstance(res, SBool):
        return res.t == expected
    if z3.is_bool(res):
        return res == expected
    return z3.BoolVal(False)


def wf_ref(cx, r):
    _, _, v = key_terms(r, cx)
    return z3.And(*[x >= 0 for x in v])


class TwoRefs(FnSpec):
    file = "schema/plugins.py"
    props = ("C16",)
    expected = None  # (cx, a, b) -> z3 Bool

    def setup(self, cx):
        return A(self=SRef.fresh("PluginRef", "a"), other=SRef.fresh("PluginRef", "b"))

    pure = True

    def result(self, cx, a):
        # the postcondition determines the result uniquely, so call sites get the term itself
        return SBool(self.expected(cx, a.self, a.other))

    def ensures(self, cx, a, res):
        return [("result-is-bool-of-key-order", is_bool_eq(res, self.expected(cx, a.self, a.other)), self.clause)]


class EqSpec(TwoRefs):
    qual = "PluginRef.__eq__"
    clause = "equality is equality of (group, name, version)"
    expected = staticmethod(key_eq)


class GeSpec(TwoRefs):
    qual = "PluginRef.__ge__"
    clause = "totally ordered by (group, name, version): a >= b is exactly not (key(a) < key(b))"
    expected = staticmethod(lambda cx, a, b: z3.Not(key_lt(cx, a, b)))


class SupportsSpec(TwoRefs):
    qual = "PluginRef.supports"
    clause = "supports exactly when group, name and major agree and minor is not smaller"

    @staticmethod
    def expected(cx, a, b):
        ga, na, va = key_terms(a, cx)
        gb, nb, vb = key_terms(b, cx)
        return z3.And(ga == gb, na == nb, va[0] == vb[0], va[1] >= vb[1])


class HashSpec(FnSpec):
    file = "schema/plugins.py"
    qual = "PluginRef.__hash__"
    props = ("C16",)

    def setup(self, cx):
        return A(self=SRef.fresh("PluginRef", "a"))

    def result(self, cx, a):
        g, n, v = key_terms(a.self, cx)
        f = z3.Function("PluginRef_hash", z3.StringSort(), z3.StringSort(), z3.IntSort(), z3.IntSort(), z3.IntSort(), z3.IntSort())
        return SInt(f(g, n, *v))

    def ensures(self, cx, a, res):
        # self-composition: run the real body on a second, key-equal object: the results must agree
        if getattr(cx, "_in_hash2", False) or cx.run.spec is not self:
            return []
        b = SRef.fresh("PluginRef", "b")
        cx._in_hash2 = True
        try:
            mi, real = cx.run.registry.class_home("PluginRef")
            q, node = mi.find_method(real, "__hash__")
            res_b = cx.run.interp.inline_call(cx, RepoFunc(mi, q, node, bound=b, kind="method"), [b], {}, spec=self)
        finally:
            cx._in_hash2 = False
        ok = z3.BoolVal(False)
        if isinstance(res, SInt) and isinstance(res_b, SInt):
            ok = z3.Implies(key_eq(cx, a.self, b), res.t == res_b.t)
        return [("equal-keys-hash-equal", ok, "a == b implies hash(a) == hash(b)")]


class DerivedOrder(TwoRefs):
    file = FUNCTOOLS
    props = ("C16",)

    def setup(self, cx):
        a = super().setup(cx)
        return a


class GtFromGe(DerivedOrder):
    qual = "_gt_from_ge"
    clause = "a > b exactly when key(b) < key(a) (functools.total_ordering body, extracted from CPython, not trusted)"
    expected = staticmethod(lambda cx, a, b: key_lt(cx, b, a))


class LeFromGe(DerivedOrder):
    qual = "_le_from_ge"
    clause = "a <= b exactly when not key(b) < key(a)"
    expected = staticmethod(lambda cx, a, b: z3.Not(key_lt(cx, b, a)))


class LtFromGe(DerivedOrder):
    qual = "_lt_from_ge"
    clause = "a < b exactly when key(a) < key(b)"
    expected = staticmethod(lambda cx, a, b: key_lt(cx, a, b))


def lemma_total_order():
    """From the contracts: the induced relation is a total order consistent with ==."""

    class _Cx:  # minimal stand-in: key_terms only reads fields through py_getattr -> heap arrays
        heap = {}

        def heap_array(self, field, ft):
            if field not in self.heap:
                self.heap[field] = z3.Const(f"H0_{field}", z3.ArraySort(z3.DeclareSort("Ref"), ft.sort()))
            return self.heap[field]

    cx = _Cx()
    a, b, c = (SRef.fresh("PluginRef", n) for n in "abc")
    ge = lambda x, y: z3.Not(key_lt(cx, x, y))  # noqa: E731  (GeSpec's postcondition)
    eq = lambda x, y: key_eq(cx, x, y)  # noqa: E731
    yield "reflexive", [], ge(a, a)
    yield "antisymmetric-wrt-eq", [ge(a, b), ge(b, a)], eq(a, b)
    yield "transitive", [ge(a, b), ge(b, c)], ge(a, c)
    yield "total", [], z3.Or(ge(a, b), ge(b, a))
    yield "trichotomy", [], z3.And(z3.Or(key_lt(cx, a, b), eq(a, b), key_lt(cx, b, a)), z3.Not(z3.And(key_lt(cx, a, b), eq(a, b))), z3.Not(z3.And(key_lt(cx, a, b), key_lt(cx, b, a))))
    yield "strict-weak-order-for-sort", [z3.Not(key_lt(cx, a, b)), z3.Not(key_lt(cx, b, a)), z3.Not(key_lt(cx, b, c)), z3.Not(key_lt(cx, c, b))], z3.And(z3.Not(key_lt(cx, a, c)), z3.Not(key_lt(cx, c, a)))


# ------------------------------------------------------------------------------------------------
# plugin groups: _add_ep / versions / resolve   (plugin/interface.py)

from pyvc import regex as RX  # noqa: E402
from pyvc.api import SRC, filter_comprehension  # noqa: E402
from pyvc.containers import TSeq  # noqa: E402
from pyvc.engine import Env, Frame, ModuleInfo  # noqa: E402
from pyvc.values import SVal, fresh_name  # noqa: E402

ClassDecl("Dist", {"name": STR, "version": STR})
ClassDecl("EntryPoint", {"dist": TRef("Dist")})
REFSEQ = TSeq(TRef("PluginRef"))

epn_name = z3.Function("epn_name", z3.StringSort(), z3.StringSort())
epn_ver = [z3.Function(f"epn_v{i}", z3.StringSort(), z3.IntSort()) for i in range(3)]
has_ns = z3.Function("epn_has_namespace", z3.StringSort(), z3.BoolSort())


def types_const(cx, name):
    mi = ModuleInfo.load(SRC / "plugin/types.py")
    return cx.run.interp.resolve_name(cx, Frame(mi, "<module>", Env(None)), name)


def epname_ok(cx, s_term):
    return RX.fullmatch(types_const(cx, "EP_NAME_REGEX"), s_term)


def qualname_ok(cx, s_term):
    return RX.fullmatch(types_const(cx, "QUAL_NAME"), s_term)


class Opaque(SVal):
    """Container whose content is irrelevant to the property (writes are noted for the frame)."""

    def __init__(self, name):
        self.name = name

    def py_truth(self, cx):
        return True

    def meth_pop(self, cx, *a):
        cx.note_write(("opaque", self.name), self)
        return None

    def py_setitem(self, cx, k, v):
        cx.note_write(("opaque", self.name), self)


def LST(t):
    return SSeq(TRef("PluginRef"), t)


def ascending(cx, seq_term, tag="asc"):
    l = LST(seq_term)
    i, j = z3.Int(fresh_name(tag + "_i")), z3.Int(fresh_name(tag + "_j"))
    return z3.ForAll([i, j], z3.Implies(z3.And(0 <= i, i < j, j < l.n), z3.Not(key_lt(cx, l.at(j), l.at(i)))))


def group_obj(cx):
    g = SObj("PluginGroup", name="self")
    g.fields["_VERSIONS"] = SMap.fresh(STR, REFSEQ, "VERSIONS")
    g.fields["_ENTRY_POINTS"] = SMap.fresh(STR, TRef("EntryPoint"), "EPS")
    g.fields["_LOADED_PLUGINS"] = Opaque("_LOADED_PLUGINS")
    g.fields["gname"] = SStr.fresh("gname")
    g.is_base = z3.Bool("self_is_exactly_PluginGroup")
    g.dyn_class = SClass("PluginGroupSubclass", sym_is={"PluginGroup": g.is_base})
    return g


def versions_inv(cx, g, tag="inv"):
    """Class invariant of a plugin group: every version list is ascending, keyed by plain (non-entry-point) names."""
    vm = g.fields["_VERSIONS"]
    k = z3.String(fresh_name(tag + "_k"))
    return z3.ForAll([k], z3.Implies(vm.has(k), ascending_k(cx, vm, k, tag)))


def ascending_k(cx, vm, k, tag):
    return ascending(cx, vm.get_term(k), tag)


def make_ref_ctor(group_term_fn):
    def ctor(cx, **kw):
        r = SRef.fresh("PluginRef", "newref")
        g = kw.get("group")
        g_t = g.t if isinstance(g, SStr) else (z3.StringVal(g) if isinstance(g, str) else group_term_fn(cx))
        cx.assume(r.py_getattr(cx, "group").t == g_t)
        n = kw["name"]
        cx.assume(r.py_getattr(cx, "name").t == (n.t if isinstance(n, SStr) else z3.StringVal(n)))
        v = kw["version"]
        if isinstance(v, tuple):
            v = STuple(v)
        if hasattr(v, "force"):
            v = v.force(cx, "ValidationError")
        for x, y in zip(r.py_getattr(cx, "version").items, v.items):
            cx.assume(x.t == (y.t if isinstance(y, SInt) else z3.IntVal(y)))
        cx.ghost.setdefault("created_refs", []).append(r)
        return r

    return ctor


from . import epnames  # noqa: E402


class FromEpName(epnames.FromEpNameBody):
    """from_ep_name: body verified on the names to_ep_name makes (epnames.FromEpNameBody); callers see the (name, version) of the entry point name."""

    def result(self, cx, a):
        s = a.ep_name.t
        for f in epn_ver:
            cx.assume(f(s) >= 0)
        cx.assume(qualname_ok(cx, epn_name(s)))
        return (SStr(epn_name(s)), STuple(tuple(SInt(f(s)) for f in epn_ver)))


class HasNamespace(FnSpec):
    file = "plugin/types.py"
    qual = "ep_name_has_namespace"
    props = ("C16",)

    def result(self, cx, a):
        return SBool(has_ns(a.ep_name.t))


class AddEp(FnSpec):
    file = "plugin/interface.py"
    qual = "PluginGroup._add_ep"
    props = ("C16",)

    def init(self):
        self.bindings["EPName"] = lambda cx, s: (s if cx.decide(epname_ok(cx, s.t)) else cx.py_raise("TypeError", "not an entry point name"))
        self.bindings["AnyPluginRef"] = make_ref_ctor(None)
        self.bindings["eprint"] = lambda cx, *a: None
        self.bindings["EP_NAME_REGEX"] = "<regex>"

    def setup(self, cx):
        g = group_obj(cx)
        a = A(self=g, epname_str=SStr.fresh("epname"), ep_obj=SRef.fresh("EntryPoint", "ep"))
        a.old_versions = g.fields["_VERSIONS"].snapshot()
        a.old_eps = g.fields["_ENTRY_POINTS"].snapshot()
        return a

    def requires(self, cx, a):
        return [("group-invariant", versions_inv(cx, a.self, "pre"))]

    def raises(self, cx, a):
        s = a.epname_str.t
        return {"ValueError": z3.Or(z3.Not(epname_ok(cx, s)), z3.And(z3.Not(a.self.is_base), z3.Not(has_ns(s))))}

    def on_raise(self, cx, a, exc):
        return [("rejected-without-effect", z3.And(a.self.fields["_VERSIONS"].same(cx, a.old_versions), a.self.fields["_ENTRY_POINTS"].same(cx, a.old_eps)), "invalid names are rejected without changing the group")]

    def ensures(self, cx, a, res):
        s = a.epname_str.t
        g = a.self
        vm, old = g.fields["_VERSIONS"], a.old_versions
        name = epn_name(s)
        created = cx.ghost.get("created_refs", [])
        out = []
        if len(created) != 1:
            return [("creates-one-reference", z3.BoolVal(False), "registers exactly one reference")]
        pref = created[0]
        gk, nk, vk = key_terms(pref, cx)
        out.append(("new-ref-key", z3.And(gk == g.fields["gname"].t, nk == name, *[v == f(s) for v, f in zip(vk, epn_ver)]), "the registered reference is (group, name, version) of the entry point name"))
        old_n = z3.If(old.has(name), LST(old.get_term(name)).n, 0)
        oldl, newl = LST(old.get_term(name)), LST(vm.get_term(name))
        new_list = vm.get_term(name)
        cl = "a plugin group lists every registered version of a plugin"
        i, j = z3.Int("m_i"), z3.Int("m_j")
        out.append(("lists-registered:name-present", vm.has(name), cl))
        out.append(("lists-registered:one-more-entry", newl.n == old_n + 1, cl))
        sorts = cx.ghost.get("sorts")
        if sorts:  # place of old entry i in the new list, as witnessed by the (trusted) sort permutation
            w = sorts[-1][3]
            keeps = z3.ForAll([i], z3.Implies(z3.And(0 <= i, i < old_n), z3.And(0 <= w(i), w(i) < newl.n, newl.at_term(w(i)) == oldl.at_term(i))))
        else:
            keeps = z3.ForAll([i], z3.Implies(z3.And(0 <= i, i < old_n), z3.Exists([j], z3.And(0 <= j, j < newl.n, newl.at_term(j) == oldl.at_term(i)))))
        out.append(("lists-registered:keeps-every-old-entry", keeps, cl))
        out.append(("lists-registered:contains-new-entry", z3.Exists([j], z3.And(0 <= j, j < newl.n, newl.at_term(j) == pref.t)), cl))
        out.append(("lists-registered:nothing-else", z3.ForAll([j], z3.Implies(z3.And(0 <= j, j < newl.n), z3.Or(newl.at_term(j) == pref.t, z3.Exists([i], z3.And(0 <= i, i < old_n, oldl.at_term(i) == newl.at_term(j)))))), cl))
        out.append(("ascending", ascending(cx, new_list, "post"), "... in ascending order"))
        k = z3.String("k_other")
        out.append(("other-names-untouched", z3.ForAll([k], z3.Implies(k != name, z3.And(vm.has(k) == old.has(k), vm.get_term(k) == old.get_term(k)))), "registration of one name leaves the other names' lists unchanged"))
        out.append(("invariant-preserved", versions_inv(cx, g, "post"), "group invariant re-established"))
        eps, oe = g.fields["_ENTRY_POINTS"], a.old_eps
        out.append(("entry-point-stored", z3.And(eps.has(s), eps.get_term(s) == a.ep_obj.t, z3.ForAll([k], z3.Implies(k != s, z3.And(eps.has(k) == oe.has(k), eps.get_term(k) == oe.get_term(k))))), "entry point recorded under its name"))
        return out


LOAD_REFUSED = z3.Bool("group_check_refuses_the_plugin")
TO_EPN = z3.Function("to_ep_name", z3.StringSort(), z3.IntSort(), z3.IntSort(), z3.IntSort(), z3.StringSort())


class PluginInfoStub(SVal):
    def __init__(self, name, version):
        self.name, self.version = name, version

    def py_getattr(self, cx, n):
        if n == "name":
            return self.name
        if n == "version":
            return self.version
        raise Unsupported("Plugin." + n)


class PluginClsStub(SVal):
    def __init__(self, info):
        self.info = info

    def py_truth(self, cx):
        return True

    def py_getattr(self, cx, n):
        if n == "Plugin":
            return self.info
        raise Unsupported("plugin class attribute " + n)


def list_post(cx, vm, old, name, pref, must_contain_new=True):
    """the version list of `name` after adding `pref`: every old entry, the new one, nothing else, ascending; other names untouched"""
    old_n = z3.If(old.has(name), LST(old.get_term(name)).n, 0)
    oldl, newl = LST(old.get_term(name)), LST(vm.get_term(name))
    cl = "a plugin group lists every registered version of a plugin"
    i, j = z3.Int("m_i"), z3.Int("m_j")
    out = [("lists-registered:name-present", vm.has(name), cl)]
    sorts = cx.ghost.get("sorts")
    if sorts:
        w = sorts[-1][3]
        keeps = z3.ForAll([i], z3.Implies(z3.And(0 <= i, i < old_n), z3.And(0 <= w(i), w(i) < newl.n, newl.at_term(w(i)) == oldl.at_term(i))))
    else:
        keeps = z3.ForAll([i], z3.Implies(z3.And(0 <= i, i < old_n), z3.Exists([j], z3.And(0 <= j, j < newl.n, newl.at_term(j) == oldl.at_term(i)))))
    out.append(("lists-registered:keeps-every-old-entry", keeps, cl))
    if must_contain_new:
        out.append(("lists-registered:one-more-entry", newl.n == old_n + 1, cl))
        out.append(("lists-registered:contains-new-entry", z3.Exists([j], z3.And(0 <= j, j < newl.n, newl.at_term(j) == pref.t)), cl))
    out.append(("lists-registered:nothing-else", z3.ForAll([j], z3.Implies(z3.And(0 <= j, j < newl.n), z3.Or(newl.at_term(j) == pref.t, z3.Exists([i], z3.And(0 <= i, i < old_n, oldl.at_term(i) == newl.at_term(j)))))), cl))
    out.append(("ascending", ascending(cx, vm.get_term(name), "post"), "... in ascending order"))
    k = z3.String("k_other")
    out.append(("other-names-untouched", z3.ForAll([k], z3.Implies(k != name, z3.And(vm.has(k) == old.has(k), vm.get_term(k) == old.get_term(k)))), "registration of one name leaves the other names' lists unchanged"))
    return out


class ManualRegister(FnSpec):
    """register_in_group(pgroup, ...)'s worker: registration without an entry point"""

    file = "plugin/util.py"
    qual = "register_in_group.<locals>.manual_register"
    props = ("C16",)

    def init(self):
        self.bindings["violently"] = True
        self.bindings["eprint"] = lambda cx, *a: None
        self.bindings["to_ep_name"] = lambda cx, n, v: SStr(TO_EPN(n.t, *[x.t for x in v.items]))

    def setup(self, cx):
        g = group_obj(cx)

        def load(cx2, epn, plugin):
            if cx2.decide(LOAD_REFUSED):
                cx2.py_raise("TypeError", "refused by the group's check")

        g.fields["_load_plugin"] = load
        g.fields["_ENTRY_POINTS"] = Opaque("_ENTRY_POINTS")  # manual registrations store None there; not read by versions/resolve
        self.bindings["pgroup"] = g
        info = PluginInfoStub(SStr.fresh("plugin_name"), STuple(tuple(SInt.fresh(f"v{i}") for i in range(3))))
        a = A(plugin=PluginClsStub(info))
        a.g, a.info = g, info
        a.old_versions = g.fields["_VERSIONS"].snapshot()
        return a

    def requires(self, cx, a):
        return [("group-invariant", versions_inv(cx, a.g, "pre"))]

    def raises(self, cx, a):
        return {"TypeError": LOAD_REFUSED}

    def _ref(self, cx, a):
        created = cx.ghost.get("created_refs", [])
        return created[0] if len(created) == 1 else None

    def on_raise(self, cx, a, exc):
        pref = self._ref(cx, a)
        if pref is None:
            return [("creates-one-reference", z3.BoolVal(False), "registers exactly one reference")]
        # whatever becomes of the refused plugin's own entry: what was registered before stays listed, in order
        return [(n, g, "a refused registration loses no registered version: " + c) for n, g, c in list_post(cx, a.g.fields["_VERSIONS"], a.old_versions, a.info.name.t, pref, must_contain_new=False)]

    def ensures(self, cx, a, res):
        pref = self._ref(cx, a)
        if pref is None:
            return [("creates-one-reference", z3.BoolVal(False), "registers exactly one reference")]
        gk, nk, vk = key_terms(pref, cx)
        out = [("new-ref-key", z3.And(gk == a.g.fields["gname"].t, nk == a.info.name.t, *[v == x.t for v, x in zip(vk, a.info.version.items)]), "the registered reference is (group, name, version) of the plugin's inner Plugin class")]
        out += list_post(cx, a.g.fields["_VERSIONS"], a.old_versions, a.info.name.t, pref)
        out.append(("invariant-preserved", versions_inv(cx, a.g, "post"), "group invariant re-established"))
        out.append(("returns-the-plugin", z3.BoolVal(res is a.plugin), "usable as a decorator"))
        return out


class GroupContains(FnSpec):
    file = "plugin/interface.py"
    qual = "PluginGroup.__contains__"
    props = ("C16",)

    def init(self):
        self.bindings["plugin_args"] = lambda cx, key, *r: STuple((cx.run_args.kname, cx.run_args.kver))

    def setup(self, cx):
        from pyvc.values import SMaybe

        g = group_obj(cx)
        a = A(self=g, key=SStr.fresh("key"))
        a.kname = SStr.fresh("key_name")
        a.kver = SMaybe(z3.Bool("key_has_no_version"), STuple(tuple(SInt.fresh(f"kv{i}") for i in range(3))))
        cx.run_args = a
        return a

    def raises(self, cx, a):
        return {}

    def ensures(self, cx, a, res):
        vm = a.self.fields["_VERSIONS"]
        name = a.kname.t
        L = LST(vm.get_term(name))
        i = z3.Int("ci")
        r = SRef("PluginRef", L.at_term(i))
        gk, nk, vk = key_terms(r, cx)
        same = z3.And(gk == a.self.fields["gname"].t, nk == name, *[v == x.t for v, x in zip(vk, a.kver.val.items)])
        listed_some = z3.And(vm.has(name), L.n > 0)
        want = z3.If(a.kver.isnone, listed_some, z3.And(listed_some, z3.Exists([i], z3.And(0 <= i, i < L.n, same))))
        return [("name-listed-and-that-version-registered", is_bool_eq(res, want), "`name in group` holds iff some version of the name is registered; `(name, version) in group` iff exactly that version is (equality of references is equality of (group, name, version))")]


# ---- the rest of the lookup path: _get_unsafe, __getitem__, _ensure_is_loaded ------------------------------------------------------------------
RESOLVED_SOME = z3.Bool("resolve_finds_a_supporting_version")
ALREADY_LOADED = z3.Bool("plugin_of_that_reference_is_already_loaded")
KEY_IN_GROUP = z3.Bool("key_is_in_the_group")
SAME_GROUP = z3.Bool("reference_belongs_to_this_group")


class RefTok(SVal):
    def py_truth(self, cx):
        return True

    def py_getattr(self, cx, n):
        if n == "group":
            return GroupNameTok(z3.If(SAME_GROUP, z3.StringVal("this-group"), z3.StringVal("another-group")))
        if n in ("name", "version"):
            return n + "-of-the-reference"
        raise Unsupported("reference attribute " + n)


class GroupNameTok(SStr):
    pass


class LoadedMap(SVal):
    def __init__(self):
        self.stored = []

    def py_contains(self, cx, k):
        return ALREADY_LOADED if isinstance(k, RefTok) else (_ for _ in ()).throw(Unsupported("membership of another key"))

    def py_getitem(self, cx, k):
        cx.effect("loaded-get", k)
        return ("loaded-plugin-of", k)

    def py_setitem(self, cx, k, v):
        cx.effect("loaded-set", k, v)


class GetUnsafe(FnSpec):
    file = "plugin/interface.py"
    qual = "PluginGroup._get_unsafe"
    props = ("C16",)

    def setup(self, cx):
        me = SObj("PluginGroupLookup", name="self")
        self.ref = RefTok()
        from pyvc.values import SMaybe

        me.fields["resolve"] = lambda cx2, n, v: (cx2.effect("resolve", n, v), SMaybe(z3.Not(RESOLVED_SOME), self.ref))[1]
        me.fields["_ensure_is_loaded"] = lambda cx2, r: cx2.effect("ensure-loaded", r)
        me.fields["_LOADED_PLUGINS"] = LoadedMap()
        return A(self=me, p_name=SStr.fresh("p_name"), version="requested-version")

    def raises(self, cx, a):
        return {"KeyError": z3.Not(RESOLVED_SOME)}

    def ensures(self, cx, a, res):
        kinds = [e[0] for e in cx.fx]
        ok = kinds == ["resolve", "ensure-loaded", "loaded-get"] and cx.fx[0][1] is a.p_name and cx.fx[0][2] == "requested-version"
        ref_of = lambda v: v.val if hasattr(v, "val") else v  # noqa: E731
        same = ok and ref_of(cx.fx[1][1]) is self.ref and ref_of(cx.fx[2][1]) is self.ref and isinstance(res, tuple) and ref_of(res[1]) is self.ref
        return [("the-plugin-of-the-resolved-reference-loaded-first", z3.BoolVal(bool(same)), "the class handed out is the loaded plugin of exactly the reference resolve() chose for (name, version) — loaded before it is looked up; no supporting version means KeyError")]


class GroupGetItem(FnSpec):
    file = "plugin/interface.py"
    qual = "PluginGroup.__getitem__"
    props = ("C16",)

    def setup(self, cx):
        me = SObj("PluginGroupLookup2", name="self")
        me.fields["get"] = lambda cx2, k, *r: (cx2.effect("get", k, r), "what-get-returns")[1]
        me.fields["name"] = "this-group"
        return A(self=me, key=SStr.fresh("key"))

    def raises(self, cx, a):
        return {"KeyError": z3.Not(KEY_IN_GROUP)}

    def ensures(self, cx, a, res):
        g = [e for e in cx.fx if e[0] == "get"]
        return [("get-for-the-same-key", z3.BoolVal(res == "what-get-returns" and len(g) == 1 and g[0][1] is a.key and tuple(g[0][2]) == ()), "group[key] is get(key) for keys the group contains (KeyError otherwise)")]


class EnsureLoaded(FnSpec):
    file = "plugin/interface.py"
    qual = "PluginGroup._ensure_is_loaded"
    props = ("C16",)

    def init(self):
        self.bindings["util"] = type("U", (SVal,), {"meth_to_ep_name": lambda s, cx, n, v: ("ep-name-of", n, v)})()

    def setup(self, cx):
        me = SObj("PluginGroupLookup", name="self")
        me.fields["name"] = SStr(z3.StringVal("this-group"))
        me.fields["_LOADED_PLUGINS"] = LoadedMap()

        class Ep(SVal):
            def meth_load(s, cx2):
                cx2.effect("ep-load")
                return "the-loaded-class"

        class Eps(SVal):
            def py_getitem(s, cx2, k):
                cx2.effect("ep-get", k)
                return Ep()

        me.fields["_ENTRY_POINTS"] = Eps()
        me.fields["_load_plugin"] = lambda cx2, epn, p: cx2.effect("check-and-init", epn, p)
        return A(self=me, ref=RefTok())

    def raises(self, cx, a):
        return {"AssertionError": z3.Not(SAME_GROUP)}

    def ensures(self, cx, a, res):
        kinds = [e[0] for e in cx.fx]
        want = ["ep-get", "ep-load", "loaded-set", "check-and-init"]
        epn = ("ep-name-of", "name-of-the-reference", "version-of-the-reference")
        ok = kinds == want and cx.fx[0][1] == epn and cx.fx[2][1] is a.ref and cx.fx[2][2] == "the-loaded-class" and cx.fx[3][1] == epn and cx.fx[3][2] == "the-loaded-class"
        return [
            ("loaded-once", z3.Implies(ALREADY_LOADED, z3.BoolVal(not kinds)), "a plugin that is loaded is not loaded again"),
            ("otherwise-loaded-from-its-own-entry-point-stored-and-checked", z3.Implies(z3.Not(ALREADY_LOADED), z3.BoolVal(bool(ok))), "otherwise the entry point named after exactly this reference's (name, version) is loaded, the class is stored under the reference, and the group's checks and initialisation run on it"),
        ]


# ---- _load_plugin: checks before anything is initialised ----------------------------------------------------------------------------------------
HAS_PLUGIN_SECTION = z3.Bool("class_has_an_inner_Plugin_section")
INFO_REFUSED, COMMON_REFUSED, GROUP_REFUSED = z3.Bools("plugin_info_does_not_parse common_check_refuses group_check_refuses")
DepS = z3.DeclareSort("PluginDependency")


class TDep:
    def sort(self):
        return DepS

    def wrap(self, t):
        return DepV(t)

    def unwrap(self, cx, v):
        return v.t


class DepV(SVal):
    def __init__(self, t):
        self.t = t

    def py_getattr(self, cx, n):
        if n == "group":
            return DepGroupKey(self.t)
        raise Unsupported("dependency attribute " + n)


class DepGroupKey(SVal):
    def __init__(self, t):
        self.t = t


class LoadPlugin(FnSpec):
    file = "plugin/interface.py"
    qual = "PluginGroup._load_plugin"
    props = ("C16", "C13")

    def init(self):
        from pyvc.containers import SSet

        def inv(cx, env, it):
            a = cx.ghost["lp"]
            d = z3.Const(fresh_name("ld"), DepS)
            return [("dependencies-so-far-ensured-in-their-own-group", z3.ForAll([d], a.ensured.has(d) == z3.Select(it.processed, d)))]

        self.loops[0] = LoopSpec(inv, modifies=["dep_ref", "dep_grp"], havoc_inplace=["self.ensured_log"])

    def setup(self, cx):
        from pyvc.containers import SSet

        me = SObj("PluginGroupLoad", name="self")
        deps = SSet.fresh(TDep(), "explicit_dependencies")
        ensured = SSet(TDep())
        me.fields["ensured_log"] = ensured

        class PluginDict(SVal):
            def meth_get(s, cx2, k):
                if k != "Plugin":
                    raise Unsupported("another key of the class dict")
                return SBool(HAS_PLUGIN_SECTION)

        class PluginCls(SVal):
            def __init__(s):
                s.info = "raw-plugin-section"

            def py_getattr(s, cx2, n):
                if n == "__dict__":
                    return PluginDict()
                if n == "Plugin":
                    return s.info
                raise Unsupported("plugin class attribute " + n)

            def py_setattr(s, cx2, n, v):
                if n != "Plugin":
                    raise Unsupported("assignment to plugin class attribute " + n)
                cx2.effect("set-parsed-info", v)
                s.info = v

        class InfoCls(SVal):
            def meth_parse_info(s, cx2, raw, **kw):
                cx2.effect("parse-info", raw, kw.get("ep_name"))
                if cx2.decide(INFO_REFUSED):
                    cx2.py_raise("TypeError", "plugin info does not parse / does not agree with the entry point name")
                return "parsed-plugin-info"

        class GroupInfo(SVal):
            def py_getattr(s, cx2, n):
                if n == "plugin_info_class":
                    return InfoCls()
                raise Unsupported("group Plugin attribute " + n)

        me.fields["Plugin"] = GroupInfo()

        def refusing(tag, cond):
            def f(cx2, epn, plugin):
                cx2.effect(tag, epn, plugin)
                if cx2.decide(cond):
                    cx2.py_raise("TypeError", tag + " refuses")

            return f

        me.fields["_check_common"] = refusing("common-check", COMMON_REFUSED)
        me.fields["check_plugin"] = refusing("group-check", GROUP_REFUSED)
        me.fields["_explicit_plugin_deps"] = lambda cx2, p: (cx2.effect("deps"), deps)[1]
        me.fields["init_plugin"] = lambda cx2, p: cx2.effect("init", p)

        class DepGroup(SVal):
            def __init__(s, key):
                s.key = key

            def meth__ensure_is_loaded(s, cx2, dep):
                cx2.oblige("dependency-loaded-in-the-group-it-names", "call-pre", z3.BoolVal(isinstance(dep, DepV)) if not isinstance(dep, DepV) else dep.t == s.key.t, clause="a dependency is ensured in the plugin group its own reference names")
                ensured.py_call_method(cx2, "add", [dep], {})

        class Groups(SVal):
            def py_getitem(s, cx2, k):
                if not isinstance(k, DepGroupKey):
                    raise Unsupported("plugingroups[...] of something else")
                return DepGroup(k)

        self.bindings["plugingroups"] = Groups()
        a = A(self=me, ep_name=SStr.fresh("ep_name"), plugin=PluginCls())
        a.deps, a.ensured = deps, ensured
        cx.ghost["lp"] = a
        return a

    def raises(self, cx, a):
        return {"TypeError": z3.Or(z3.Not(HAS_PLUGIN_SECTION), INFO_REFUSED, COMMON_REFUSED, GROUP_REFUSED)}

    def on_raise(self, cx, a, exc):
        return [("a-refused-plugin-is-never-initialised", z3.BoolVal(not [e for e in cx.fx if e[0] in ("init", "deps")]), "a plugin that fails any check is neither initialised nor are its dependencies loaded")]

    def ensures(self, cx, a, res):
        kinds = [e[0] for e in cx.fx]
        d = z3.Const(fresh_name("ed"), DepS)
        ok_order = kinds == ["parse-info", "set-parsed-info", "common-check", "group-check", "deps", "init"]
        ok_args = ok_order and cx.fx[0][1] == "raw-plugin-section" and cx.fx[0][2] is a.ep_name and cx.fx[1][1] == "parsed-plugin-info" and cx.fx[2][1] is a.ep_name and cx.fx[2][2] is a.plugin and cx.fx[3][1] is a.ep_name and cx.fx[3][2] is a.plugin and cx.fx[5][1] is a.plugin
        return [
            ("info-parsed-against-the-entry-point-name-then-both-checks-then-init", z3.BoolVal(bool(ok_args)), "the inner Plugin section is parsed against the entry point name it was registered under, the common check and the group's own check (for schemas: the type and override checks of C13) run on the class, and only then it is initialised"),
            ("every-declared-dependency-loaded-before-init", z3.ForAll([d], a.ensured.has(d) == a.deps.has(d)), "all explicit dependencies are ensured, each in its own group, before the plugin is initialised"),
        ]


class Versions(FnSpec):
    file = "plugin/interface.py"
    qual = "PluginGroup.versions"
    props = ("C16",)

    def init(self):
        self.comps[0] = filter_comprehension

    def setup(self, cx):
        g = group_obj(cx)
        a = A(self=g, p_name=SStr.fresh("p_name"))
        has_v = z3.Bool("version_given")
        from pyvc.values import SMaybe

        a.version = SMaybe(z3.Not(has_v), STuple(tuple(SInt.fresh(f"rv{i}") for i in range(3))))
        return a

    def requires(self, cx, a):
        # instance of the group invariant for the requested name
        return [("registered-list-ascending", ascending(cx, self.source_list(cx, a), "pre")), ("version-nonneg", z3.And(*[x.t >= 0 for x in a.version.val.items]))]

    def source_list(self, cx, a):
        """The registered list of p_name ([] if unknown), named by a fresh constant (definitional extension)."""
        if "src_c" not in a:
            vm = a.self.fields["_VERSIONS"]
            a.src_c = z3.Const(fresh_name("registered"), REFSEQ.sort())
            cx.assume(z3.If(vm.has(a.p_name.t), a.src_c == vm.get_term(a.p_name.t), LST(a.src_c).n == 0))
        return a.src_c

    def supp(self, cx, a, ref_term):
        """ref supports the request (group of self, p_name, version) — SupportsSpec's postcondition."""
        r = SRef("PluginRef", ref_term)
        g, n, v = key_terms(r, cx)
        rv = [x.t for x in a.version.val.items]
        return z3.And(g == a.self.fields["gname"].t, n == a.p_name.t, v[0] == rv[0], v[1] >= rv[1])

    def result(self, cx, a):
        res = SSeq.fresh(TRef("PluginRef"), "versions_result")
        cx.ghost["versions_witness"] = (z3.Function(fresh_name("vw_f"), z3.IntSort(), z3.IntSort()), z3.Function(fresh_name("vw_g"), z3.IntSort(), z3.IntSort()))
        return res

    def post(self, cx, a, res_t, wit):
        """Ghost-witnessed statement: `f` embeds the result order-preservingly into the registered list,
        `g` sends every supporting registered version to its place in the result."""
        src = self.source_list(cx, a)
        none = a.version.isnone
        R, S = LST(res_t), LST(src)
        out = [("no-version:all-registered", z3.Implies(none, R.ext_eq(S)), "lists every registered version")]
        if wit is None:  # no filtering happened on this path: the statement must hold for arbitrary maps
            wit = (z3.Function(fresh_name("any_f"), z3.IntSort(), z3.IntSort()), z3.Function(fresh_name("any_g"), z3.IntSort(), z3.IntSort()))
        if True:
            f, g = wit
            j, i, j2 = z3.Int(fresh_name("vj")), z3.Int(fresh_name("vi")), z3.Int(fresh_name("vj2"))
            n_r, n_s = R.n, S.n
            A_ = z3.ForAll([j], z3.Implies(z3.And(0 <= j, j < n_r), z3.And(0 <= f(j), f(j) < n_s, R.at_term(j) == S.at_term(f(j)), self.supp(cx, a, R.at_term(j)), g(f(j)) == j)))
            B_ = z3.ForAll([j, j2], z3.Implies(z3.And(0 <= j, j < j2, j2 < n_r), f(j) < f(j2)))
            C_ = z3.ForAll([i], z3.Implies(z3.And(0 <= i, i < n_s, self.supp(cx, a, S.at_term(i))), z3.And(0 <= g(i), g(i) < n_r, f(g(i)) == i)))
            out.append(("version:only-supporting-registered", z3.Implies(z3.Not(none), A_), "with a version: only registered versions that support the request"))
            out.append(("version:order-kept", z3.Implies(z3.Not(none), B_), "order of the registered list kept"))
            out.append(("version:all-supporting", z3.Implies(z3.Not(none), C_), "with a version: every registered version that supports the request"))
        out.append(("ascending", ascending(cx, res_t, "vres"), "in ascending order"))
        return out

    def ensures(self, cx, a, res):
        if isinstance(res, list):
            if res:
                return [("result-shape", z3.BoolVal(False), "result is a list of references")]
            res_t = SSeq.empty(TRef("PluginRef")).t
        elif isinstance(res, SSeq):
            res_t = res.t
        else:
            return [("result-shape", z3.BoolVal(False), "result is a list of references")]
        if cx.run.spec is self:
            fl = cx.ghost.get("filters")
            wit = (fl[-1][2], fl[-1][3]) if fl else None
        else:
            wit = cx.ghost.get("versions_witness")
        return self.post(cx, a, res_t, wit)


class Resolve(FnSpec):
    file = "plugin/interface.py"
    qual = "PluginGroup.resolve"
    props = ("C16",)

    def setup(self, cx):
        return Versions.setup(self, cx)

    requires = Versions.requires
    source_list = Versions.source_list
    supp = Versions.supp

    def ensures(self, cx, a, res):
        S = LST(self.source_list(cx, a))
        i = z3.Int(fresh_name("ri"))
        none = a.version.isnone
        ok = lambda t: z3.Or(none, self.supp(cx, a, t))  # noqa: E731
        any_ok = z3.Exists([i], z3.And(0 <= i, i < S.n, ok(S.at_term(i))))
        if res is None:
            return [("none-iff-no-supporting-version", z3.Not(any_ok), "resolves to none only when no registered version supports the request")]
        if not isinstance(res, SRef):
            return [("result-shape", z3.BoolVal(False), "result is a reference or None")]
        r = res
        member = z3.Exists([i], z3.And(0 <= i, i < S.n, S.at_term(i) == r.t))
        newest = z3.ForAll([i], z3.Implies(z3.And(0 <= i, i < S.n, ok(S.at_term(i))), z3.Not(key_lt(cx, r, S.at(i)))))
        return [
            ("registered", member, "the resolved reference is a registered version"),
            ("supports-request", ok(r.t), "... that supports the request"),
            ("newest", newest, "... and is the newest such version"),
        ]


# ------------------------------------------------------------------------------------------------
# PluginGroup.get: every request is resolved afresh; version-less handles are marked

ReqKey = z3.DeclareSort("PluginRequestKey")
RQ_NAME = z3.Function("request_name", ReqKey, z3.StringSort())
NOT_FOUND = z3.Function("no_compatible_version_registered", z3.StringSort(), z3.BoolSort(), z3.IntSort(), z3.IntSort(), z3.IntSort(), z3.BoolSort())


class ReqKeyVal(SVal):
    def __init__(self, t, is_str):
        self.t, self.is_str = t, is_str

    def py_isinstance(self, cx, c):
        return self.is_str if c == "str" else c == "object"


class PluginCls(SVal):
    def __init__(self, call_id):
        self.call_id = call_id

    def py_truth(self, cx):
        return True


class MarkedCls(SVal):
    def __init__(self, inner):
        self.inner = inner

    def py_truth(self, cx):
        return True


class UndefVersionNS(SVal):
    def py_getattr(self, cx, name):
        if name == "_mark_class":
            return lambda cx2, c: MarkedCls(c)
        raise Exception("UndefVersion." + name)


class GroupGet(FnSpec):
    file = "plugin/interface.py"
    qual = "PluginGroup.get"
    props = ("C16",)

    def init(self):
        self.bindings["UndefVersion"] = UndefVersionNS()
        self.bindings["cast"] = lambda cx, t, v: v
        self.bindings["plugin_args"] = self.plugin_args

    def plugin_args(self, cx, key, version=None, **kw):
        a = cx.run_args
        # name from the key; the version is the explicit one, else the one carried by the key (if any)
        return (SStr(RQ_NAME(key.t)), a.eff_version)

    def setup(self, cx):
        from pyvc.values import SMaybe

        g = group_obj(cx)
        g.cls = "PluginGroupForGet"
        key = ReqKeyVal(z3.Const("request_key", ReqKey), z3.Bool("key_is_str"))
        has_v = z3.Bool("effective_version_given")
        a = A(self=g, key=key, version=None)
        a.eff_version = SMaybe(z3.Not(has_v), STuple(tuple(SInt.fresh(f"ev{i}") for i in range(3))))
        cx.run_args = a
        return a

    def nf(self, cx, a):
        v = a.eff_version
        return NOT_FOUND(RQ_NAME(a.key.t), z3.Not(v.isnone), *[x.t for x in v.val.items])

    def ensures(self, cx, a, res):
        calls = [e for e in cx.fx if e[0] == "get_unsafe"]
        out = [("resolved-afresh-exactly-once", z3.BoolVal(len(calls) == 1), "every request is resolved against the currently registered versions (no stale answer)")]
        if res is None:
            return out + [("none-only-if-nothing-compatible", self.nf(cx, a), "None only when no registered version supports the request")]
        out.append(("found-when-compatible", z3.Not(self.nf(cx, a)), "a compatible registered version is handed out"))
        none = a.eff_version.isnone
        if isinstance(res, MarkedCls):
            out.append(("marked-iff-versionless", none, "a class obtained without stating a version is handed out marked (and therefore cannot be subclassed)"))
            out.append(("marks-the-class-resolved-now", z3.BoolVal(len(calls) == 1 and isinstance(res.inner, PluginCls) and res.inner.call_id == calls[0][-2]), "the marked class is the one resolved by this request"))
        elif isinstance(res, PluginCls):
            out.append(("marked-iff-versionless", z3.Not(none), "a class obtained with a version is the real class"))
            out.append(("is-the-class-resolved-now", z3.BoolVal(len(calls) == 1 and res.call_id == calls[0][-2]), "the class is the one resolved by this request"))
        else:
            out.append(("result-shape", z3.BoolVal(False), "returns a plugin class or None"))
        return out


def build(reg):
    reg.set_class_home("PluginRef", "schema/plugins.py")
    reg.set_class_home("PluginGroup", "plugin/interface.py")
    reg.set_class_home("PluginGroupSubclass", "plugin/interface.py", "PluginGroup")
    reg.attr_bindings[("PluginGroup", "name")] = lambda cx, o: o.fields["gname"]
    reg.attr_bindings[("PluginGroup", "PluginRef")] = lambda cx, o: make_ref_ctor(lambda cx2: o.fields["gname"].t)
    reg.elem_order["PluginRef"] = key_lt
    reg.elem_eq["PluginRef"] = key_eq  # EqSpec, proved below
    reg.set_class_home("PluginGroupForGet", "plugin/interface.py", "PluginGroup")
    reg.set_class_home("PluginGroupLookup", "plugin/interface.py", "PluginGroup")
    reg.set_class_home("PluginGroupLookup2", "plugin/interface.py", "PluginGroup")
    reg.set_class_home("PluginGroupLoad", "plugin/interface.py", "PluginGroup")
    reg.method_bindings[("PluginGroupLookup2", "__contains__")] = lambda cx, g, k: SBool(KEY_IN_GROUP)

    def get_unsafe(cx, g, name, version=None):
        a = cx.run_args
        cid = len(cx.fx)
        cx.effect("get_unsafe", name, version, cid)
        if cx.decide(NOT_FOUND(name.t, z3.Not(a.eff_version.isnone), *[x.t for x in a.eff_version.val.items])):
            cx.py_raise("KeyError", "no compatible version")
        return PluginCls(cid)

    reg.method_bindings[("PluginGroupForGet", "_get_unsafe")] = get_unsafe
    specs = [EqSpec(), GeSpec(), SupportsSpec(), HashSpec(), GtFromGe(), LeFromGe(), LtFromGe(), AddEp(), ManualRegister(), Versions(), Resolve(), GroupGet(), GroupContains(), GetUnsafe(), GroupGetItem(), EnsureLoaded(), LoadPlugin()]
    for s in specs + [HasNamespace()]:
        reg.add(s)
    specs = specs + epnames.add_epnames(reg, FromEpName)
    from . import plugmeta

    specs = specs + plugmeta.add_plugmeta(reg)
    from . import entrypoints, packerpg, pluginmisc

    specs = specs + entrypoints.add_entrypoints(reg) + pluginmisc.add_pluginmisc(reg) + [x for x in packerpg.add_packerpg(reg) if "C16" in x.props]  # the small functions around registration and lookup (bodies verified on their own)
    return {
        "verify": specs,
        "lemmas": [("total-order", lemma_total_order)],
        "trusted": ["T4 list.sort/sorted yield an ordered permutation provided < is a strict weak order (the proviso is lemma total-order/strict-weak-order-for-sort)", "T5 pydantic field access returns the stored field values"] + epnames.T_EPN + pluginmisc.T_MISC + entrypoints.T_EPS,
        "assumptions": [],
    }
