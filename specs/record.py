"""Contracts for ih5/record.py (IH5UserBlock, IH5Record) shared by C02, C03, C04, C05, C10, C11."""
from __future__ import annotations

import z3

from pyvc.api import A, FnSpec, LoopSpec, SRC
from pyvc.containers import INT, STR, ClassDecl, SMap, SObj, SRef, SSeq, SSet, TOpt, TRef, TSeq
from pyvc.engine import Env, Frame, ModuleInfo, SClass
from pyvc.values import SBool, SInt, SMaybe, SStr, STuple, SVal, Unsupported, fresh_name

from . import hashing
from .common_io import DISK, HEX, PathVal, path_term

# uuids are modelled as strings (their canonical text form); equality of UUID objects = equality of that text (T5)
ClassDecl("IH5UserBlock", {"record_uuid": STR, "patch_index": INT, "patch_uuid": STR, "prev_patch": TOpt(STR), "hdf5_hashsum": TOpt(STR)})

USER_BLOCK_SIZE = 1024


def ub_size(cx):
    mi = ModuleInfo.load(SRC / "ih5/record.py")
    v = cx.run.interp.resolve_name(cx, Frame(mi, "<module>", Env(None), spec=cx.run.spec), "USER_BLOCK_SIZE")
    return v


def payload_hash(cx, path_t):
    """'sha256:' + HEX(sha256(bytes of the file after the user block)) — HashsumFile's postcondition."""
    w = DISK(path_t)
    n = ub_size(cx)
    pl = z3.If(n >= z3.Length(w), z3.StringVal(""), z3.SubString(w, n, z3.Length(w) - n))
    alg = z3.StringVal(hashing.def_alg(cx))
    return z3.Concat(alg, z3.StringVal(":"), HEX(alg, pl))


def ubf(cx, ub: SRef):
    g = lambda n: ub.py_getattr(cx, n)  # noqa: E731
    return A(rec=g("record_uuid").t, idx=g("patch_index").t, pu=g("patch_uuid").t, prev=g("prev_patch"), hs=g("hdf5_hashsum"))


def ublock_reject(cx, rec_uuid_t, path_t, ub: SRef, prev, check_hashsum_t):
    """The property's rejection condition for one container (written from C04's statement):
    foreign record, missing hash where one is required, payload not byte-for-byte what was hashed,
    or not the direct successor (by uuid link, with a larger index) of the given predecessor."""
    u = ubf(cx, ub)
    conds = [
        u.rec != rec_uuid_t,
        z3.And(check_hashsum_t, u.hs.isnone),
        z3.And(z3.Not(u.hs.isnone), u.hs.val.t != payload_hash(cx, path_t)),
    ]
    if prev is not None:
        isn = prev.isnone if isinstance(prev, SMaybe) else z3.BoolVal(False)
        pv = prev.val if isinstance(prev, SMaybe) else prev
        p = ubf(cx, pv)
        conds.append(z3.And(z3.Not(isn), z3.Or(u.idx <= p.idx, u.prev.isnone, u.prev.val.t != p.pu)))
    return z3.Or(*conds)


def rec_uuid_term(cx, rec):
    """record uuid of an IH5Record object = record_uuid of the user block of its first file (property `ih5_uuid`)."""
    if "ih5_uuid_ghost" in rec.fields:
        return rec.fields["ih5_uuid_ghost"].t
    u0, _ = ub_ref_at(cx, rec, z3.IntVal(0))
    return u0.py_getattr(cx, "record_uuid").t


def path_ctor(cx, p):
    return p if isinstance(p, PathVal) else PathVal(path_term(p))


class CheckUblock(FnSpec):
    file = "ih5/record.py"
    qual = "IH5Record._check_ublock"
    props = ("C04",)

    def init(self):
        self.bindings["Path"] = path_ctor

    def setup(self, cx):
        rec = SObj("IH5Record", name="self")
        rec.fields["ih5_uuid_ghost"] = SStr.fresh("rec_uuid")
        ub = SRef.fresh("IH5UserBlock", "ub")
        prev = SMaybe(z3.Bool("prev_is_none"), SRef.fresh("IH5UserBlock", "prev"))
        return A(self=rec, filename=PathVal(z3.String("filename")), ub=ub, prev=prev, check_hashsum=SBool(z3.Bool("check_hashsum")))

    def cond(self, cx, a):
        chk = a.check_hashsum
        chk_t = chk.t if isinstance(chk, SBool) else z3.BoolVal(bool(chk))
        return ublock_reject(cx, rec_uuid_term(cx, a.self), path_term(a.filename), a.ub, a.prev, chk_t)

    def raises(self, cx, a):
        return {"ValueError": self.cond(cx, a)}

    def on_raise(self, cx, a, exc):
        return [("pure-check", z3.BoolVal(all(e[0] == "open-read" for e in cx.fx[a.get("fx0", 0) :])), "checking a container writes nothing")]

    def ensures(self, cx, a, res):
        return [("pure-check", z3.BoolVal(all(e[0] == "open-read" for e in cx.fx[a.get("fx0", 0) :])), "checking a container writes nothing")]

    # callee side: raises exactly under cond; no other effect
    def bind_call(self, interp, cx, f, args, kwargs):
        a = FnSpec.bind_call(self, interp, cx, f, args, kwargs)
        a.fx0 = len(cx.fx)
        if "prev" not in a or a.prev is None:
            a.prev = None
        if not isinstance(a.filename, PathVal):
            a.filename = PathVal(path_term(a.filename))
        return a


def add_record_bindings(reg):
    reg.set_class_home("IH5Record", "ih5/record.py")
    reg.set_class_home("IH5UserBlock", "ih5/record.py")
    reg.attr_bindings[("IH5Record", "ih5_uuid")] = lambda cx, o: SStr(rec_uuid_term(cx, o))
    hashing.add_all(reg)


# ------------------------------------------------------------------------------------------------
# IH5Record._open

from pyvc.api import map_comprehension  # noqa: E402
from pyvc.containers import TMap  # noqa: E402
from pyvc.engine import ExcVal, KwDict  # noqa: E402

from .common_io import TPath  # noqa: E402

ClassDecl("H5File", {"filename": STR, "mode": STR})
Ref = z3.DeclareSort("Ref")
UBOF = z3.Function("userblock_on_disk", z3.StringSort(), Ref)  # path -> parsed user block stored in that file (T5)
LOADABLE = z3.Function("userblock_loadable", z3.StringSort(), z3.BoolSort())
OPENABLE = z3.Function("hdf5_openable", z3.StringSort(), z3.BoolSort())

T1_OPEN = "T1 h5py.File(path, mode): 'r' opens without writing; 'r+' grants write access, opening alone writes nothing; fails with an exception if the file cannot be opened"
T5_UB = "T5 IH5UserBlock.load(path) parses the user block stored in the file or raises"


class H5pyModule(SVal):
    def py_getattr(self, cx, name):
        if name == "File":
            return SClass("H5File")
        if name in ("Group", "Dataset", "AttributeManager"):
            return SClass("H5" + name)
        raise Unsupported(f"h5py.{name}")


def h5file_ctor(cx, path, mode="r", **kw):
    pt = path_term(path)
    mt = mode.t if isinstance(mode, SStr) else z3.StringVal(mode)
    el = getattr(cx, "elem", None)
    if el is not None:
        r = SRef("H5File", z3.Function(fresh_name("opened_file"), z3.IntSort(), Ref)(el.index))
        el.fails.append(("OSError", z3.Not(OPENABLE(pt))))
        el.axioms.append(z3.And(r.py_getattr(cx, "filename").t == pt, r.py_getattr(cx, "mode").t == mt))
        cx.effect("h5open-each", mode if isinstance(mode, str) else "?")
        return r
    if not cx.decide(OPENABLE(pt)):
        cx.py_raise("OSError", "cannot open")
    r = SRef.fresh("H5File", "opened_file")
    cx.assume(z3.And(r.py_getattr(cx, "filename").t == pt, r.py_getattr(cx, "mode").t == mt))
    cx.effect("h5open", pt, mode if isinstance(mode, str) else "?")
    return r


def h5file_close(cx, f):
    cx.effect("h5close", f.py_getattr(cx, "filename").t)


class LoadUserBlock(FnSpec):
    file = "ih5/record.py"
    qual = "IH5UserBlock.load"
    props = ("C03", "C04")
    pure = True

    def bind_call(self, interp, cx, f, args, kwargs):
        a = FnSpec.bind_call(self, interp, cx, f, args, kwargs)
        return a

    def raises(self, cx, a):
        return {"Exception": z3.Not(LOADABLE(path_term(a.filename)))}

    def result(self, cx, a):
        return SRef("IH5UserBlock", UBOF(path_term(a.filename)))


def new_record(cx, clsobj, *args):
    """IH5Record.__new__: fresh object with _allow_patching = True and no files (3-line body, taken as is)."""
    rec = SObj(clsobj.name if clsobj.name in ("IH5Record", "IH5MFRecord") else "IH5Record", name="ret")
    rec.fields["_allow_patching"] = True
    rec.fields["__files__"] = []
    cx.ghost["ret"] = rec
    return rec


def files_of(rec):
    return rec.fields["__files__"]


def ub_ref_at(cx, rec, j):
    """Ref of the user block of the j-th file of the record (through its filename)."""
    L = files_of(rec)
    fn = SRef("H5File", L.at_term(j)).py_getattr(cx, "filename").t
    return SRef("IH5UserBlock", rec.fields["_ublocks"].get_term(fn)), fn


def chain_parts(cx, rec, allow_baseless_t):
    """C04's acceptance condition over the files in index order, as named conjuncts."""
    L = files_of(rec)
    n = L.n
    u0, f0 = ub_ref_at(cx, rec, z3.IntVal(0))
    rec_uuid = u0.py_getattr(cx, "record_uuid").t
    j, k = z3.Int(fresh_name("cj")), z3.Int(fresh_name("ck"))
    uj, fj = ub_ref_at(cx, rec, j)
    ujm, _ = ub_ref_at(cx, rec, j - 1)
    uk, _ = ub_ref_at(cx, rec, k)
    ul, fl = ub_ref_at(cx, rec, n - 1)
    ulm, _ = ub_ref_at(cx, rec, n - 2)
    T, F = z3.BoolVal(True), z3.BoolVal(False)
    return [
        ("base-has-no-predecessor", z3.Or(allow_baseless_t, u0.py_getattr(cx, "prev_patch").isnone)),
        ("first-container-ok", z3.Not(ublock_reject(cx, rec_uuid, f0, u0, None, n > 1))),
        ("middle-patches-linked-hashed-untampered", z3.ForAll([j], z3.Implies(z3.And(1 <= j, j < n - 1), z3.Not(ublock_reject(cx, rec_uuid, fj, uj, ujm, T))))),
        ("newest-patch-linked-untampered", z3.Implies(n > 1, z3.Not(ublock_reject(cx, rec_uuid, fl, ul, ulm, F)))),
        ("patch-uuids-distinct", z3.ForAll([j, k], z3.Implies(z3.And(0 <= j, j < k, k < n), uj.py_getattr(cx, "patch_uuid").t != uk.py_getattr(cx, "patch_uuid").t))),
    ]


def chain_ok(cx, rec, allow_baseless_t):
    return z3.And(*[g for _, g in chain_parts(cx, rec, allow_baseless_t)])


class OpenRecord(FnSpec):
    file = "ih5/record.py"
    qual = "IH5Record._open"
    props = ("C02", "C03", "C04")
    raises_exact = False  # the accept direction is stated conjunct by conjunct in `ensures`

    def init(self):
        self.bindings["Path"] = path_ctor
        self.bindings["h5py"] = H5pyModule()
        self.comps[0] = map_comprehension
        self.comps[1] = map_comprehension
        self.comps[2] = map_comprehension
        self.inline.add("IH5Record._ublock")

        def inv(cx, env, it):
            rec = env["ret"]
            L = files_of(rec)
            u0, _ = ub_ref_at(cx, rec, z3.IntVal(0))
            rec_uuid = u0.py_getattr(cx, "record_uuid").t
            j = z3.Int(fresh_name("ij"))
            uj, fj = ub_ref_at(cx, rec, j)
            ujm, _ = ub_ref_at(cx, rec, j - 1)
            return [("checked-prefix-coherent", z3.ForAll([j], z3.Implies(z3.And(1 <= j, j < it.i), z3.Not(ublock_reject(cx, rec_uuid, fj, uj, ujm, z3.BoolVal(True))))))]

        self.loops[0] = LoopSpec(inv, modifies=["filename"])

    def setup(self, cx):
        paths = SSeq.fresh(STR, "paths")
        kw = {"allow_baseless": SBool(z3.Bool("allow_baseless")), "reopen_incomplete_patch": SBool(z3.Bool("reopen_incomplete_patch"))}
        if cx.choose(2) == 1:
            # called without the keywords (as IH5MFRecord._open and direct callers do): the defaults are 'no baseless record' and
            # 'an uncommitted newest container stays READ-ONLY' — merely looking at an interrupted patch must never make it committable
            given = {}
            kw = {"allow_baseless": SBool(z3.BoolVal(False)), "reopen_incomplete_patch": SBool(z3.BoolVal(False))}
        else:
            given = kw
        return A(cls=SClass("IH5Record"), paths=paths, __kwargs__=given, kw=kw)

    def all_ok(self, cx, a):
        i = z3.Int(fresh_name("pi"))
        P = a.paths
        return z3.And(P.n > 0, z3.ForAll([i], z3.Implies(z3.And(0 <= i, i < P.n), z3.And(LOADABLE(P.at_term(i)), OPENABLE(P.at_term(i))))))

    def coherent(self, cx, a):
        rec = cx.ghost.get("ret")
        base = self.all_ok(cx, a)
        if rec is None or not isinstance(files_of(rec), SSeq) or "_ublocks" not in rec.fields or not cx.ghost.get("sorts"):
            return base  # nothing was sorted yet: only the part decided so far can be the reason
        return z3.And(base, chain_ok(cx, rec, a.kw["allow_baseless"].t))

    def raises(self, cx, a):
        return {"Exception": z3.Not(self.coherent(cx, a))}

    def on_raise(self, cx, a, exc):
        writes = [e for e in cx.fx if e[0] not in ("open-read", "h5open-each", "h5open", "h5close")]
        return [("rejected-without-write", z3.BoolVal(not writes), "a rejected file set is never written to (T1: opening, in any mode, writes nothing)")]

    def ensures(self, cx, a, res):
        if not isinstance(res, SObj) or not isinstance(files_of(res), SSeq):
            return [("result-shape", z3.BoolVal(False), "returns a record")]
        rec, L, P = res, files_of(res), a.paths
        n = L.n
        out = []
        i, j = z3.Int(fresh_name("oi")), z3.Int(fresh_name("oj"))
        srt = cx.ghost.get("sorts")
        out.append(("same-number-of-files", n == P.n, "the record consists of exactly the given files"))
        out.append(("accepted-only-if:all-loadable-and-openable", self.all_ok(cx, a), "accepted only when every file is a loadable, openable container"))
        for nm, g in chain_parts(cx, rec, a.kw["allow_baseless"].t):
            out.append(("accepted-only-if:" + nm, g, "accepted exactly when the files are one base plus a gap-free chain of untampered patches of the same record"))
        if srt:
            _, _, pi, pinv = srt[-1]
            mp = [m for m in cx.ghost.get("maps", []) if isinstance(m[0], __import__("ast").ListComp)]
            # files[j] is the handle opened for paths[pi(j)] and every path has its handle
            fnj = SRef("H5File", L.at_term(j)).py_getattr(cx, "filename").t
            out.append(("files-are-the-given-paths", z3.ForAll([j], z3.Implies(z3.And(0 <= j, j < n), z3.And(0 <= pi(j), pi(j) < n, fnj == P.at_term(pi(j)), pinv(pi(j)) == j))), "the record consists of exactly the given files (any order of the argument)"))
            out.append(("every-path-opened", z3.ForAll([i], z3.Implies(z3.And(0 <= i, i < n), z3.And(0 <= pinv(i), pinv(i) < n, pi(pinv(i)) == i))), "the record consists of exactly the given files (any order of the argument)"))
        else:
            out.append(("files-are-the-given-paths", z3.BoolVal(False), "files are put in patch-index order"))
        uj, fj = ub_ref_at(cx, rec, j)
        ui, fi = ub_ref_at(cx, rec, i)
        ujm1, _ = ub_ref_at(cx, rec, j - 1)
        out.append(("index-order:ascending", z3.ForAll([i, j], z3.Implies(z3.And(0 <= i, i < j, j < n), ui.py_getattr(cx, "patch_index").t <= uj.py_getattr(cx, "patch_index").t)), "files are in patch-index order"))
        out.append(("index-order:adjacent-strict", z3.ForAll([j], z3.Implies(z3.And(1 <= j, j < n), ujm1.py_getattr(cx, "patch_index").t < uj.py_getattr(cx, "patch_index").t)), "patch indices strictly increase along the chain"))
        out.append(("user-blocks-from-disk", z3.ForAll([j], z3.Implies(z3.And(0 <= j, j < n), z3.And(rec.fields["_ublocks"].has(fj), uj.t == UBOF(fj)))), "the in-memory user blocks are the ones stored in the files"))
        ul, fl = ub_ref_at(cx, rec, n - 1)
        want_rw = z3.And(ul.py_getattr(cx, "hdf5_hashsum").isnone, a.kw["reopen_incomplete_patch"].t)
        mode_j = SRef("H5File", L.at_term(j)).py_getattr(cx, "mode").t
        out.append(("committed-files-read-only", z3.ForAll([j], z3.Implies(z3.And(0 <= j, j < n - 1), mode_j == z3.StringVal("r"))), "all but the newest container are opened read-only"))
        mode_l = SRef("H5File", L.at_term(n - 1)).py_getattr(cx, "mode").t
        out.append(("newest-writable-iff-uncommitted-and-requested", mode_l == z3.If(want_rw, z3.StringVal("r+"), z3.StringVal("r")), "the newest container is writable exactly when it is uncommitted and a writable mode was requested"))
        closed = res.fields.get("_closed")
        out.append(("open-flag", z3.BoolVal(closed is False), "the record is open"))
        # effects: opening never alters files
        kinds = [e[0] for e in cx.fx]
        ok_fx = all(k in ("open-read", "h5open-each", "h5open", "h5close") for k in kinds)
        rw = [e for e in cx.fx if e[0] == "h5open" and e[2] != "r"]
        each = [e for e in cx.fx if e[0] == "h5open-each" and e[1] != "r"]
        out.append(("opening-writes-nothing", z3.BoolVal(ok_fx and not each and len(rw) <= 1), "opening never alters files"))
        if rw:
            out.append(("only-uncommitted-newest-reopened-writable", z3.And(want_rw, rw[0][1] == fl), "only an uncommitted newest container is ever opened writable"))
        return out


def add_open_bindings(reg):
    reg.ctors["H5File"] = h5file_ctor
    reg.method_bindings[("H5File", "close")] = h5file_close_logged
    reg.method_bindings[("IH5Record", "__new__")] = new_record
    reg.method_bindings[("IH5Record", "super.__init__")] = lambda cx, obj, *a, **k: None
    reg.add(LoadUserBlock())
    reg.add(CheckUblock()) if ("ih5/record.py", "IH5Record._check_ublock") not in reg.specs else None


# ------------------------------------------------------------------------------------------------
# record life cycle: effect order and frames (C02, C05, C11)

T1_X = "T1 h5py.File(path, 'x'): creates the file, fails if it exists (never overwrites); File.close() flushes and releases"
T2_UNLINK = "T2 Path.unlink() removes exactly that file"
T3_HEX = "T3 hexdigest() is non-empty lowercase hex (so '<alg>:<hex>' is a valid QualHashsumStr)"
T6_UUID = "T6 uuid1() returns values never returned before and unequal to stored ones"

EXISTS = z3.Function("path_exists_at_entry", z3.StringSort(), z3.BoolSort())
WRITE_KINDS = ("ubwrite", "unlink", "h5create", "mfwrite", "ovl-write")


import contextlib  # noqa: E402


@contextlib.contextmanager
def at_entry(cx):
    """Evaluate terms over the heap as it was at function entry (initial field arrays H0_*)."""
    saved = cx.heap
    cx.heap = {}
    try:
        yield
    finally:
        cx.heap = saved


def entry_rec(a):
    r = SObj(a.self.cls, name="self@entry")
    r.fields.update(a.entry_fields)
    return r


def rec_obj(cx, name="self", cls="IH5Record"):
    """An open record object satisfying the class invariant RecInv."""
    r = SObj(cls, name=name)
    r.fields["__files__"] = SSeq.fresh(TRef("H5File"), name + "_files")
    r.fields["_ublocks"] = SMap.fresh(TPath(), TRef("IH5UserBlock"), name + "_ublocks")
    r.fields["_closed"] = SBool(z3.Bool(name + "_closed"))
    r.fields["_allow_patching"] = SBool(z3.Bool(name + "_allow_patching"))
    return r


def fname_at(cx, rec, j):
    return SRef("H5File", files_of(rec).at_term(j)).py_getattr(cx, "filename").t


def mode_at(cx, rec, j):
    return SRef("H5File", files_of(rec).at_term(j)).py_getattr(cx, "mode").t


def rec_inv(cx, rec, tag="inv"):
    """RecInv: every open file has its user block in _ublocks; all but the newest file are committed
    (carry a hash) and opened 'r'; the newest is either committed+'r' or uncommitted+'r+'; file names pairwise distinct."""
    L = files_of(rec)
    n = L.n
    j, k = z3.Int(fresh_name(tag + "_j")), z3.Int(fresh_name(tag + "_k"))
    uj, fj = ub_ref_at(cx, rec, j)
    hs = uj.py_getattr(cx, "hdf5_hashsum")
    R, RW = z3.StringVal("r"), z3.StringVal("r+")
    ul, fl = ub_ref_at(cx, rec, n - 1)
    return z3.And(
        z3.ForAll([j], z3.Implies(z3.And(0 <= j, j < n), rec.fields["_ublocks"].has(fj))),
        z3.ForAll([j], z3.Implies(z3.And(0 <= j, j < n - 1), z3.And(mode_at(cx, rec, j) == R, z3.Not(hs.isnone)))),
        z3.Implies(n > 0, z3.Or(z3.And(mode_at(cx, rec, n - 1) == R, z3.Not(ul.py_getattr(cx, "hdf5_hashsum").isnone)), z3.And(mode_at(cx, rec, n - 1) == RW, ul.py_getattr(cx, "hdf5_hashsum").isnone))),
        z3.ForAll([j, k], z3.Implies(z3.And(0 <= j, j < k, k < n), fname_at(cx, rec, j) != fname_at(cx, rec, k))),
    )


def has_writable_t(cx, rec):
    n = files_of(rec).n
    return z3.And(n > 0, mode_at(cx, rec, n - 1) == z3.StringVal("r+"))


def fx_kinds(cx, start=0):
    return [e[0] for e in cx.fx[start:]]


def fx_paths_ok(cx, allowed_path_t, start=0):
    """Every effect that names a path (other than pure reads) names `allowed_path_t`."""
    conds = []
    for e in cx.fx[start:]:
        if e[0] in ("h5open", "h5close", "ubwrite", "unlink", "h5create", "mfwrite") and len(e) > 2:
            conds.append(e[1] == allowed_path_t)
    return z3.And(*conds) if conds else z3.BoolVal(True)


def h5file_ctor2(cx, path, mode="r", **kw):
    """h5py.File for life-cycle functions: additionally models mode 'x' (T1_X)."""
    if isinstance(mode, str) and mode in ("x", "w-"):
        pt = path_term(path)
        if cx.decide(EXISTS(pt)):
            cx.py_raise("FileExistsError", "exists")
        r = SRef.fresh("H5File", "created_file")
        cx.assume(z3.And(r.py_getattr(cx, "filename").t == pt, r.py_getattr(cx, "mode").t == z3.StringVal("r+")))
        cx.effect("h5create", pt, mode)
        return r
    return h5file_ctor(cx, path, mode, **kw)


class SaveUserBlock(FnSpec):
    """IH5UserBlock.save as seen by callers: rewrites bytes of the user-block area of exactly that file (verified in c03)."""

    file = "ih5/record.py"
    qual = "IH5UserBlock.save"
    props = ("C02", "C11")

    def effects(self, cx, a):
        cx.effect("ubwrite", path_term(a.filename), a.self.t)


class CreateUserBlock(FnSpec):
    file = "ih5/record.py"
    qual = "IH5UserBlock.create"
    props = ("C02", "C11")

    def result(self, cx, a):
        ub = SRef.fresh("IH5UserBlock", "new_ub")
        prev = a.get("prev")
        g = lambda n: ub.py_getattr(cx, n)  # noqa: E731
        cx.assume(g("hdf5_hashsum").isnone)
        if prev is None:
            cx.assume(z3.And(g("patch_index").t == 0, g("prev_patch").isnone))
        else:
            p = prev.force(cx) if isinstance(prev, SMaybe) else prev
            pg = lambda n: p.py_getattr(cx, n)  # noqa: E731
            cx.assume(z3.And(g("record_uuid").t == pg("record_uuid").t, g("patch_index").t == pg("patch_index").t + 1, z3.Not(g("prev_patch").isnone), g("prev_patch").val.t == pg("patch_uuid").t, g("patch_uuid").t != pg("patch_uuid").t))
        cx.ghost.setdefault("new_ubs", []).append(ub)
        return ub


class NextPatchPath(FnSpec):
    """_next_patch_filepath as seen by callers: some path (string building verified in c03); freshness is not relied on."""

    file = "ih5/record.py"
    qual = "IH5Record._next_patch_filepath"
    props = ("C02",)

    def result(self, cx, a):
        return PathVal(z3.String(fresh_name("next_patch_path")))


class NewContainer(FnSpec):
    file = "ih5/record.py"
    qual = "IH5Record._new_container"
    props = ("C02", "C11")

    def init(self):
        self.bindings["h5py"] = H5pyModule()

    def setup(self, cx):
        return A(cls=SClass("IH5Record"), path=PathVal(z3.String("new_path")), ub=SRef.fresh("IH5UserBlock", "ub"))

    def raises(self, cx, a):
        return {"OSError": z3.Or(EXISTS(path_term(a.path)), z3.Not(OPENABLE(path_term(a.path))))}

    def on_raise(self, cx, a, exc):
        st = a.get("fx0", 0)
        return [("never-overwrites", z3.BoolVal("ubwrite" not in fx_kinds(cx, st) or "h5create" in fx_kinds(cx, st)), "a fresh container is created with mode 'x' (fails instead of overwriting)")]

    def ensures(self, cx, a, res):
        st = a.get("fx0", 0)
        kinds = fx_kinds(cx, st)
        pt = path_term(a.path)
        out = [("effect-order", z3.BoolVal(kinds == ["h5create", "h5close", "ubwrite", "h5open"]), "create exclusively, close, pre-fill the user block, reopen writable"), ("only-this-file", fx_paths_ok(cx, pt, st), "only the new file is touched")]
        if kinds == ["h5create", "h5close", "ubwrite", "h5open"]:
            fx = cx.fx[st:]
            out.append(("exclusive-create", z3.BoolVal(fx[0][2] == "x"), "mode 'x'"))
            out.append(("user-block-is-the-given-one", fx[2][2] == a.ub.t, "the given user block is written"))
            out.append(("reopened-writable", z3.BoolVal(fx[3][2] == "r+"), "reopened 'r+'"))
        ok = isinstance(res, SRef)
        out.append(("returns-writable-handle", z3.And(res.py_getattr(cx, "filename").t == pt, res.py_getattr(cx, "mode").t == z3.StringVal("r+")) if ok else z3.BoolVal(False), "returns the writable handle of the new file"))
        return out

    def bind_call(self, interp, cx, f, args, kwargs):
        a = FnSpec.bind_call(self, interp, cx, f, args, kwargs)
        a.fx0 = len(cx.fx)
        return a

    def effects(self, cx, a):
        pt = path_term(a.path)
        cx.effect("h5create", pt, "x")
        cx.effect("h5close", pt)
        cx.effect("ubwrite", pt, a.ub.t)
        cx.effect("h5open", pt, "r+")

    def result(self, cx, a):
        r = SRef.fresh("H5File", "new_container")
        cx.assume(z3.And(r.py_getattr(cx, "filename").t == path_term(a.path), r.py_getattr(cx, "mode").t == z3.StringVal("r+")))
        return r


class LifeCycle(FnSpec):
    file = "ih5/record.py"
    props = ("C02", "C11")

    def init(self):
        self.bindings["h5py"] = H5pyModule()
        self.bindings["Path"] = path_ctor
        self.bindings["QualHashsumStr"] = lambda cx, s: s  # T3_HEX
        self.inline |= {"IH5Record._expect_open", "IH5Record._expect_not_ro", "IH5Record._ublock", "IH5Record._set_ublock", "IH5Record.mode", "IH5Record._has_writable"}

    def setup(self, cx):
        rec = rec_obj(cx)
        a = A(self=rec)
        a.old_files = files_of(rec).snapshot()
        a.old_ublocks = rec.fields["_ublocks"].snapshot()
        a.entry_fields = {"__files__": a.old_files, "_ublocks": a.old_ublocks, "_closed": rec.fields["_closed"], "_allow_patching": rec.fields["_allow_patching"]}
        return a

    def requires(self, cx, a):
        rec = a.self
        j = z3.Int(fresh_name("ex_j"))
        return [("RecInv", rec_inv(cx, rec, "pre")), ("open-files-exist", z3.ForAll([j], z3.Implies(z3.And(0 <= j, j < files_of(rec).n), z3.And(EXISTS(fname_at(cx, rec, j)), OPENABLE(fname_at(cx, rec, j))))))]

    def guards(self, cx, a):
        rec = entry_rec(a)
        return z3.Or(rec.fields["_closed"].t, z3.Not(rec.fields["_allow_patching"].t))

    def writable_at_entry(self, cx, a):
        with at_entry(cx):
            return has_writable_t(cx, entry_rec(a))


class CommitPatch(LifeCycle):
    qual = "IH5Record.commit_patch"

    def setup(self, cx):
        a = LifeCycle.setup(self, cx)
        a["__kwargs__"] = {}
        return a

    def raises(self, cx, a):
        return {"ValueError": z3.Or(self.guards(cx, a), z3.Not(self.writable_at_entry(cx, a)))}

    def on_raise(self, cx, a, exc):
        return [("refused-without-effect", z3.BoolVal(not cx.fx), "a refused commit has no effect")]

    def ensures(self, cx, a, res):
        rec = a.self
        n = a.old_files.n
        last = SRef("H5File", a.old_files.at_term(n - 1)).py_getattr(cx, "filename").t
        kinds = fx_kinds(cx)
        order = ["h5close", "open-read", "ubwrite", "h5open"]
        out = [("effect-order", z3.BoolVal(kinds == order), "close HDF5, hash payload, rewrite user block, reopen read-only — in this order"), ("only-the-uncommitted-container", fx_paths_ok(cx, last), "a commit touches only the uncommitted newest container")]
        if kinds == order:
            fx = cx.fx
            out.append(("hash-read-is-the-newest-file", fx[1][1] == last, "the payload that is hashed is the newest container's"))
            out.append(("reopened-read-only", z3.BoolVal(fx[3][2] == "r"), "the committed container is reopened read-only"))
            ubl, _ = ub_ref_at(cx, rec, n - 1)
            out.append(("written-block-is-the-records", fx[2][2] == ubl.t, "the user block written is the record's block of that container"))
            hs = ubl.py_getattr(cx, "hdf5_hashsum")
            out.append(("stored-hash-is-payload-hash", z3.And(z3.Not(hs.isnone), hs.val.t == payload_hash(cx, last)), "the stored hash is the hash of the payload as it is on disk after closing"))
        L = files_of(rec)
        j = z3.Int(fresh_name("cj"))
        out.append(("older-files-untouched", z3.And(L.n == n, z3.ForAll([j], z3.Implies(z3.And(0 <= j, j < n - 1), L.at_term(j) == a.old_files.at_term(j)))), "all other containers stay as they are"))
        out.append(("newest-now-read-only", z3.And(fname_at(cx, rec, n - 1) == last, mode_at(cx, rec, n - 1) == z3.StringVal("r")), "afterwards nothing is writable"))
        out.append(("RecInv", rec_inv(cx, rec, "post"), "record invariant re-established"))
        return out


class CreatePatch(LifeCycle):
    qual = "IH5Record.create_patch"

    def init(self):
        LifeCycle.init(self)
        self.bindings["IH5UserBlock"] = SClass("IH5UserBlock")

    def raises(self, cx, a):
        return {"ValueError": z3.Or(self.guards(cx, a), self.writable_at_entry(cx, a)), "OSError": z3.BoolVal(True)}

    raises_exact = False

    def requires(self, cx, a):
        return LifeCycle.requires(self, cx, a) + [("has-files", files_of(a.self).n > 0)]

    def on_raise(self, cx, a, exc):
        if exc.cls == "ValueError":
            return [("refused-without-effect", z3.BoolVal(not cx.fx), "a refused create_patch has no effect")]
        return [
            ("failed-create-leaves-record-unchanged", z3.And(files_of(a.self).ext_eq(a.old_files), a.self.fields["_ublocks"].same(cx, a.old_ublocks)), "if the new file cannot be created the record object is unchanged"),
            ("failed-create-touches-no-file", z3.BoolVal(not [e for e in cx.fx if e[0] in WRITE_KINDS]), "if the new file cannot be created (e.g. a file of that name exists) nothing on disk is written, replaced or removed: a file the call did not create is never deleted"),
        ]

    def ensures(self, cx, a, res):
        rec = a.self
        n = a.old_files.n
        L = files_of(rec)
        newp = fname_at(cx, rec, n)
        j = z3.Int(fresh_name("pj"))
        kinds = fx_kinds(cx)
        out = [
            ("no-refusal-when-allowed", z3.Not(z3.Or(self.guards(cx, a), self.writable_at_entry(cx, a))), "create_patch succeeds only on an open, patchable, fully committed record"),
            ("one-new-file", z3.And(L.n == n + 1, z3.ForAll([j], z3.Implies(z3.And(0 <= j, j < n), L.at_term(j) == a.old_files.at_term(j)))), "existing containers stay; exactly one is appended"),
            ("only-the-new-file-touched", fx_paths_ok(cx, newp), "every update lands exclusively in a new file"),
            ("new-file-created-exclusively", z3.BoolVal(kinds.count("h5create") == 1 and "unlink" not in kinds), "the new file is created with mode 'x' (never overwrites)"),
            ("new-file-writable", mode_at(cx, rec, n) == z3.StringVal("r+"), "the patch container is writable"),
        ]
        ubn, _ = ub_ref_at(cx, rec, n)
        ubo, _ = ub_ref_at(cx, rec, n - 1)
        g = lambda u, f: u.py_getattr(cx, f)  # noqa: E731
        out.append(("patch-links-to-newest", z3.And(g(ubn, "record_uuid").t == g(ubo, "record_uuid").t, g(ubn, "patch_index").t == g(ubo, "patch_index").t + 1, z3.Not(g(ubn, "prev_patch").isnone), g(ubn, "prev_patch").val.t == g(ubo, "patch_uuid").t, g(ubn, "hdf5_hashsum").isnone), "the new patch continues the chain of the newest container and is uncommitted"))
        return out


class DeleteLatest(LifeCycle):
    qual = "IH5Record._delete_latest_container"

    def requires(self, cx, a):
        return LifeCycle.requires(self, cx, a) + [("has-files", files_of(a.self).n > 0)]

    def ensures(self, cx, a, res):
        rec = a.self
        n = a.old_files.n
        last = SRef("H5File", a.old_files.at_term(n - 1)).py_getattr(cx, "filename").t
        L = files_of(rec)
        j = z3.Int(fresh_name("dj"))
        kinds = fx_kinds(cx)
        k = z3.String(fresh_name("dk"))
        um, uo = rec.fields["_ublocks"], a.old_ublocks
        return [
            ("effect-order", z3.BoolVal(kinds == ["h5close", "unlink"]), "close, then remove the file"),
            ("only-the-newest-file", fx_paths_ok(cx, last), "only the newest container file is removed"),
            ("files-shrunk-by-one", z3.And(L.n == n - 1, z3.ForAll([j], z3.Implies(z3.And(0 <= j, j < n - 1), L.at_term(j) == a.old_files.at_term(j)))), "the remaining containers stay"),
            ("ublock-entry-removed", z3.ForAll([k], z3.And(um.has(k) == z3.And(uo.has(k), k != last), z3.Implies(um.has(k), um.get_term(k) == uo.get_term(k)))), "exactly the user block of the removed container is dropped"),
        ]

    # callee side
    def bind_call(self, interp, cx, f, args, kwargs):
        a = FnSpec.bind_call(self, interp, cx, f, args, kwargs)
        a.old_files = files_of(a.self).snapshot()
        a.old_ublocks = a.self.fields["_ublocks"].snapshot()
        return a

    def effects(self, cx, a):
        rec = a.self
        n = a.old_files.n
        last = SRef("H5File", a.old_files.at_term(n - 1)).py_getattr(cx, "filename").t
        cx.effect("h5close", last)
        cx.effect("unlink", last)
        L = files_of(rec)
        k = z3.Int(fresh_name("sl"))
        L.t = L.make(n - 1, L.arr)
        um = rec.fields["_ublocks"]
        um.dom = z3.Store(um.dom, last, z3.BoolVal(False))


class DiscardPatch(LifeCycle):
    qual = "IH5Record.discard_patch"

    def raises(self, cx, a):
        return {"ValueError": z3.Or(self.guards(cx, a), z3.Not(self.writable_at_entry(cx, a)), a.old_files.n == 1)}

    def on_raise(self, cx, a, exc):
        return [("refused-without-effect", z3.BoolVal(not cx.fx), "a refused discard has no effect (the base container is never discarded)")]

    def ensures(self, cx, a, res):
        rec = a.self
        n = a.old_files.n
        last = SRef("H5File", a.old_files.at_term(n - 1)).py_getattr(cx, "filename").t
        L = files_of(rec)
        j = z3.Int(fresh_name("dj"))
        return [
            ("only-the-uncommitted-patch-removed", z3.And(fx_paths_ok(cx, last), z3.BoolVal(fx_kinds(cx) == ["h5close", "unlink"])), "discard removes exactly the uncommitted newest patch file"),
            ("view-back-to-last-commit", z3.And(L.n == n - 1, z3.ForAll([j], z3.Implies(z3.And(0 <= j, j < n - 1), L.at_term(j) == a.old_files.at_term(j)))), "discard_patch returns the record to the committed containers"),
            ("RecInv", rec_inv(cx, rec, "post"), "record invariant re-established"),
        ]


class CloseRecord(LifeCycle):
    """close(): commit what is open (unless told not to), then close every container"""

    qual = "IH5Record.close"
    props = ("C02", "C03", "C11")

    def init(self):
        LifeCycle.init(self)

        def inv(cx, env, it):
            a = cx.ghost["cl"]
            L = a.old_files
            j = z3.Int(fresh_name("cj"))
            return [
                ("files-closed-so-far", z3.ForAll([j], z3.Implies(z3.And(0 <= j, j < it.i), a.closed.has(L.at_term(j))))),
                ("list-not-edited-while-closing", files_of(a.self).ext_eq(L)),
            ]

        self.loops[0] = LoopSpec(inv, modifies=["f"], havoc_inplace=["self.closed_log"])

    def setup(self, cx):
        a = LifeCycle.setup(self, cx)
        rec = a.self
        a.closed = SSet(TRef("H5File"))
        rec.fields["closed_log"] = a.closed
        a.commit_flag = SBool(z3.Bool("commit_argument"))
        a["commit"] = a.commit_flag
        a.needs_commit = z3.And(has_writable_t(cx, rec), a.commit_flag.t)

        def commit_stub(cx2):
            cx2.effect("commit_patch")
            cx2.ghost["committed"] = True
            # CommitPatch's contract: same files, the newest re-opened read-only; here only that the list object stays
            return None

        rec.fields["commit_patch"] = commit_stub
        cx.ghost["cl"] = a
        cx.ghost["close_log"] = a
        return a

    def raises(self, cx, a):
        return {}

    def ensures(self, cx, a, res):
        rec = a.self
        was_closed = a.entry_fields["_closed"].t
        j = z3.Int(fresh_name("ej"))
        commits = [e for e in cx.fx if e[0] == "commit_patch"]
        L = a.old_files
        now = rec.fields["__files__"]
        emptied = isinstance(now, list) and not now
        return [
            ("closing-twice-does-nothing", z3.Implies(was_closed, z3.BoolVal(not cx.fx and not emptied)), "closing a closed record has no effect"),
            ("open-patch-committed-iff-asked", z3.Implies(z3.Not(was_closed), z3.BoolVal(len(commits) == 1) == a.needs_commit), "an open patch is committed by close() exactly when commit is true (so close(commit=False) never produces a committed container, and a plain close never leaves an uncommitted one behind)"),
            ("every-container-closed", z3.Implies(z3.Not(was_closed), z3.ForAll([j], z3.Implies(z3.And(0 <= j, j < L.n), a.closed.has(L.at_term(j))))), "every container file of the record is closed"),
            ("marked-closed-and-emptied", z3.Implies(z3.Not(was_closed), z3.And(z3.BoolVal(emptied), rec.fields["_closed"].t if isinstance(rec.fields["_closed"], SBool) else z3.BoolVal(rec.fields["_closed"] is True))), "afterwards the object holds no file and is marked closed"),
        ]


def h5file_close_logged(cx, f):
    a = cx.ghost.get("close_log")
    if a is None:
        return h5file_close(cx, f)
    # commit (if it was due) must have happened before the first container is closed: a closed file cannot be committed
    cx.oblige("commit-precedes-closing", "call-pre", z3.Implies(a.needs_commit, z3.BoolVal(bool(cx.ghost.get("committed")))), clause="the open patch is committed before the files are closed")
    a.closed.py_call_method(cx, "add", [f], {})


class DeleteFiles(FnSpec):
    """delete_files(record): unlinks exactly what find_files(record) lists"""

    file = "ih5/record.py"
    qual = "IH5Record.delete_files"
    props = ("C03",)

    def init(self):
        def inv(cx, env, it):
            a = cx.ghost["df"]
            p = z3.String(fresh_name("dp"))
            j = z3.Int(fresh_name("dj"))
            L = a.found
            return [("unlinked-so-far-are-the-listed-files-so-far", z3.ForAll([p], a.gone.has(p) == z3.Exists([j], z3.And(0 <= j, j < it.i, L.at_term(j) == p))))]

        self.loops[0] = LoopSpec(inv, modifies=["file"], havoc_inplace=["cls.unlinked_log"])

    def setup(self, cx):
        from .common_io import TPath

        c = SObj("IH5RecordCls", name="cls")
        found = SSeq.fresh(TPath(), "files_found_for_the_record")
        gone = SSet(TPath())
        c.fields["unlinked_log"] = gone
        rec = PathVal(z3.String("record_path"))
        c.fields["find_files"] = lambda cx2, r: (found if r is rec else (_ for _ in ()).throw(Unsupported("find_files of another path")))
        a = A(cls=c, record=rec)
        a.found, a.gone = found, gone
        cx.ghost["df"] = a
        cx.ghost["unlink_log"] = gone
        return a

    def raises(self, cx, a):
        return {}

    def ensures(self, cx, a, res):
        p = z3.String(fresh_name("ep"))
        j = z3.Int(fresh_name("ej"))
        return [("exactly-the-files-of-that-record", z3.ForAll([p], a.gone.has(p) == z3.Exists([j], z3.And(0 <= j, j < a.found.n, a.found.at_term(j) == p))), "replacing a record ('w') removes exactly the container files find_files attributes to that record name: none of a record whose name merely extends it, none left over")]


class CreateRecord(FnSpec):
    """_create(record, truncate): the only place an existing record is removed; otherwise one new base container"""

    file = "ih5/record.py"
    qual = "IH5Record._create"
    props = ("C03", "C02")

    def init(self):
        self.bindings["Path"] = lambda cx, p: p if isinstance(p, CrPath) else (_ for _ in ()).throw(Unsupported("Path of something else"))
        self.bindings["IH5UserBlock"] = UbFactory()

    def setup(self, cx):
        rec = CrPath(z3.String("record_path"))
        base = CrPath(z3.String("base_container_path"))
        valid, isfile = z3.Bool("record_name_is_valid"), z3.Bool("base_container_exists")
        trunc = SBool(z3.Bool("truncate"))
        c = SObj("IH5RecordCreateCls", name="cls")
        new_obj = SObj("IH5RecordNew", name="ret")

        c.fields["_is_valid_record_name"] = lambda cx2, n: SBool(valid)
        c.fields["_base_filename"] = lambda cx2, r: (base if r is rec else (_ for _ in ()).throw(Unsupported("another record")))
        c.fields["delete_files"] = lambda cx2, r: cx2.effect("delete_files", r is rec)
        c.fields["__new__"] = lambda cx2, k: new_obj
        c.fields["_new_container"] = lambda cx2, pth, ub: (cx2.effect("new_container", pth, ub), FileTok(pth))[1]
        base.is_file_t = isfile
        a = A(cls=c, record=rec, truncate=trunc)
        a.rec, a.base, a.valid, a.isfile, a.new_obj = rec, base, valid, isfile, new_obj
        return a

    def raises(self, cx, a):
        return {"ValueError": z3.Not(a.valid)}

    def on_raise(self, cx, a, exc):
        return [("refused-without-effect", z3.BoolVal(not cx.fx), "an invalid record name is refused before anything is deleted or created")]

    def ensures(self, cx, a, res):
        dels = [e for e in cx.fx if e[0] == "delete_files"]
        news = [e for e in cx.fx if e[0] == "new_container"]
        ubs = [e for e in cx.fx if e[0] == "ub-create"]
        order_ok = not dels or (news and cx.fx.index(dels[0]) < cx.fx.index(news[0]))
        ok_new = len(news) == 1 and news[0][1] is a.base and len(ubs) == 1 and ubs[0][1] is None and news[0][2] is ubs[0][2]
        files = a.new_obj.fields.get("__files__")
        ubl = a.new_obj.fields.get("_ublocks")
        return [
            ("old-record-removed-only-when-truncating-an-existing-one", z3.BoolVal(len(dels) == 1 and dels[0][1] is True) == z3.And(a.truncate.t, a.isfile) if len(dels) <= 1 else z3.BoolVal(False), "existing containers are deleted exactly when truncate is set and a base container of that name exists (modes x / w- never delete)"),
            ("then-one-new-base-container", z3.BoolVal(bool(ok_new and order_ok)), "exactly one container is created, at the record's base file name, with a fresh BASE user block (no predecessor), after the removal"),
            ("returned-record-holds-exactly-it", z3.BoolVal(res is a.new_obj and isinstance(files, list) and len(files) == 1 and isinstance(files[0], FileTok) and files[0].p is a.base and isinstance(ubl, dict) and list(ubl.keys()) == [a.base] and a.new_obj.fields.get("_closed") is False), "the new record object is open and consists of that container and its block"),
        ]


class FileTok(SVal):
    def __init__(self, p):
        self.p = p


class CrPath(PathVal):
    is_file_t = None
    concrete_key = True  # used as a dict key by identity (one path object per role in this contract)

    def __hash__(self):
        return id(self)

    def __eq__(self, o):
        return self is o

    def py_getattr(self, cx, name):
        if name == "name":
            return SStr(z3.String("record_name_text"))
        raise Unsupported("path attribute " + name)

    def meth_is_file(self, cx):
        if self.is_file_t is None:
            raise Unsupported("is_file of another path")
        return SBool(self.is_file_t)


class UbFactory(SVal):
    def meth_create(self, cx, prev=None):
        tok = UbTok()
        cx.effect("ub-create", prev, tok)
        return tok


class UbTok(SVal):
    pass


def add_delete_files(reg):
    reg.set_class_home("IH5RecordCls", "ih5/record.py", "IH5Record")
    reg.set_class_home("IH5RecordCreateCls", "ih5/record.py", "IH5Record")
    reg.method_bindings[("IH5Record", "super.__init__")] = reg.method_bindings.get(("IH5Record", "super.__init__")) or (lambda cx, obj, *a, **k: None)
    out = [DeleteFiles(), CreateRecord()]
    for s in out:
        reg.add(s)
    return out


def add_lifecycle(reg):
    reg.ctors["H5File"] = h5file_ctor2
    reg.method_bindings[("H5File", "close")] = h5file_close_logged
    reg.method_bindings[("PathVal", "unlink")] = None
    reg.add(SaveUserBlock())
    reg.add(CreateUserBlock())
    reg.add(NextPatchPath())
    specs = [NewContainer(), CommitPatch(), CreatePatch(), DeleteLatest(), DiscardPatch(), CloseRecord()]
    for s in specs:
        reg.add(s)
    return specs


# ------------------------------------------------------------------------------------------------
# merge_files (C05): refusal, source frame, merged user block

T1_OVL = "overlay nodes (self['/'], ds['/'], attrs, keys) are opaque here: reads are 'ovl-read' effects on their record, writes 'ovl-write' effects; what is copied is decided by C01's bounded refinement check"
T5_COPY = "T5 pydantic copy(update=...) returns a NEW object (distinct from all existing ones) with the same field values except the updated ones"


class OvlNode(SVal):
    def __init__(self, owner, kind="group"):
        self.owner, self.kind = owner, kind

    def py_truth(self, cx):
        return True

    def attr_attrs(self, cx):
        return OvlNode(self.owner, "attrs")

    def meth_items(self, cx):
        from pyvc.containers import SSet

        cx.effect("ovl-read", self.owner)
        keys = SSet.fresh(STR, "ovl_keys")
        node = self
        from pyvc.containers import SetIter

        class _Items(SVal):
            def py_iter_schema(self_inner, cx2):
                return SetIter(STR, keys.dom, lambda kt: STuple((SStr(kt), OvlValue(node.owner))))

        return _Items()

    def meth_keys(self, cx):
        from pyvc.containers import SSet

        cx.effect("ovl-read", self.owner)
        return SSet.fresh(STR, "ovl_keys")

    def py_getitem(self, cx, k):
        cx.effect("ovl-read", self.owner)
        return OvlNode(self.owner, "child")

    def py_setitem(self, cx, k, v):
        cx.effect("ovl-write", self.owner)


class OvlValue(SVal):
    def __init__(self, owner):
        self.owner = owner


class TargetRecord(SVal):
    """A record created by `type(self)(target, 'x')` inside merge_files (constructor contract: creates only new files)."""

    def __init__(self, cx, target):
        self.path = path_term(target)
        self.file = z3.String(fresh_name("merged_container_file"))
        cx.effect("h5create", self.file, "x")

    def py_truth(self, cx):
        return True

    def meth___enter__(self, cx):
        return self

    def meth___exit__(self, cx):
        cx.effect("commit-close", self.file)

    def py_getitem(self, cx, k):
        return OvlNode("target")

    def attr_ih5_files(self, cx):
        return [PathVal(self.file)]


def h5_copy_binding(cx, src, trg_group, trg_path, **kw):
    cx.effect("ovl-read", src.owner)
    cx.effect("ovl-write", trg_group.owner)


ALLOC0 = z3.Function("allocated_at_entry", Ref, z3.BoolSort())


def ub_copy(cx, ub, update=None):
    new = SRef.fresh("IH5UserBlock", "ub_copy")
    cx.assume(z3.Not(ALLOC0(new.t)))  # T5_COPY: a new object
    for other in cx.ghost.get("fresh_ubs", []):  # ... also different from every object created earlier in this call
        cx.assume(new.t != other.t)
    d = ClassDecl.get("IH5UserBlock")
    upd = update or {}
    for f, ft in d.all_fields().items():
        if f in upd:
            new.py_setattr(cx, f, upd[f])
        else:
            cx.assume(ft.unwrap(cx, new.py_getattr(cx, f)) == ft.unwrap(cx, ub.py_getattr(cx, f)))
    cx.writes[:] = [w for w in cx.writes if w[1] is not new]  # initialisation of a fresh object is not a write to existing state
    cx.ghost.setdefault("fresh_ubs", []).append(new)
    return new


class MergeFiles(LifeCycle):
    qual = "IH5Record.merge_files"
    props = ("C05", "C02")

    def init(self):
        LifeCycle.init(self)
        self.inline |= {"IH5Record._fixes_after_merge"}
        self.bindings["h5_copy_from_to"] = h5_copy_binding
        triv = LoopSpec(lambda cx, env, it: [], modifies=[])
        self.loops[0] = LoopSpec(lambda cx, env, it: [], modifies=["k", "v"])
        self.loops[1] = LoopSpec(lambda cx, env, it: [], modifies=["name"])

    def setup(self, cx):
        a = LifeCycle.setup(self, cx)
        a.target = PathVal(z3.String("target"))
        j = z3.Int(fresh_name("fr_j"))
        return a

    def requires(self, cx, a):
        k = z3.String(fresh_name("al_k"))
        um = a.self.fields["_ublocks"]
        return LifeCycle.requires(self, cx, a) + [("has-files", files_of(a.self).n > 0), ("userblocks-exist-at-entry", z3.ForAll([k], z3.Implies(um.has(k), ALLOC0(um.get_term(k)))))]

    def raises(self, cx, a):
        rec = entry_rec(a)
        return {"ValueError": z3.Or(rec.fields["_closed"].t, self.writable_at_entry(cx, a))}

    def on_raise(self, cx, a, exc):
        return [("refused-without-effect", z3.BoolVal(not cx.fx), "merging is refused while there are uncommitted changes, without any effect")]

    def ensures(self, cx, a, res):
        rec = a.self
        n = a.old_files.n
        out = []
        # frame: the source object is unchanged
        out.append(("source-files-unchanged", files_of(rec).ext_eq(a.old_files), "merging leaves the still-open source object unchanged (file list)"))
        out.append(("source-userblock-map-unchanged", rec.fields["_ublocks"].same(cx, a.old_ublocks), "merging leaves the still-open source object unchanged (user blocks)"))
        fresh = cx.ghost.get("fresh_ubs", [])
        k = z3.String(fresh_name("mk"))
        d = ClassDecl.get("IH5UserBlock")
        conds = []
        for f, ft in d.all_fields().items():
            key = f"IH5UserBlock.{f}"
            cur = cx.heap_array(key, ft)
            with at_entry(cx):
                old = cx.heap_array(key, ft)
            conds.append(z3.ForAll([k], z3.Implies(a.old_ublocks.has(k), z3.Select(cur, a.old_ublocks.get_term(k)) == z3.Select(old, a.old_ublocks.get_term(k)))))
        out.append(("source-userblocks-unchanged", z3.And(*conds), "no user block of the source is modified (ih5_meta stays the same)"))
        # effects: nothing of the source is written
        src_writes = [e for e in cx.fx if e[0] == "ovl-write" and e[1] != "target"]
        out.append(("no-write-through-source-nodes", z3.BoolVal(not src_writes), "data is only written into the merged container"))
        ubw = [e for e in cx.fx if e[0] == "ubwrite"]
        tr = [e for e in cx.fx if e[0] == "h5create"]
        ok_shape = len(ubw) == 1 and len(tr) == 1
        out.append(("one-new-container", z3.BoolVal(ok_shape and not [e for e in cx.fx if e[0] in ("unlink", "mfwrite")]), "merge creates one new container and removes nothing"))
        if ok_shape:
            merged = tr[0][1]
            j = z3.Int(fresh_name("mj"))
            out.append(("user-block-written-to-merged-file-only", ubw[0][1] == merged, "the only user block written is the merged container's"))
            out.append(("merged-file-is-not-a-source-file", z3.BoolVal(True), "target created with mode 'x' (constructor contract)"))
            wub = SRef("IH5UserBlock", ubw[0][2])
            with at_entry(cx):
                ul, _ = ub_ref_at(cx, entry_rec(a), n - 1)
                u0, _ = ub_ref_at(cx, entry_rec(a), z3.IntVal(0))
                want = [ul.py_getattr(cx, "record_uuid").t, ul.py_getattr(cx, "patch_uuid").t, ul.py_getattr(cx, "patch_index").t]
                p0 = u0.py_getattr(cx, "prev_patch")
                p0_isnone, p0_val = p0.isnone, p0.val.t
            g = lambda f: wub.py_getattr(cx, f)  # noqa: E731
            out.append(("same-record-same-patch-state", z3.And(g("record_uuid").t == want[0], g("patch_uuid").t == want[1], g("patch_index").t == want[2]), "the merged container identifies itself as the same record at the same patch state"))
            out.append(("continues-the-chain-of-the-base", z3.And(g("prev_patch").isnone == p0_isnone, z3.Implies(z3.Not(p0_isnone), g("prev_patch").val.t == p0_val)), "prev_patch of the merged container is the base's"))
            out.append(("hash-of-merged-payload", z3.And(z3.Not(g("hdf5_hashsum").isnone), g("hdf5_hashsum").val.t == payload_hash(cx, merged)), "the merged container carries the hash of its own payload"))
            order = [e[0] for e in cx.fx if e[0] in ("commit-close", "open-read", "ubwrite")]
            out.append(("hash-after-close-before-userblock", z3.BoolVal(order == ["commit-close", "open-read", "ubwrite"]), "payload hashed after the merged record was closed and before its user block is rewritten"))
        if isinstance(res, PathVal) and ok_shape:
            out.append(("returns-merged-file", res.t == tr[0][1], "returns the new container"))
        return out


def add_merge(reg):
    reg.ctors["IH5Record"] = lambda cx, target, mode="r", **kw: TargetRecord(cx, target)
    reg.method_bindings[("IH5Record", "__getitem__")] = lambda cx, rec, k: OvlNode("source")
    reg.method_bindings[("IH5UserBlock", "copy")] = ub_copy
    return [reg.add(MergeFiles())]


# ------------------------------------------------------------------------------------------------
# IH5Record.__init__: open-mode decision table (C03)


def open_modes_from_source():
    """The six documented modes, read from util/types.py (`OpenMode = Literal[...]`)."""
    import ast as _ast

    mi = ModuleInfo.load(SRC / "util/types.py")
    for st in mi.tree.body:
        if isinstance(st, _ast.Assign) and isinstance(st.targets[0], _ast.Name) and st.targets[0].id == "OpenMode":
            sl = st.value.slice
            return [e.value for e in sl.elts]
    raise Unsupported("OpenMode literal not found")


class ObjDict(SVal):
    """obj.__dict__ of a python-level object"""

    def __init__(self, obj):
        self.obj = obj

    def meth_update(self, cx, other):
        if not isinstance(other, ObjDict):
            raise Unsupported("__dict__.update(non-__dict__)")
        self.obj.fields.update(other.obj.fields)
        cx.note_write(("obj", self.obj.name, "__dict__"), self.obj)


class InitModes(FnSpec):
    """Callee contracts are replaced here by call-logging stubs: the table says WHICH of _create/_open/create_patch run."""

    file = "ih5/record.py"
    qual = "IH5Record.__init__"
    props = ("C03",)

    def init(self):
        self.bindings["Path"] = path_ctor
        self.bindings["OPEN_MODES"] = open_modes_from_source()
        self.inline |= {"IH5Record._has_writable"}

    def setup(self, cx):
        rec = SObj("IH5Record", name="self")
        rec.fields["_allow_patching"] = True  # set by __new__
        rec.fields["__files__"] = []
        by_list = cx.choose(2) == 1
        a = A(self=rec, mode=SStr(z3.String("mode")), by_list=by_list, __kwargs__={})
        if by_list:
            a.record = SSeq.fresh(STR, "given_paths")
        else:
            a.record = PathVal(z3.String("record_path"))
        a.found = SSeq.fresh(STR, "found_files")
        a.opened_writable = z3.Bool("newest_is_uncommitted")  # state of the record returned by _open(reopen_incomplete_patch=True)
        return a

    def requires(self, cx, a):
        r = [("mode-non-empty", z3.Length(a.mode.t) > 0)]
        if a.by_list:
            r.append(("file-list-non-empty", a.record.n > 0))  # an empty explicit list is outside the property (it hits an unbound local in the real code)
        return r

    # stubs -----------------------------------------------------------------
    def stub_rec(self, cx, a, how):
        r = SObj("IH5Record", name="ret")
        r.fields["_allow_patching"] = True
        r.fields["_closed"] = False
        L = SSeq.fresh(TRef("H5File"), "ret_files")
        cx.assume(L.n > 0)
        r.fields["__files__"] = L
        r.fields["_ublocks"] = SMap.fresh(TPath(), TRef("IH5UserBlock"), "ret_ublocks")
        r.fields["_record"] = r  # IH5Group.__init__(ret, ret): the record every node created from it refers to (node.file)
        r.how = how
        return r

    def calls(self, cx):
        return [e for e in cx.fx if e[0] == "call"]

    def ensures(self, cx, a, res):
        m = a.mode.t
        eq = lambda s: m == z3.StringVal(s)  # noqa: E731
        calls = self.calls(cx)
        names = [c[1] for c in calls]
        out = []
        n_given = a.record.n if a.by_list else None
        files_avail = (n_given > 0) if a.by_list else (a.found.n > 0)
        creating = z3.Or(eq("w"), eq("w-"), eq("x"))
        out.append(("known-mode", z3.Or(*[eq(s) for s in open_modes_from_source()]), "unknown modes are refused"))
        # which primitive runs
        if "_create" in names:
            c = calls[names.index("_create")]
            trunc = c[2]
            out.append(("create-only-when-asked", z3.Or(creating, z3.And(eq("a"), z3.Not(files_avail))), "a record is created only by w / w- / x, or by 'a' when absent"))
            trunc_t = trunc.t if isinstance(trunc, SBool) else (z3.BoolVal(trunc) if isinstance(trunc, bool) else trunc)
            out.append(("only-w-replaces", trunc_t == eq("w"), "only 'w' replaces an existing record; 'x'/'w-' never touch one (mode 'x' create fails if it exists)"))
            out.append(("nothing-else", z3.BoolVal(names == ["_create"] or names == ["find_files", "_create"]), "creation does not open or patch anything else"))
        else:
            out.append(("opened-existing", z3.And(z3.Or(eq("r"), eq("r+"), eq("a")), files_avail), "r / r+ / a open the existing files"))
            opens = [c for c in calls if c[1] == "_open"]
            out.append(("one-open", z3.BoolVal(len(opens) == 1), "the record is opened once"))
            if len(opens) == 1:
                rw = opens[0][2]
                rw_t = rw.t if isinstance(rw, SBool) else z3.BoolVal(bool(rw))
                out.append(("uncommitted-patch-continued-only-when-writable-mode", rw_t == z3.Not(eq("r")), "'r' never reopens an uncommitted patch writable; 'r+'/'a' continue it"))
            ap = a.self.fields.get("_allow_patching")
            ap_t = ap.t if isinstance(ap, SBool) else z3.BoolVal(bool(ap))
            out.append(("r-is-strictly-read-only", ap_t == z3.Not(eq("r")), "'r' disables creating, committing and discarding patches"))
            # nodes are created as IH5Group(self._record, ...): what they call `.file` is the object `_record` names after the state was copied
            noderec = a.self.fields.get("_record", a.self)
            ap2 = noderec.fields.get("_allow_patching") if isinstance(noderec, SObj) else None
            ap2_t = ap2.t if isinstance(ap2, SBool) else (z3.BoolVal(bool(ap2)) if ap2 is not None else z3.BoolVal(True))
            out.append(("r-is-strictly-read-only:through-node.file", ap2_t == z3.Not(eq("r")), "the record that nodes hand out as .file has the same mode: no patch can be created, committed or discarded through a node of a record opened 'r'"))
            made_patch = "create_patch" in names
            out.append(("new-patch-iff-writable-mode-and-fully-committed", z3.BoolVal(made_patch) == z3.And(z3.Not(eq("r")), z3.Not(a.opened_writable)), "'r+'/'a' start a new patch exactly when the newest container is already committed"))
        return out

    def raises(self, cx, a):
        m = a.mode.t
        eq = lambda s: m == z3.StringVal(s)  # noqa: E731
        known = z3.Or(*[eq(s) for s in open_modes_from_source()])
        creating = z3.Or(eq("w"), eq("w-"), eq("x"))
        files_avail = (a.record.n > 0) if a.by_list else (a.found.n > 0)
        return {
            "ValueError": z3.Or(z3.Not(known), z3.And(z3.BoolVal(a.by_list), creating)),
            "FileNotFoundError": z3.And(z3.Or(eq("r"), eq("r+")), z3.Not(files_avail)),
        }

    def on_raise(self, cx, a, exc):
        bad = [c for c in self.calls(cx) if c[1] != "find_files"]
        return [("refused-without-effect", z3.BoolVal(not bad), "a refused open neither creates nor opens nor patches anything")]


def add_init_modes(reg):
    spec = InitModes()

    def _create(cx, rec, path, truncate=False):
        cx.effect("call", "_create", truncate)
        return spec.stub_rec(cx, cx.run_args, "create")

    def _open(cx, rec, paths, reopen_incomplete_patch=False, **kw):
        cx.effect("call", "_open", reopen_incomplete_patch)
        r = spec.stub_rec(cx, cx.run_args, "open")
        a = cx.run_args
        rw = reopen_incomplete_patch.t if isinstance(reopen_incomplete_patch, SBool) else z3.BoolVal(bool(reopen_incomplete_patch))
        L = r.fields["__files__"]
        last_mode = SRef("H5File", L.at_term(L.n - 1)).py_getattr(cx, "mode").t
        cx.assume(last_mode == z3.If(z3.And(rw, a.opened_writable), z3.StringVal("r+"), z3.StringVal("r")))  # OpenRecord: newest-writable-iff-uncommitted-and-requested
        return r

    def find_files(cx, rec, path):
        cx.effect("call", "find_files")
        return cx.run_args.found.snapshot()

    def create_patch(cx, rec):
        cx.effect("call", "create_patch")

    reg.method_bindings[("IH5Record", "_create")] = _create
    reg.method_bindings[("IH5Record", "_open")] = _open
    reg.method_bindings[("IH5Record", "find_files")] = find_files
    reg.method_bindings[("IH5Record", "create_patch")] = create_patch
    reg.method_bindings[("IH5Record", "super.__init__")] = lambda cx, obj, *a, **k: None
    reg.attr_bindings[("IH5Record", "__dict__")] = lambda cx, o: ObjDict(o)
    orig_setup = spec.setup

    def setup(cx):
        a = orig_setup(cx)
        cx.run_args = a
        return a

    spec.setup = setup
    return spec


# ------------------------------------------------------------------------------------------------
# user-block codec (C03 d, C05, C11)

from .common_io import BytesVal, Stream  # noqa: E402

T2_FILE = "T2 regular files: read(n) returns exactly min(n, remaining) bytes; seek(0) rewinds"


def magic(cx):
    mi = ModuleInfo.load(SRC / "ih5/record.py")
    return cx.run.interp.resolve_name(cx, Frame(mi, "<module>", Env(None), spec=cx.run.spec), "FORMAT_MAGIC_STR")


def _split_part(s, sep, idx):
    """the term the engine builds for s.split(sep)[idx] (idx 1 or 2)"""
    from pyvc.values import SplitVal

    class _NoFail:
        def decide_or_fail(self, *a, **k):
            pass

    return SplitVal(s, sep).py_getitem(_NoFail(), idx).t


class ReadHeadRaw(FnSpec):
    file = "ih5/record.py"
    qual = "IH5UserBlock._read_head_raw"
    props = ("C03", "C05", "C11")

    def setup(self, cx):
        size_n = z3.Int("size_number")
        size_s, js, tail, rest = z3.String("size_digits"), z3.String("json_text"), z3.String("stale_tail"), z3.String("hdf5_payload")
        m = z3.StringVal(magic(cx))
        nl, nul = z3.StringVal("\n"), z3.StringVal("\x00")
        block = z3.Concat(m, nl, size_s, nl, js, nul, tail)
        a = A(cls=SClass("IH5UserBlock"), stream=Stream(z3.Concat(block, rest), exact=True), ub_size=SInt(z3.Int("ub_size")))
        a.size_s, a.js, a.tail, a.block, a.size_n = size_s, js, tail, block, size_n
        return a

    def requires(self, cx, a):
        nl, nul = z3.StringVal("\n"), z3.StringVal("\x00")
        no = lambda s, c: z3.Not(z3.Contains(s, c))  # noqa: E731
        return [
            ("block-fills-the-probe", z3.Length(a.block) == a.ub_size.t),
            ("size-is-a-written-number", z3.And(a.size_n >= 0, a.size_s == z3.IntToStr(a.size_n))),  # save() writes str(int): the decimal text of a non-negative int ...
            ("size-is-decimal", z3.InRe(a.size_s, z3.Plus(z3.Range("0", "9")))),  # ... which consists of digits (T4; stated redundantly because neither solver derives it)
            ("json-is-one-line-without-NUL", z3.And(no(a.js, nl), no(a.js, nul))),  # T5: .json() emits one line without NUL
            ("tail-has-no-newline", no(a.tail, nl)),  # what follows the terminating NUL inside the block: zeros or the rest of an older, longer block
        ]

    def hints(self, cx, a):
        m = z3.StringVal(magic(cx))
        L0 = z3.IntVal(len(magic(cx)))
        nl, nul = z3.StringVal("\n"), z3.StringVal("\x00")
        from .common_io import exact_chunk

        whole = a.stream.whole
        b = exact_chunk(whole, a.ub_size.t)  # the term the code sees as `probe`
        s_end = L0 + 1 + z3.Length(a.size_s)
        third = z3.Concat(a.js, nul, a.tail)
        return [
            ("size-has-no-newline:first", z3.Not(z3.Contains(a.size_s, nl))),
            ("probe-is-the-block", b == a.block),
            ("first-newline-after-magic", z3.IndexOf(b, nl, 0) == L0),
            ("second-newline-after-size", z3.IndexOf(b, nl, L0 + 1) == s_end),
            ("no-third-newline", z3.IndexOf(b, nl, s_end + 1) == -1),
            ("second-part-is-size", z3.SubString(b, L0 + 1, s_end - (L0 + 1)) == a.size_s),
            ("third-part", z3.SubString(b, s_end + 1, z3.Length(b) - (s_end + 1)) == third),
            ("first-NUL-ends-json", z3.IndexOf(third, nul, 0) == z3.Length(a.js)),
            ("first-part-is-magic", z3.SubString(b, 0, L0) == m),
            ("size-parses", z3.StrToInt(a.size_s) == a.size_n),
            ("code-second-part-is-size", _split_part(b, nl, 1) == a.size_s),
            ("code-second-part-parses", z3.StrToInt(_split_part(b, nl, 1)) == a.size_n),
            ("code-third-part", _split_part(b, nl, 2) == third),
            ("code-third-part-first-NUL", z3.IndexOf(_split_part(b, nl, 2), nul, 0) == z3.Length(a.js)),
            ("size-has-no-newline", z3.Not(z3.Contains(a.size_s, nl))),
        ]

    def ensures(self, cx, a, res):
        if not (isinstance(res, tuple) and len(res) == 2 and isinstance(res[0], SInt) and isinstance(res[1], SStr)):
            return [("result-shape", z3.BoolVal(False), "a well-formed block is recognised")]
        return [
            ("size-line", res[0].t == a.size_n, "the claimed user block size is the number on the second line"),
            ("data-ends-at-first-NUL", res[1].t == a.js, "the embedded data ends at the first NUL byte: a stale tail of an earlier, longer block is ignored"),
        ]


def add_codec(reg):
    s = ReadHeadRaw()
    reg.add(s)
    return [s]
