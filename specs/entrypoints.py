"""plugin/entrypoints.py get_group: which entry points a plugin group sees, and that every providing package gets its metadata recorded (C16, C20)."""
from __future__ import annotations

import z3

from pyvc.api import A, FnSpec, LoopSpec
from pyvc.containers import STR, SMap, SSet, T
from pyvc.values import SStr, SVal, Unsupported, fresh_name

S, B, I = z3.StringSort(), z3.BoolSort(), z3.IntSort()
EP = z3.DeclareSort("EntryPoint")
EP_NAME = z3.Function("entry_point_name", EP, S)
EP_DIST = z3.Function("distribution_name_of_entry_point", EP, S)
NEP = z3.Int("number_of_entry_points_selected_for_the_group")
EP_AT = z3.Function("selected_entry_point", I, EP)  # the i-th entry point _eps.select(group=...) lists


class _All:
    def __getitem__(self, i):
        return EP_AT(i)


ALL = _All()
KNOWN0 = z3.Function("package_metadata_known_before", S, B)

T_EPS = ["importlib_metadata: _eps.select(group=g) lists the entry points of that group in some order; ep.name, ep.dist.name are its name and its distribution's name; to_ep_group_name has its own contract"]


class TEp(T):
    def sort(self):
        return EP

    def wrap(self, t):
        return EpV(t)

    def unwrap(self, cx, v):
        if isinstance(v, EpV):
            return v.t
        raise Unsupported("not an entry point")


class EpV(SVal):
    def __init__(self, t):
        self.t = t

    def py_getattr(self, cx, n):
        if n == "name":
            return SStr(EP_NAME(self.t))
        if n == "dist":
            return type("D", (SVal,), {"py_getattr": lambda s, cx2, n2: SStr(EP_DIST(self.t)) if n2 == "name" else (_ for _ in ()).throw(Unsupported(n2))})()
        raise Unsupported("entry point attribute " + n)


class Selected(SVal):
    @property
    def n(self):
        return NEP

    def at(self, i):
        return EpV(ALL[i])

    def py_iter_schema(self, cx):
        from pyvc.containers import SeqIter

        return SeqIter(self)


class PkgMetaStub(SVal):
    """the module-level dict pkg_meta: which distributions have their metadata recorded (a ghost set of names added by this call)"""

    def __init__(self):
        self.added = SSet(STR)

    def py_contains(self, cx, k):
        from pyvc.values import SBool

        return SBool(z3.Or(KNOWN0(k.t), self.added.has(k.t)))

    def py_setitem(self, cx, k, v):
        ok = isinstance(v, tuple) and v[0] == "meta-for" and isinstance(v[1], SStr)
        cx.oblige("metadata-recorded-for-the-package-it-is-filed-under", "call-pre", z3.BoolVal(False) if not ok else v[1].t == k.t, clause="the metadata filed under a distribution name is the metadata OF that distribution")
        self.added.py_call_method(cx, "add", [k], {})

    def havoc_inplace(self, cx, hint="pm"):
        self.added = SSet.fresh(STR, hint)


class GetGroup(FnSpec):
    file = "plugin/entrypoints.py"
    qual = "get_group"
    props = ("C16", "C20")

    def init(self):
        self.bindings["to_ep_group_name"] = lambda cx, g: ("ep-group-of", g)

        class Eps(SVal):
            def meth_select(s, cx, **kw):
                if set(kw) != {"group"} or kw["group"] != ("ep-group-of", "the-group"):
                    raise Unsupported("select with other arguments")
                cx.effect("select")
                return Selected()

        self.bindings["_eps"] = Eps()

        class PPM(SVal):
            def meth_for_package(s, cx, name):
                return ("meta-for", name)

        self.bindings["PluginPkgMeta"] = PPM()

        def inv(cx, env, it):
            a = cx.ghost["gg"]
            pl = env["plugins"]
            if not isinstance(pl, SMap):
                return [("collecting-into-a-dict", z3.BoolVal(False))]
            k = z3.String(fresh_name("ik"))
            j, j2 = z3.Int(fresh_name("ij")), z3.Int(fresh_name("ij2"))
            seen = lambda x: z3.Exists([j], z3.And(0 <= j, j < it.i, x(ALL[j])))  # noqa: E731
            return [
                ("names-so-far-are-distinct", z3.ForAll([j, j2], z3.Implies(z3.And(0 <= j, j < j2, j2 < it.i), EP_NAME(ALL[j]) != EP_NAME(ALL[j2])))),
                ("collected-so-far", z3.ForAll([j], z3.Implies(z3.And(0 <= j, j < it.i), z3.And(pl.has(EP_NAME(ALL[j])), pl.get_term(EP_NAME(ALL[j])) == ALL[j])))),
                ("nothing-else-collected", z3.ForAll([k], z3.Implies(pl.has(k), seen(lambda e: EP_NAME(e) == k)))),
                ("packages-recorded-so-far", z3.ForAll([j], z3.Implies(z3.And(0 <= j, j < it.i), z3.Or(KNOWN0(EP_DIST(ALL[j])), a.pm.added.has(EP_DIST(ALL[j])))))),
                ("only-providing-packages-recorded", z3.ForAll([k], z3.Implies(a.pm.added.has(k), z3.And(z3.Not(KNOWN0(k)), seen(lambda e: EP_DIST(e) == k))))),
            ]

        def on_havoc(cx):
            cx.ghost["gg"].pm.havoc_inplace(cx)

        ls = LoopSpec(inv, modifies=["ep", "plugins", "msg"])
        ls.on_havoc = on_havoc
        self.loops[0] = ls

    def annotated_value(self, cx, name, ann, v):
        return None

    def empty_container(self, cx, name, ann):
        if name == "plugins":
            return SMap(STR, TEp(), name="plugins")
        return None

    def setup(self, cx):
        cx.assume(NEP >= 0)
        a = A(group_name="the-group")
        a.pm = PkgMetaStub()
        self.bindings["pkg_meta"] = a.pm
        cx.ghost["gg"] = a
        return a

    def dup(self):
        j, j2 = z3.Ints("dj dj2")
        return z3.Exists([j, j2], z3.And(0 <= j, j < j2, j2 < NEP, EP_NAME(ALL[j]) == EP_NAME(ALL[j2])))

    def raises(self, cx, a):
        return {"TypeError": self.dup()}

    def ensures(self, cx, a, res):
        if not isinstance(res, SMap):
            return [("a-dict-of-entry-points", z3.BoolVal(False), "")]
        j = z3.Int(fresh_name("ej"))
        k = z3.String(fresh_name("ek"))
        n = NEP
        return [
            ("every-entry-point-of-the-group-under-its-own-name", z3.ForAll([j], z3.Implies(z3.And(0 <= j, j < n), z3.And(res.has(EP_NAME(ALL[j])), res.get_term(EP_NAME(ALL[j])) == ALL[j]))), "a plugin group sees every entry point registered for it, under the entry point's own name (two entry points with one name are an error, never silently shadowed)"),
            ("and-nothing-else", z3.ForAll([k], z3.Implies(res.has(k), z3.Exists([j], z3.And(0 <= j, j < n, EP_NAME(ALL[j]) == k)))), ""),
            ("metadata-of-every-providing-package-is-recorded", z3.ForAll([j], z3.Implies(z3.And(0 <= j, j < n), z3.Or(KNOWN0(EP_DIST(ALL[j])), a.pm.added.has(EP_DIST(ALL[j]))))), "for every entry point the metadata of the distribution providing it is on record afterwards (what PluginGroup.provider and the container's package records draw on)"),
        ]


def add_entrypoints(reg):
    return [GetGroup()]


# ---- PluginPkgMeta.for_package: the package record (name, version, repository, plugin list) built from the distribution's metadata ----------------------------
Grp = S
NAMES_OF = z3.Function("entry_point_names_listed_for_group", S, z3.SeqSort(S))  # dm.plugins[group]
HAS_GROUP = z3.Function("distribution_lists_group", S, B)
Ver = z3.DeclareSort("VersionTuple")
EPN_NAME = z3.Function("from_ep_name_name", S, S)
EPN_VER = z3.Function("from_ep_name_version", S, Ver)
RefS = z3.DeclareSort("PluginRefOfPackage")
MKREF3 = z3.Function("PluginRef_of_group_name_version", S, S, Ver, RefS)
REFS = z3.SeqSort(RefS)


class RefTok(SVal):
    def __init__(self, t):
        self.t = t


class GroupList(SVal):
    """plugins[group]: a python list of references, filled by append"""

    def __init__(self, group_t):
        self.group_t = group_t
        self.t = z3.Empty(REFS)

    def meth_append(self, cx, r):
        if not isinstance(r, RefTok):
            raise Unsupported("append of something else than a reference")
        self.t = z3.Concat(self.t, z3.Unit(r.t))

    def meth_insert(self, cx, i, r):
        if i != 0 or not isinstance(r, RefTok):
            raise Unsupported("insert other than at the front")
        self.t = z3.Concat(z3.Unit(r.t), self.t)

    def havoc_inplace(self, cx, hint="gl"):
        self.t = z3.Const(fresh_name(hint), REFS)


class PluginsDict(SVal):
    def __init__(self):
        self.lists = []  # GroupList objects created by this call (python-level; one per executed outer iteration)

    def py_setitem(self, cx, g, v):
        if not (isinstance(v, list) and not v) or not isinstance(g, SStr):
            raise Unsupported("plugins[group] = something else than a new empty list")
        self.lists.append(GroupList(g.t))

    def py_getitem(self, cx, g):
        for gl in reversed(self.lists):
            if z3.eq(gl.group_t, g.t):
                return gl
        raise Unsupported("plugins[group] of a group not set in this iteration")


class ForPackage(FnSpec):
    file = "schema/plugins.py"
    qual = "PluginPkgMeta.for_package"
    props = ("C20", "C16")

    def init(self):
        self.bindings["distribution"] = lambda cx, n: ("distribution-of", n)
        self.bindings["EPName"] = lambda cx, x: x
        self.bindings["from_ep_name"] = lambda cx, e: (SStr(EPN_NAME(e.t)), VerV(EPN_VER(e.t)))
        self.bindings["PluginRef"] = lambda cx, **kw: RefTok(MKREF3(kw["group"].t, kw["name"].t, kw["version"].t)) if set(kw) == {"group", "name", "version"} else (_ for _ in ()).throw(Unsupported("PluginRef with other arguments"))

        class DM(SVal):
            def py_getattr(s, cx, n):
                if n == "plugins":
                    return DmPlugins()
                if n in ("name", "version", "repository_url"):
                    return ("dm", n)
                raise Unsupported("DistMeta attribute " + n)

        class DmPlugins(SVal):
            def meth_items(s, cx):
                class _It(SVal):
                    def py_iter_schema(s2, cx2):
                        from pyvc.containers import SetIter
                        from pyvc.values import STuple

                        g = z3.String(fresh_name("g"))
                        return SetIter(STR, z3.Lambda([g], HAS_GROUP(g)), lambda gt: STuple((SStr(gt), NameList(gt))))

                return _It()

        self.bindings["distmeta_for"] = lambda cx, d: (cx.effect("distmeta_for", d), DM())[1]

        def inner_inv(cx, env, it):
            a = cx.ghost["fp"]
            gl = a.pl.lists[-1] if a.pl.lists else None
            names = env["ep_names"]
            if gl is None or not isinstance(names, NameList):
                return [("filling-the-list-of-this-group", z3.BoolVal(False))]
            cx.assume(z3.And(REFS_OF(names.t, gl.group_t, 0) == z3.Empty(REFS), z3.Implies(z3.And(it.i >= 0, it.i < z3.Length(names.t)), REFS_OF(names.t, gl.group_t, it.i + 1) == z3.Concat(REFS_OF(names.t, gl.group_t, it.i), z3.Unit(MKREF3(gl.group_t, EPN_NAME(names.t[it.i]), EPN_VER(names.t[it.i])))))))
            return [("references-for-the-names-so-far-in-order", gl.t == REFS_OF(names.t, gl.group_t, it.i))]

        def inner_havoc(cx):
            a = cx.ghost["fp"]
            if a.pl.lists:
                a.pl.lists[-1].havoc_inplace(cx)

        li = LoopSpec(inner_inv, modifies=["ep_name", "name", "version", "ref"])
        li.on_havoc = inner_havoc
        self.loops[("iter", "ep_names")] = li

        def outer_inv(cx, env, it):
            a = cx.ghost["fp"]
            a.outer_calls += 1
            out = []
            if a.outer_calls == 3:  # after one arbitrary iteration: exactly one list was made, for this group, complete
                new = a.pl.lists[a.lists0 :]
                g = it.cur if it.cur is not None else None
                ok = len(new) == 1
                out.append(("one-list-per-group-holding-all-its-references-in-order", z3.BoolVal(False) if not ok else z3.And(new[0].group_t == g, new[0].t == REFS_OF(NAMES_OF(g), g, z3.Length(NAMES_OF(g))))))
            return out

        def outer_havoc(cx):
            a = cx.ghost["fp"]
            a.lists0 = len(a.pl.lists)

        lo = LoopSpec(outer_inv, modifies=["group", "ep_names"])
        lo.on_havoc = outer_havoc
        self.loops[("iter", "dm.plugins.items()")] = lo

    def empty_container(self, cx, name, ann):
        if name == "plugins":
            return cx.ghost["fp"].pl
        return None

    def setup(self, cx):
        class Cls(SVal):
            def py_call(s, cx2, **kw):
                return ("PluginPkgMeta", kw)

        a = A(cls=Cls(), package_name="the-package")
        a.pl, a.outer_calls, a.lists0 = PluginsDict(), 0, 0
        cx.ghost["fp"] = a
        return a

    def raises(self, cx, a):
        return {}

    def ensures(self, cx, a, res):
        dm = [e[:-1] for e in cx.fx if e[0] == "distmeta_for"]
        ok = isinstance(res, tuple) and res[0] == "PluginPkgMeta" and set(res[1]) == {"name", "version", "repository_url", "plugins"} and all(res[1][k] == ("dm", k) for k in ("name", "version", "repository_url")) and res[1]["plugins"] is a.pl and dm == [("distmeta_for", ("distribution-of", "the-package"))]
        return [("record-of-exactly-that-distribution", z3.BoolVal(bool(ok)), "name, version and repository are those of the installed distribution of that name; the plugin lists are the ones built per group (loop contract: one list per group, a reference (group, name, version from the entry point name) for every listed entry point, in order)")]


REFS_OF = z3.Function("references_for_the_first_k_names", z3.SeqSort(S), S, I, REFS)  # definition: [] for k = 0; (k) ++ [PluginRef(group, from_ep_name(names[k]))] for k+1


class NameList(SVal):
    def __init__(self, group_t):
        self.group_t = group_t
        self.t = NAMES_OF(group_t)

    @property
    def n(self):
        return z3.Length(self.t)

    def at(self, i):
        return SStr(self.t[i])

    def py_iter_schema(self, cx):
        from pyvc.containers import SeqIter

        return SeqIter(self)


class VerV(SVal):
    def __init__(self, t):
        self.t = t


def add_for_package(reg):
    return [ForPackage()]
