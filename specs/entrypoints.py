"""plugin/entrypoints.py get_group: which entry points a plugin group sees, and that every providing package gets its metadata recorded (C16, C20)."""
from __future__ import annotations

import z3

from pyvc.api import A, FnSpec, LoopSpec
from pyvc.containers import STR, SMap, SSet, T
from pyvc.values import SStr, SVal, Unsupported, fresh_name

S, B, I = z3.StringSort(), z3.BoolSort(), z3.IntSort()
EP = z3.DeclareSort("EntryPoint")
EP_NAME = z3.Function("entry_point_name", EP, S)
EP_DIST = z3.Function("distribution_name_of_entry_point", EP, S)
NEP = z3.Int("number_of_entry_points_selected_for_the_group")
EP_AT = z3.Function("selected_entry_point", I, EP)  # the i-th entry point _eps.select(group=...) lists


class _All:
    def __getitem__(self, i):
        return EP_AT(i)


ALL = _All()
KNOWN0 = z3.Function("package_metadata_known_before", S, B)

T_EPS = ["importlib_metadata: _eps.select(group=g) lists the entry points of that group in some order; ep.name, ep.dist.name are its name and its distribution's name; to_ep_group_name has its own contract"]


class TEp(T):
    def sort(self):
        return EP

    def wrap(self, t):
        return EpV(t)

    def unwrap(self, cx, v):
        if isinstance(v, EpV):
            return v.t
        raise Unsupported("not an entry point")


class EpV(SVal):
    def __init__(self, t):
        self.t = t

    def py_getattr(self, cx, n):
        if n == "name":
            return SStr(EP_NAME(self.t))
        if n == "dist":
            return type("D", (SVal,), {"py_getattr": lambda s, cx2, n2: SStr(EP_DIST(self.t)) if n2 == "name" else (_ for _ in ()).throw(Unsupported(n2))})()
        raise Unsupported("entry point attribute " + n)


class Selected(SVal):
    @property
    def n(self):
        return NEP

    def at(self, i):
        return EpV(ALL[i])

    def py_iter_schema(self, cx):
        from pyvc.containers import SeqIter

        return SeqIter(self)


class PkgMetaStub(SVal):
    """the module-level dict pkg_meta: which distributions have their metadata recorded (a ghost set of names added by this call)"""

    def __init__(self):
        self.added = SSet(STR)

    def py_contains(self, cx, k):
        from pyvc.values import SBool

        return SBool(z3.Or(KNOWN0(k.t), self.added.has(k.t)))

    def py_setitem(self, cx, k, v):
        ok = isinstance(v, tuple) and v[0] == "meta-for" and isinstance(v[1], SStr)
        cx.oblige("metadata-recorded-for-the-package-it-is-filed-under", "call-pre", z3.BoolVal(False) if not ok else v[1].t == k.t, clause="the metadata filed under a distribution name is the metadata OF that distribution")
        self.added.py_call_method(cx, "add", [k], {})

    def havoc_inplace(self, cx, hint="pm"):
        self.added = SSet.fresh(STR, hint)


class GetGroup(FnSpec):
    file = "plugin/entrypoints.py"
    qual = "get_group"
    props = ("C16", "C20")

    def init(self):
        self.bindings["to_ep_group_name"] = lambda cx, g: ("ep-group-of", g)

        class Eps(SVal):
            def meth_select(s, cx, **kw):
                if set(kw) != {"group"} or kw["group"] != ("ep-group-of", "the-group"):
                    raise Unsupported("select with other arguments")
                cx.effect("select")
                return Selected()

        self.bindings["_eps"] = Eps()

        class PPM(SVal):
            def meth_for_package(s, cx, name):
                return ("meta-for", name)

        self.bindings["PluginPkgMeta"] = PPM()

        def inv(cx, env, it):
            a = cx.ghost["gg"]
            pl = env["plugins"]
            if not isinstance(pl, SMap):
                return [("collecting-into-a-dict", z3.BoolVal(False))]
            k = z3.String(fresh_name("ik"))
            j, j2 = z3.Int(fresh_name("ij")), z3.Int(fresh_name("ij2"))
            seen = lambda x: z3.Exists([j], z3.And(0 <= j, j < it.i, x(ALL[j])))  # noqa: E731
            return [
                ("names-so-far-are-distinct", z3.ForAll([j, j2], z3.Implies(z3.And(0 <= j, j < j2, j2 < it.i), EP_NAME(ALL[j]) != EP_NAME(ALL[j2])))),
                ("collected-so-far", z3.ForAll([j], z3.Implies(z3.And(0 <= j, j < it.i), z3.And(pl.has(EP_NAME(ALL[j])), pl.get_term(EP_NAME(ALL[j])) == ALL[j])))),
                ("nothing-else-collected", z3.ForAll([k], z3.Implies(pl.has(k), seen(lambda e: EP_NAME(e) == k)))),
                ("packages-recorded-so-far", z3.ForAll([j], z3.Implies(z3.And(0 <= j, j < it.i), z3.Or(KNOWN0(EP_DIST(ALL[j])), a.pm.added.has(EP_DIST(ALL[j])))))),
                ("only-providing-packages-recorded", z3.ForAll([k], z3.Implies(a.pm.added.has(k), z3.And(z3.Not(KNOWN0(k)), seen(lambda e: EP_DIST(e) == k))))),
            ]

        def on_havoc(cx):
            cx.ghost["gg"].pm.havoc_inplace(cx)

        ls = LoopSpec(inv, modifies=["ep", "plugins", "msg"])
        ls.on_havoc = on_havoc
        self.loops[0] = ls

    def annotated_value(self, cx, name, ann, v):
        return None

    def empty_container(self, cx, name, ann):
        if name == "plugins":
            return SMap(STR, TEp(), name="plugins")
        return None

    def setup(self, cx):
        cx.assume(NEP >= 0)
        a = A(group_name="the-group")
        a.pm = PkgMetaStub()
        self.bindings["pkg_meta"] = a.pm
        cx.ghost["gg"] = a
        return a

    def dup(self):
        j, j2 = z3.Ints("dj dj2")
        return z3.Exists([j, j2], z3.And(0 <= j, j < j2, j2 < NEP, EP_NAME(ALL[j]) == EP_NAME(ALL[j2])))

    def raises(self, cx, a):
        return {"TypeError": self.dup()}

    def ensures(self, cx, a, res):
        if not isinstance(res, SMap):
            return [("a-dict-of-entry-points", z3.BoolVal(False), "")]
        j = z3.Int(fresh_name("ej"))
        k = z3.String(fresh_name("ek"))
        n = NEP
        return [
            ("every-entry-point-of-the-group-under-its-own-name", z3.ForAll([j], z3.Implies(z3.And(0 <= j, j < n), z3.And(res.has(EP_NAME(ALL[j])), res.get_term(EP_NAME(ALL[j])) == ALL[j]))), "a plugin group sees every entry point registered for it, under the entry point's own name (two entry points with one name are an error, never silently shadowed)"),
            ("and-nothing-else", z3.ForAll([k], z3.Implies(res.has(k), z3.Exists([j], z3.And(0 <= j, j < n, EP_NAME(ALL[j]) == k)))), ""),
            ("metadata-of-every-providing-package-is-recorded", z3.ForAll([j], z3.Implies(z3.And(0 <= j, j < n), z3.Or(KNOWN0(EP_DIST(ALL[j])), a.pm.added.has(EP_DIST(ALL[j]))))), "for every entry point the metadata of the distribution providing it is on record afterwards (what PluginGroup.provider and the container's package records draw on)"),
        ]


def add_entrypoints(reg):
    return [GetGroup()]
