"""C04 — only coherent, untampered file sets open as a record."""
from . import hashing, manifest, record, ublock


def build(reg):
    record.add_record_bindings(reg)
    record.add_open_bindings(reg)
    specs = [reg.specs[("ih5/record.py", "IH5Record._check_ublock")], reg.add(record.OpenRecord())]
    mf = [x for x in manifest.add_manifest(reg) if x.qual == "IH5MFRecord._open"]
    specs = specs + mf
    hs = [reg.specs[k] for k in reg.specs if k[1] in ("hashsum", "qualified_hashsum", "hashsum_file")]
    return {
        "verify": specs + hs + [x for x in ublock.add_ublock(reg) if x.qual.endswith((".create", ".load"))],  # what a new block looks like is what _check_ublock accepts as the next patch
        "lemmas": [],
        "trusted": hashing.TRUSTED + ublock.T_UB[:2] + [record.T1_OPEN, record.T5_UB, "T5 pydantic: field access on IH5UserBlock returns the parsed field; UUID equality = equality of canonical text", "T4 list.sort(key) yields a permutation ascending in the key; |{f(x)}| = |xs| iff f injective on xs"],
        "assumptions": ["IH5MFRecord._open: IH5Record._open is represented by its own contract (verified above) through a stub that either refuses with ValueError or returns a record with at least one container satisfying RecInv", "IH5Record.__new__ (3 lines) and the IH5Node initialiser called via super().__init__ are taken as: fresh object with _allow_patching=True, __files__=[]; node fields only"],
    }
