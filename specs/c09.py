"""C09 — containers behave identically on plain HDF5 and on IH5 (P-tier: the IH5 side satisfies the shared protocol
contracts wherever C01 proves them: child resolution, key guard, delete/attribute write contracts, copy destination)."""
from . import drivers, h5copy, overlay, tocreg, ovlgroup, ovlguards, ovlread


def build(reg):
    specs = overlay.add_overlay(reg) + overlay.add_overlay_strings(reg) + overlay.add_writers(reg) + overlay.add_copy_move(reg) + ovlread.add_ovlread(reg) + ovlread.add_ovlread2(reg) + ovlgroup.add_ovlgroup(reg) + h5copy.add_h5copy(reg) + drivers.add_drivers(reg) + tocreg.add_links_only(reg) + ovlguards.add_ovlguards(reg)
    keep = [s for s in specs if "C09" in s.props]
    from . import oneliners

    keep = keep + oneliners.add_oneliners(reg, props=("C09",))  # one- and two-line delegations, verified against what other contracts bind them to
    return {"verify": keep, "lemmas": [], "trusted": oneliners.T_ONE + [overlay.T1_READ, overlay.T1_WRITE] + ovlread.T_READ + ovlread.T_WALK + drivers.T_DRV, "assumptions": ["h5py is the reference side of the relation (trusted protocol T1); only the IH5 side is verified against it; the relation itself is checked bounded in lock-step"]}
