"""C05 — merge materialises the overlay view and continues the patch chain (P-tier: refusal, source frame, merged user block)."""
import z3

from . import h5copy, hashing, manifest, ovlgroup, ovlread, record
from .record import ublock_reject


def lemma_chain_continuation():
    """A patch accepted on top of the source's newest block is accepted on top of the merged block, and vice versa:
    the link/index/record conditions of C04's rejection condition only read record_uuid, patch_uuid, patch_index of `prev`."""
    S = z3.StringSort()
    names = ["rec", "pu", "idx"]
    src = {"rec": z3.String("s_rec"), "pu": z3.String("s_pu"), "idx": z3.Int("s_idx")}
    mrg = {"rec": z3.String("m_rec"), "pu": z3.String("m_pu"), "idx": z3.Int("m_idx")}
    p = {"rec": z3.String("p_rec"), "idx": z3.Int("p_idx"), "prev_none": z3.Bool("p_prev_none"), "prev": z3.String("p_prev")}
    same = z3.And(src["rec"] == mrg["rec"], src["pu"] == mrg["pu"], src["idx"] == mrg["idx"])  # MergeFiles: same-record-same-patch-state
    rej = lambda prev, rec_uuid: z3.Or(p["rec"] != rec_uuid, p["idx"] <= prev["idx"], p["prev_none"], p["prev"] != prev["pu"])  # noqa: E731
    yield "patch-accepted-on-source-iff-on-merged", [same], rej(src, src["rec"]) == rej(mrg, mrg["rec"])


def build(reg):
    record.add_record_bindings(reg)
    record.add_open_bindings(reg)
    record.add_lifecycle(reg)
    specs = record.add_merge(reg) + record.add_codec(reg)
    specs += [x for x in manifest.add_manifest(reg) if x.qual in ("IH5MFRecord._fixes_after_merge", "IH5MFRecord.merge_files")]  # the manifest side of a merge
    specs += [x for x in ovlgroup.add_ovlgroup(reg) if x.qual == "IH5Group.visititems"] + [ovlread.RelPath()]  # the walk and the relative names the copy is driven by
    specs += h5copy.add_h5copy(reg)  # the copy merge_files materialises the view with
    from . import oneliners

    specs = specs + oneliners.add_oneliners(reg, props=("C05",))  # one- and two-line delegations, verified against what other contracts bind them to
    return {
        "verify": specs,
        "lemmas": [("chain-continuation", lemma_chain_continuation)],
        "trusted": oneliners.T_ONE + hashing.TRUSTED + [record.T1_OVL, record.T5_COPY, record.T3_HEX, "constructor type(self)(target,'x'): creates only new files, commits and closes on __exit__ (IH5Record.__init__/_create/close contracts; mode 'x' proved for _new_container in C02)"] + h5copy.T_COPY + ovlgroup.T_VISIT + ovlread.T_WALK,
        "assumptions": [],
    }
