"""h5_copy_from_to (ih5/overlay.py): the copy underneath IH5Group.copy / move and IH5Record.merge_files — C05, C01, C09.
What is created at the target is exactly the source subtree as collected BEFORE the target exists: every node once, in visit
order, datasets with their value, groups as groups, each with all its attributes (unless without_attrs)."""
from __future__ import annotations

import z3

from pyvc.api import A, FnSpec, LoopSpec
from pyvc.containers import STR, SMap, SSet, SetIter
from pyvc.engine import SClass
from pyvc.values import SBool, SMaybe, SStr, STuple, SVal, Unsupported, fresh_name

S, B, I = z3.StringSort(), z3.BoolSort(), z3.IntSort()
SrcN = z3.DeclareSort("SourceNode")
AttrV = z3.DeclareSort("AttributeValue")
DataV = z3.DeclareSort("DatasetValue")
IS_DS = z3.Function("source_node_is_a_dataset", SrcN, B)
DATA = z3.Function("value_of_source_dataset", SrcN, DataV)  # node[()]
HAS_ATTR = z3.Function("source_node_has_attribute", SrcN, S, B)
ATTR = z3.Function("attribute_of_source_node", SrcN, S, AttrV)
NCH = z3.Int("number_of_collected_children")
CH_NAME = z3.Function("name_of_collected_child", I, S)  # relative to the source root
CH_NODE = z3.Function("collected_child", I, SrcN)
ROOT = z3.Const("source_node", SrcN)
EXISTS = z3.Bool("target_path_exists_in_target_group")
WITHOUT_ATTRS, SHALLOW = z3.Bools("without_attrs shallow")

T_COPY = [
    "H5-like protocol (T1): node[()] is a dataset's value; node.attrs.items() lists each attribute once with its value; group.create_dataset(path, data=v) / group.create_group(path) / group[name] = v create exactly that; isinstance(x, H5DatasetLike) tells datasets from groups",
    "source.visititems(f) calls f(name, node) for every node below the source in its visit order, names relative to the source (IH5Group.visititems under contract in this check; h5py's is trusted); list(source.items()) are the immediate children; here both are 'the collected children' 0 .. n-1",
]


class TAttr:
    def sort(self):
        return AttrV

    def wrap(self, t):
        return AttrVal(t)

    def unwrap(self, cx, v):
        if isinstance(v, AttrVal):
            return v.t
        raise Unsupported("not an attribute value")


class AttrVal(SVal):
    def __init__(self, t, src=None):
        self.t, self.src = t, src


class SrcAttrs(SVal):
    def __init__(self, n):
        self.n = n

    def meth_items(self, cx):
        n = self.n

        class _It(SVal):
            def py_iter_schema(s, cx2):
                k = z3.String(fresh_name("ak"))
                return SetIter(STR, z3.Lambda([k], HAS_ATTR(n, k)), lambda kt: STuple((SStr(kt), AttrVal(ATTR(n, kt), src=n))))

        return _It()


class SrcNode(SVal):
    def __init__(self, t):
        self.t = t

    def py_isinstance(self, cx, c):
        if c == "H5DatasetLike":
            return IS_DS(self.t)
        raise Unsupported("isinstance against " + str(c))

    def py_getitem(self, cx, k):
        if k != ():
            raise Unsupported("another index than [()]")
        cx.effect("read-source-data", self.t)
        return DataVal(DATA(self.t))

    def py_getattr(self, cx, n):
        if n == "attrs":
            return SrcAttrs(self.t)
        raise Unsupported("source node attribute " + n)

    def meth_visititems(self, cx, f):
        """calls f once for a generic collected child: what f appends for it is what the list holds for every child"""
        a = cx.ghost["cp"]
        cx.effect("collect", "visititems")
        a.children.fill_by_callback(cx, f)

    def meth_items(self, cx):
        cx.effect("collect", "items")
        return ItemsTok()


class ItemsTok(SVal):
    pass


class DataVal(SVal):
    def __init__(self, t):
        self.t = t


class ChildList(SVal):
    """src_children: empty, then the collected (name, node) pairs in collection order"""

    pytype = "list"

    def __init__(self):
        self.filled = False
        self.template_ok = None

    def meth_append(self, cx, v):
        a = cx.ghost["cp"]
        i = getattr(a, "generic_i", None)
        ok = i is not None and isinstance(v, (tuple, STuple))
        items = list(v.items) if isinstance(v, STuple) else list(v) if ok else []
        ok = ok and len(items) == 2 and isinstance(items[0], SStr) and isinstance(items[1], SrcNode) and z3.eq(items[0].t, CH_NAME(i)) and z3.eq(items[1].t, CH_NODE(i))
        self.template_ok = bool(ok)

    def fill_by_callback(self, cx, f):
        a = cx.ghost["cp"]
        a.generic_i = z3.Int(fresh_name("gen_i"))
        cx.run.interp.call_closure(cx, f, [SStr(CH_NAME(a.generic_i)), SrcNode(CH_NODE(a.generic_i))], {})
        a.generic_i = None
        cx.oblige("collector-keeps-every-visited-pair", "call-pre", z3.BoolVal(bool(self.template_ok)), clause="the collecting callback appends exactly (name, node) for every visited node")
        self.filled = True

    @property
    def n(self):
        return NCH if self.filled else z3.IntVal(0)

    def at(self, i):
        return STuple((SStr(CH_NAME(i)), SrcNode(CH_NODE(i))))

    def py_iter_schema(self, cx):
        from pyvc.containers import SeqIter

        return SeqIter(self)


class TargetAttrs(SVal):
    """trg_node.attrs: each write is checked against the source it is copied from; the written names are a ghost set"""

    def __init__(self, trg):
        self.trg = trg
        self.written = SSet(STR)
        self.src = None

    def py_setitem(self, cx, k, v):
        src = v.src if isinstance(v, AttrVal) else None
        ok = isinstance(k, SStr) and isinstance(v, AttrVal) and src is not None
        cx.oblige("attribute-written-with-the-source-s-value", "call-pre", z3.BoolVal(False) if not ok else z3.And(HAS_ATTR(src, k.t), v.t == ATTR(src, k.t)), clause="an attribute written to the target is an attribute of the corresponding source node, with its value")
        if ok:
            self.written.py_call_method(cx, "add", [k], {})

    def havoc_inplace(self, cx, hint="w"):
        self.written = SSet.fresh(STR, hint)


class TargetNode(SVal):
    def __init__(self, key):
        self.key = key  # ("root",) | ("child", name-term) | ("dataset",)
        self.attrs_obj = None

    def py_getattr(self, cx, n):
        if n == "attrs":
            a = cx.ghost["cp"]
            self.attrs_obj = TargetAttrs(self)
            a.attr_targets.append(self.attrs_obj)
            return self.attrs_obj
        raise Unsupported("target node attribute " + n)


class TargetRoot(TargetNode):
    def py_setitem(self, cx, name, v):
        cx.effect("target-dataset", name, v)
        d = cx.ghost["cp"].done
        d.t = d.t + 1

    def meth_create_group(self, cx, name):
        cx.effect("target-group", name)
        d = cx.ghost["cp"].done
        d.t = d.t + 1
        return TargetNode(("child", name))

    def py_getitem(self, cx, name):
        return TargetNode(("child", name))


class TargetGroup(SVal):
    def py_contains(self, cx, p):
        return SBool(EXISTS)

    def meth_create_dataset(self, cx, path, **kw):
        cx.effect("create-dataset", path, kw)
        return TargetNode(("dataset",))

    def meth_create_group(self, cx, path):
        cx.effect("create-group", path)
        return TargetRoot(("root",))


def list_binding(cx, x):
    a = cx.ghost["cp"]
    if isinstance(x, ItemsTok):
        a.children.filled = True
        return a.children
    raise Unsupported("list() of something else")


class CopyFromTo(FnSpec):
    file = "ih5/overlay.py"
    qual = "h5_copy_from_to"
    props = ("C05", "C01", "C09")

    def init(self):
        self.bindings["H5DatasetLike"] = SClass("H5DatasetLike")
        self.bindings["list"] = list_binding

        def attrs_inv(cx, env, it):
            t = env["trg_atrs"]
            if not isinstance(t, TargetAttrs):
                return [("writes-to-the-target-attributes", z3.BoolVal(False))]
            k = z3.String(fresh_name("ik"))
            return [("attributes-copied-so-far", z3.ForAll([k], t.written.has(k) == z3.Select(it.processed, k)))]

        self.loops[("iter", "src_node.attrs.items()")] = LoopSpec(attrs_inv, modifies=["k", "v", "trg_atrs"])

        def main_inv(cx, env, it):
            a = cx.ghost["cp"]
            a.main_inv_calls += 1  # 1: at loop entry, 2: assumed after the havoc, 3: after one arbitrary iteration
            out = [("children-done-so-far", a.done.t == it.i)]
            if a.main_inv_calls == 3:
                out += self.iteration_contract(cx, a, it)
            return out

        def on_havoc(cx):
            a = cx.ghost["cp"]
            a.iter_fx0, a.iter_targets0 = len(cx.fx), len(a.attr_targets)
            a.done.havoc_inplace(cx)

        ls = LoopSpec(main_inv, modifies=["name", "src_child"])
        ls.on_havoc = on_havoc
        self.loops[("iter", "src_children")] = ls

    def iteration_contract(self, cx, a, it):
        """what one arbitrary iteration (child number i = it.i - 1) has done: created exactly that child, copied all its attributes"""
        i = it.i - 1
        fx = [e[:-1] for e in cx.fx[a.iter_fx0 :]]
        name, node = CH_NAME(i), CH_NODE(i)
        made = [e for e in fx if e[0] in ("target-dataset", "target-group")]
        reads = [e for e in fx if e[0] == "read-source-data"]
        ok = len(made) == 1 and isinstance(made[0][1], SStr)
        if not ok:
            return [("one-node-created-per-child", z3.BoolVal(False))]
        is_ds = made[0][0] == "target-dataset"
        data_ok = (isinstance(made[0][2], DataVal) and len(reads) == 1) if is_ds else not reads
        out = [
            ("child-created-under-its-own-name-as-what-it-is", z3.And(made[0][1].t == name, IS_DS(node) == z3.BoolVal(is_ds), z3.BoolVal(bool(data_ok)), (made[0][2].t == DATA(node)) if is_ds and data_ok else z3.BoolVal(True))),
        ]
        tg = a.attr_targets[a.iter_targets0 :]
        k = z3.String(fresh_name("ck"))
        if len(tg) == 1 and tg[0].trg.key[0] == "child" and isinstance(tg[0].trg.key[1], SStr):
            out.append(("all-its-attributes-copied-to-the-new-child", z3.And(z3.Not(WITHOUT_ATTRS), tg[0].trg.key[1].t == name, z3.ForAll([k], tg[0].written.has(k) == HAS_ATTR(node, k)))))
        else:
            out.append(("no-attributes-only-if-not-wanted", z3.And(WITHOUT_ATTRS, z3.BoolVal(not tg))))
        return out

    def empty_container(self, cx, name, ann):
        if name == "src_children":
            return cx.ghost["cp"].children
        return None

    def setup(self, cx):
        from pyvc.containers import SObj

        kw = {}
        variant = cx.choose(4)
        if variant >= 1:
            kw["without_attrs"], kw["shallow"] = SBool(WITHOUT_ATTRS), SBool(SHALLOW)
        if variant == 2:
            kw["expand_refs"] = SBool(z3.Bool("expand_refs"))
        if variant == 3:
            kw["bogus"] = True
        a = A(source_node=SrcNode(ROOT), target_group=TargetGroup(), target_path=SStr(z3.String("target_path")), __kwargs__=kw)
        a.variant = variant
        a.children = ChildList()
        a.attr_targets, a.attr_src = [], None
        a.iter_fx0, a.iter_targets0, a.main_inv_calls, a.generic_i = None, 0, 0, None

        class Done(SVal):
            def __init__(s):
                s.t = z3.IntVal(0)

            def havoc_inplace(s, cx2, hint="d"):
                s.t = z3.Int(fresh_name("done"))

        a.done = Done()
        if variant == 0:
            cx.assume(z3.And(z3.Not(WITHOUT_ATTRS), z3.Not(SHALLOW)))
        cx.assume(NCH >= 0)
        cx.ghost["cp"] = a
        return a

    def raises(self, cx, a):
        tp = a.target_path.t
        bad_kw = z3.BoolVal(a.variant == 3)
        keep_refs = z3.Not(z3.Bool("expand_refs")) if a.variant == 2 else z3.BoolVal(False)
        return {"ValueError": z3.Or(bad_kw, keep_refs, z3.Length(tp) == 0, z3.PrefixOf(z3.StringVal("/"), tp), EXISTS)}

    def on_raise(self, cx, a, exc):
        return [("refused-before-anything-is-created", z3.BoolVal(not cx.fx), "unsupported options, a non-relative or an existing target path are refused before the target is touched")]

    def ensures(self, cx, a, res):
        fx = [e[:-1] for e in cx.fx]
        kinds = [e[0] for e in fx]
        k = z3.String(fresh_name("ek"))
        root_t = [t for t in a.attr_targets if t.trg.key[0] in ("root", "dataset")]
        attrs_goal = z3.If(WITHOUT_ATTRS, z3.BoolVal(not root_t), z3.BoolVal(len(root_t) == 1) if len(root_t) != 1 else z3.ForAll([k], root_t[0].written.has(k) == HAS_ATTR(ROOT, k)))
        if "create-dataset" in kinds:
            e = fx[kinds.index("create-dataset")]
            ok = kinds == ["read-source-data", "create-dataset"] and e[1] is a.target_path and set(e[2]) == {"data"} and isinstance(e[2]["data"], DataVal)
            return [
                ("a-dataset-is-copied-as-a-dataset-with-its-value", z3.BoolVal(False) if not ok else z3.And(IS_DS(ROOT), e[2]["data"].t == DATA(ROOT)), "a source dataset becomes a dataset at the target path holding the source's value"),
                ("with-all-its-attributes", attrs_goal, "and all its attributes, unless without_attrs"),
            ]
        ok = kinds[:2] == ["collect", "create-group"] and fx[1][1] is a.target_path and a.children.filled
        how = fx[0][1] if ok else None
        return [
            ("source-collected-before-the-target-is-created", z3.BoolVal(bool(ok)), "the nodes to copy are collected BEFORE the target group is created, so a target inside the source subtree is not copied into itself"),
            ("shallow-takes-the-immediate-children-only", z3.BoolVal(False) if not ok else z3.And(z3.Not(IS_DS(ROOT)), SHALLOW == z3.BoolVal(how == "items")), "shallow copies list the immediate children, others visit the whole subtree"),
            ("root-attributes", attrs_goal, "the target root gets all attributes of the source root, unless without_attrs"),
            ("every-collected-child-created-in-order", a.done.t == NCH, "each collected node is created exactly once, in collection order (parents before what is below them), datasets with their value, groups as groups, each with its attributes — the per-child statement is the loop's iteration contract"),
        ]


def add_h5copy(reg):
    return [CopyFromTo()]
