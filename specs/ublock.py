"""IH5UserBlock.create / save — the bodies behind the contracts the record life cycle uses (C02, C04, C11)."""
from __future__ import annotations

import z3

from pyvc.api import A, FnSpec
from pyvc.containers import SObj
from pyvc.engine import BytesLit
from pyvc.values import SBool, SInt, SStr, SVal, Unsupported, term

S, B, I = z3.StringSort(), z3.BoolSort(), z3.IntSort()

T_UB = [
    "T6 uuid1() returns a value distinct from every uuid that exists at that moment (and from later ones)",
    "T5 pydantic: cls(**fields) builds the model with exactly these field values (others at their defaults: hdf5_hashsum None); self.json() is the model's JSON text",
    "T2 a file opened 'r+b' is read and written in place at the stream position; read(4) of an HDF5 file WITHOUT a reserved user block starts with b'\\x89HDF'",
]


class Uuid(SVal):
    n = 0

    def __init__(self):
        Uuid.n += 1
        self.k = Uuid.n


class Prev(SVal):
    """the predecessor block: its fields are opaque tokens"""

    def __init__(self):
        self.rec, self.patch = Uuid(), Uuid()
        self.idx = z3.Int("prev_patch_index")

    def py_is_none(self, cx):
        return False

    def py_getattr(self, cx, n):
        if n == "record_uuid":
            return self.rec
        if n == "patch_uuid":
            return self.patch
        if n == "patch_index":
            return SInt(self.idx)
        raise Unsupported("user block attribute " + n)


class UbCls(SVal):
    def py_call(self, cx, *a, **kw):
        if a:
            raise Unsupported("positional arguments to the user block constructor")
        r = Made()
        r.kw = kw
        return r


class Made(SVal):
    kw = None


class UbCreateBody(FnSpec):
    file = "ih5/record.py"
    qual = "IH5UserBlock.create"
    props = ("C02", "C04", "C11")

    def init(self):
        self.bindings["uuid1"] = lambda cx: (cx.effect("uuid1"), Uuid())[1]

    def setup(self, cx):
        has_prev = cx.choose(2) == 1
        a = A(cls=UbCls(), prev=Prev() if has_prev else None)
        a.has_prev = has_prev
        return a

    def raises(self, cx, a):
        return {}

    def ensures(self, cx, a, res):
        kw = getattr(res, "kw", None)
        if not isinstance(res, Made) or kw is None:
            return [("a-user-block", z3.BoolVal(False), "")]
        keys_ok = set(kw) == {"patch_uuid", "record_uuid", "patch_index", "prev_patch", "ub_exts"}
        if not keys_ok:
            return [("fields", z3.BoolVal(False), f"unexpected fields {sorted(kw)}")]
        pu, ru, pi, pp, ex = kw["patch_uuid"], kw["record_uuid"], kw["patch_index"], kw["prev_patch"], kw["ub_exts"]
        fresh_pu = isinstance(pu, Uuid) and (not a.has_prev or (pu is not a.prev.patch and pu is not a.prev.rec))
        out = [
            ("new-patch-uuid", z3.BoolVal(bool(fresh_pu and pu is not ru)), "every block gets a patch uuid of its own (fresh, not the record's, not the predecessor's)"),
            ("uncommitted-and-without-extensions", z3.BoolVal(isinstance(ex, dict) and not ex), "a new block carries no extensions and (by the field default) no payload hash: it is an uncommitted container's block"),
        ]
        if not a.has_prev:
            out.append(("base-block", z3.And(z3.BoolVal(isinstance(ru, Uuid) and ru is not pu and pp is None), term(pi) == 0), "without a predecessor: a BASE block — fresh record uuid, index 0, no prev_patch"))
        else:
            out.append(("continues-the-chain-of-its-predecessor", z3.And(z3.BoolVal(ru is a.prev.rec and pp is a.prev.patch), term(pi) == a.prev.idx + 1), "with a predecessor: same record uuid, index one higher, prev_patch = the predecessor's patch uuid (what _check_ublock demands of a patch)"))
        return out


# ---- save -------------------------------------------------------------------------------------------------------------------------------
HEAD4 = z3.Const("first_four_bytes_of_the_file", S)
JSON = z3.Const("json_text_of_the_block", S)
UBSIZE = z3.Int("userblock_size_field")


class RW(SVal):
    """a file opened 'r+b': position tracked, effects logged"""

    def __init__(self, path_t):
        self.path_t = path_t
        self.pos = z3.IntVal(0)

    def meth___enter__(self, cx):
        return self

    def meth___exit__(self, cx, *a):
        cx.effect("rw-close", self.path_t)
        return False

    def meth_read(self, cx, n):
        from .common_io import BytesVal

        if n != 4 or not z3.is_true(z3.simplify(self.pos == 0)):
            raise Unsupported("another read than the first four bytes")
        self.pos = z3.IntVal(4)
        cx.effect("rw-read", self.path_t, 4)

        class Head(BytesVal):
            def py_eq(s2, cx2, o):
                if isinstance(o, BytesLit):
                    return s2.t == z3.StringVal(o.b.decode("latin-1"))
                return BytesVal.py_eq(s2, cx2, o)

        return Head(HEAD4)

    def meth_seek(self, cx, k):
        self.pos = term(k)
        cx.effect("rw-seek", self.path_t, self.pos)

    def meth_write(self, cx, data):
        from .common_io import BytesVal

        t = data.t if isinstance(data, (SStr, BytesVal)) else (z3.StringVal(data.b.decode("latin-1")) if isinstance(data, BytesLit) else None)
        if t is None:
            raise Unsupported("write of something else than bytes")
        cx.effect("rw-write", self.path_t, self.pos, t)
        self.pos = self.pos + z3.Length(t)


def open_rw(cx, path, mode="r"):
    from .common_io import path_term

    if mode != "r+b":
        cx.effect("open-other", mode)
        raise Unsupported(f"open(..., {mode!r}) in save")
    p = path_term(path)
    cx.effect("rw-open", p)
    return RW(p)


class UbSaveBody(FnSpec):
    file = "ih5/record.py"
    qual = "IH5UserBlock.save"
    props = ("C02", "C04", "C11")

    def init(self):
        from .common_io import PathVal, path_term

        self.bindings["open"] = open_rw
        self.bindings["Path"] = lambda cx, p: p if isinstance(p, PathVal) else PathVal(path_term(p))

    def setup(self, cx):
        from .common_io import PathVal

        me = SObj("IH5UserBlockObj", name="self")
        me.fields["_userblock_size"] = SInt(UBSIZE)
        me.fields["json"] = lambda cx2: SStr(JSON)
        cx.assume(UBSIZE >= 0)
        a = A(self=me, filename=PathVal(z3.String("container_file")))
        return a

    def data(self):
        return z3.Concat(z3.StringVal("ih5_v01"), z3.StringVal("\n"), z3.IntToStr(UBSIZE), z3.StringVal("\n"), JSON)

    def raises(self, cx, a):
        return {"AssertionError": z3.Not(z3.Length(self.data()) < 1024), "ValueError": z3.And(z3.Length(self.data()) < 1024, HEAD4 == z3.StringVal("\x89HDF"))}

    def on_raise(self, cx, a, exc):
        writes = [e for e in cx.fx if e[0] in ("rw-write", "open-other")]
        return [("refused-without-writing", z3.BoolVal(not writes), "a block that does not fit, or a file without a reserved user block, is refused before a single byte is written")]

    def ensures(self, cx, a, res):
        from .common_io import path_term

        p = path_term(a.filename)
        fx = [e for e in cx.fx if e[0].startswith("rw-")]
        kinds = [e[0] for e in fx]
        ok_order = kinds == ["rw-open", "rw-read", "rw-seek", "rw-write", "rw-write", "rw-close"]
        if not ok_order:
            return [("effect-order", z3.BoolVal(False), f"open r+b, look at the first four bytes, rewind, write text, write the terminator, close; got {kinds}")]
        d = self.data()
        return [
            ("effect-order", z3.BoolVal(True), "open r+b, look at the first four bytes, rewind, write text, write the terminator, close"),
            ("only-that-file", z3.And(*[e[1] == p for e in fx]), "only the named container file is opened and written"),
            ("block-text-at-offset-zero-then-one-NUL", z3.And(fx[2][2] == 0, fx[3][2] == 0, fx[3][3] == d, fx[4][2] == z3.Length(d), fx[4][3] == z3.StringVal("\x00")), "the bytes written are magic, size and JSON text from offset 0, followed by exactly one NUL: together fewer than the 1024 reserved bytes, so nothing of the HDF5 payload is touched"),
            ("fits-the-reserved-area", z3.Length(d) + 1 <= 1024, "text plus terminator stay inside the user block"),
        ]


def add_ublock(reg):
    reg.set_class_home("IH5UserBlockObj", "ih5/record.py", "IH5UserBlock")
    specs = [UbCreateBody(), UbSaveBody(), UbLoadBody()]
    return specs


# ---- load ----------------------------------------------------------------------------------------------------------------------------------
HEAD_OK = z3.Function("read_head_raw_finds_a_block", I, B)  # _read_head_raw(stream, n) is not None — its own contract (ReadHeadRaw): a function of the first n bytes
HEAD_SIZE = z3.Function("block_size_claimed_in_the_first_n_bytes", I, I)
HEAD_TEXT = z3.Function("block_text_in_the_first_n_bytes", I, S)


class RStream(SVal):
    def __init__(self, p):
        self.p = p

    def meth___enter__(self, cx):
        return self

    def meth___exit__(self, cx, *a):
        return False


class LoadCls(SVal):
    def meth__read_head_raw(self, cx, stream, n):
        from pyvc.values import SMaybe, STuple

        nt = term(n)
        cx.effect("read-head", stream, nt)
        return SMaybe(z3.Not(HEAD_OK(nt)), STuple((SInt(HEAD_SIZE(nt)), SStr(HEAD_TEXT(nt)))))


class ParsedUb(SVal):
    def __init__(self, src):
        self.src = src
        self.attrs = {}

    def py_setattr(self, cx, n, v):
        self.attrs[n] = v


class UbLoadBody(FnSpec):
    file = "ih5/record.py"
    qual = "IH5UserBlock.load"
    props = ("C03", "C04")

    def init(self):
        from .common_io import path_term

        self.bindings["open"] = lambda cx, p, mode="r": (cx.effect("open", path_term(p), mode), RStream(path_term(p)))[1]
        self.bindings["json"] = type("J", (SVal,), {"meth_loads": lambda s, cx, t: ("json", t)})()
        self.bindings["IH5UserBlock"] = type("U", (SVal,), {"meth_parse_obj": lambda s, cx, j: ParsedUb(j)})()

    def setup(self, cx):
        from .common_io import PathVal

        return A(cls=LoadCls(), filename=PathVal(z3.String("container_file")))

    def raises(self, cx, a):
        big = HEAD_SIZE(512) > 512
        return {"ValueError": z3.Not(HEAD_OK(512)), "AssertionError": z3.And(HEAD_OK(512), big, z3.Not(HEAD_OK(HEAD_SIZE(512))))}

    def ensures(self, cx, a, res):
        from .common_io import path_term

        opens = [e for e in cx.fx if e[0] == "open"]
        big = HEAD_SIZE(512) > 512
        n = z3.If(big, HEAD_SIZE(512), z3.IntVal(512))
        if not isinstance(res, ParsedUb) or not (isinstance(res.src, tuple) and res.src[0] == "json"):
            return [("parsed-block", z3.BoolVal(False), "")]
        txt = res.src[1]
        size = res.attrs.get("_userblock_size")
        return [
            ("reads-only-that-file", z3.BoolVal(len(opens) == 1 and opens[0][2] == "rb") if not opens else z3.And(z3.BoolVal(len(opens) == 1 and opens[0][2] == "rb"), opens[0][1] == path_term(a.filename)), "the block is read from the named file, opened read-only"),
            ("the-block-text-of-the-size-the-file-claims", z3.And(txt.t == HEAD_TEXT(n), z3.BoolVal(isinstance(size, SInt)) if not isinstance(size, SInt) else size.t == HEAD_SIZE(n)), "the block is parsed from the text found within the first 512 bytes, or — if the block itself claims a larger reserved size — from a second read of exactly that size; the claimed size is kept with the block"),
        ]
