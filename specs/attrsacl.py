"""C15 / C08 — the remaining ways to reach the raw object from a wrapper: the attribute manager of a restricted node
(WrappedAttributeManager), MetadorNode.attrs, attribute fall-through of MetadorDataset / MetadorGroup / MetadorContainer,
item access on a dataset wrapper, MetadorGroup.__setitem__."""
from __future__ import annotations

import z3

from pyvc.api import A, FnSpec
from pyvc.containers import SObj
from pyvc.values import SBool, SStr, SVal, Unsupported

from .wrappers import FLAGS, MEMBERS, NodeAclEnum, RawObj, RawResult, flag, iter_builtin, node_obj

S, B = z3.StringSort(), z3.BoolSort()
RAW_HAS = z3.Function("raw_object_has_attribute", S, B)  # hasattr(raw, key)
WRAPPER_HAS = z3.Function("wrapper_class_has_attribute", S, B)  # hasattr(type(self), key)

T_ATTRS = [
    "T7 wrapt.ObjectProxy.__init__(obj) sets __wrapped__ = obj; __getattr__ is consulted only for names the wrapper class itself does not define",
    "hasattr / getattr on the raw object are the raw object's own (uninterpreted: raw_object_has_attribute); each getattr on it is logged as a raw read",
]

READ_ONLY_OK = {"keys", "values", "items", "get"}
SKEL_ONLY_OK = {"keys"}


class RawAttrs(RawObj):
    """the raw attribute manager / raw node: calls are RAW effects (RawObj); attribute reads through the getattr builtin are logged by the binding"""


def _hasattr(cx, o, key):
    if isinstance(o, TypeTok):
        return SBool(WRAPPER_HAS(key.t if isinstance(key, SStr) else z3.StringVal(key)))
    if isinstance(o, RawObj):
        return SBool(RAW_HAS(key.t if isinstance(key, SStr) else z3.StringVal(key)))
    raise Unsupported("hasattr on something else than the raw object or the wrapper class")


def _getattr(cx, o, key, *d):
    if isinstance(o, RawObj) and not d:
        cx.effect("raw-getattr", o, key)
        return RawAttr(o, key)
    raise Unsupported("getattr on something else than the raw object")


class RawAttr(SVal):
    def __init__(self, obj, key):
        self.obj, self.key = obj, key


class TypeTok(SVal):
    def __init__(self, of, name):
        self.of, self.name = of, name

    def py_getattr(self, cx, n):
        if n == "__name__":
            return self.name
        raise Unsupported("type(self)." + n)


def _type(cx, o):
    if isinstance(o, SObj):
        return TypeTok(o, o.cls)
    if o == "the-value":
        return TypeTok(None, "type-of-the-value")
    raise Unsupported("type() of something else than the wrapper")


def wam_obj(cx, name="self"):
    o = SObj("WrappedAttributeManager", name=name)
    o.fields["_self_acl"] = {MEMBERS[f]: SBool(z3.Bool(f"{name}_{f}")) for f in FLAGS}
    o.fields["__wrapped__"] = RawAttrs(name + "_raw_attrs")
    return o


def aflag(o, f):
    v = o.fields["_self_acl"][MEMBERS[f]]
    return v.t if isinstance(v, SBool) else z3.BoolVal(bool(v))


def only_raw_call(cx, meth, args, res):
    raw = [e for e in cx.fx if e[0] in ("RAW", "raw-getattr")]
    return len(raw) == 1 and raw[0][0] == "RAW" and raw[0][1] == meth and len(raw[0][2]) == len(args) and all(x is y for x, y in zip(raw[0][2], args)) and isinstance(res, RawResult) and res.meth == meth


def no_raw(cx):
    return z3.BoolVal(not [e for e in cx.fx if e[0] in ("RAW", "raw-getattr")])


# ---- WrappedAttributeManager ---------------------------------------------------------------------------------------------------------------------------
class WamItem(FnSpec):
    """__getitem__ / __setitem__ / __delitem__ of the attribute manager of a restricted node"""

    file = "container/wrappers.py"
    props = ("C15",)
    GUARD = {"__getitem__": "skel_only", "__setitem__": "read_only", "__delitem__": "read_only"}

    def __init__(self, meth):
        self.meth = meth
        self.qual = "WrappedAttributeManager." + meth
        super().__init__()

    def init(self):
        self.bindings["NodeAcl"] = NodeAclEnum()
        self.inline.add("WrappedAttributeManager._raise_illegal_op")

    def setup(self, cx):
        a = A(self=wam_obj(cx), key=SStr.fresh("attribute_name"))
        if self.meth == "__setitem__":
            a["value"] = "the-value"
        return a

    def raises(self, cx, a):
        return {"UnsupportedOperationError": aflag(a.self, self.GUARD[self.meth])}

    def on_raise(self, cx, a, exc):
        return [("refused-before-the-raw-attributes-are-touched", no_raw(cx), "a refused attribute access does nothing to the raw attributes")]

    def ensures(self, cx, a, res):
        args = [a.key] + ([a["value"]] if self.meth == "__setitem__" else [])
        return [("exactly-the-raw-operation", z3.BoolVal(bool(only_raw_call(cx, self.meth, args, res))), "an allowed access is exactly that access on the raw attributes, with the same arguments, and its result is handed back")]


ALLOWED_CASES = [set(), set(SKEL_ONLY_OK), set(READ_ONLY_OK)]


class WamGetattr(FnSpec):
    file = "container/wrappers.py"
    qual = "WrappedAttributeManager.__getattr__"
    props = ("C15",)

    def init(self):
        self.bindings["hasattr"] = _hasattr
        self.bindings["getattr"] = _getattr
        self.inline.add("WrappedAttributeManager._raise_illegal_op")

    def setup(self, cx):
        me = wam_obj(cx)
        allowed = ALLOWED_CASES[cx.choose(3)]
        me.fields["_self_allowed"] = set(allowed)
        a = A(self=me, key=SStr.fresh("attribute_name"))
        a.allowed = allowed
        return a

    def refused(self, a):
        k = a.key.t
        return z3.And(RAW_HAS(k), z3.BoolVal(bool(a.allowed)), z3.And(*[k != z3.StringVal(x) for x in sorted(a.allowed)]))

    def raises(self, cx, a):
        return {"UnsupportedOperationError": self.refused(a)}

    def on_raise(self, cx, a, exc):
        return [("refused-before-the-raw-attributes-are-touched", no_raw(cx), "a method outside the whitelist is not even looked up on the raw attributes")]

    def ensures(self, cx, a, res):
        raw = [e for e in cx.fx if e[0] in ("RAW", "raw-getattr")]
        ok = len(raw) == 1 and raw[0][0] == "raw-getattr" and raw[0][2] is a.key and isinstance(res, RawAttr) and res.key is a.key and res.obj is a.self.fields["__wrapped__"]
        return [("the-raw-attribute-of-that-name", z3.BoolVal(bool(ok)), "with a whitelist in force only whitelisted methods of the raw attributes are handed out (names the raw object does not have fall through to its AttributeError)")]


class WamInit(FnSpec):
    file = "container/wrappers.py"
    qual = "WrappedAttributeManager.__init__"
    props = ("C15",)

    def init(self):
        self.bindings["NodeAcl"] = NodeAclEnum()

    def setup(self, cx):
        me = SObj("WrappedAttributeManager", name="self")
        acl = {MEMBERS[f]: SBool(z3.Bool(f"acl_{f}")) for f in FLAGS}
        a = A(self=me, obj=RawAttrs("raw_attrs"), acl=acl)
        return a

    def raises(self, cx, a):
        return {}

    def ensures(self, cx, a, res):
        me = a.self
        al = me.fields.get("_self_allowed")
        ro, sk = a.acl[MEMBERS["read_only"]].t, a.acl[MEMBERS["skel_only"]].t
        is_set = isinstance(al, (set, frozenset)) and all(isinstance(x, str) for x in al)
        al = set(al) if is_set else None
        return [
            ("wraps-the-given-attributes-and-keeps-the-flags", z3.BoolVal(me.fields.get("__wrapped__") is a.obj and me.fields.get("_self_acl") is a.acl), "the manager wraps exactly the raw attributes it was given, under exactly the flags it was given"),
            ("skel-only-allows-keys-only", z3.Implies(sk, z3.BoolVal(al == SKEL_ONLY_OK)), "skel_only (alone or together with read_only): only keys() may be called on the raw attributes"),
            ("read-only-allows-the-reading-methods-only", z3.Implies(z3.And(ro, z3.Not(sk)), z3.BoolVal(al == READ_ONLY_OK)), "read_only: only keys / values / items / get — no update, pop, clear, setdefault, modify or create"),
            ("a-restricted-node-always-has-a-whitelist", z3.Implies(z3.Or(ro, sk), z3.BoolVal(bool(al))), "the whitelist of a restricted node is never empty (an empty one would switch the method filter off)"),
            ("unrestricted-has-none", z3.Implies(z3.Not(z3.Or(ro, sk)), z3.BoolVal(is_set and not al)), "without read_only / skel_only nothing is filtered"),
        ]


# ---- MetadorNode.attrs ------------------------------------------------------------------------------------------------------------------------------------
class RawWithAttrs(RawObj):
    def __init__(self, name):
        super().__init__(name)
        self.attrs_obj = RawAttrs(name + "_attrs")

    def py_getattr(self, cx, n):
        if n == "attrs":
            return self.attrs_obj
        return super().py_getattr(cx, n)


class WamTok(SVal):
    def __init__(self, obj, acl):
        self.obj, self.acl = obj, acl


class AttrsProp(FnSpec):
    file = "container/wrappers.py"
    qual = "MetadorNode.attrs"
    props = ("C15",)

    def init(self):
        self.bindings["NodeAcl"] = NodeAclEnum()
        self.bindings["WrappedAttributeManager"] = lambda cx, obj, acl: WamTok(obj, acl)

    def setup(self, cx):
        o = node_obj(cx)
        o.fields["__wrapped__"] = RawWithAttrs("self_raw")
        return A(self=o)

    def raises(self, cx, a):
        return {}

    def ensures(self, cx, a, res):
        raw_attrs = a.self.fields["__wrapped__"].attrs_obj
        restricted = z3.Or(flag(a.self, "read_only"), flag(a.self, "skel_only"))
        if isinstance(res, WamTok):
            acl_ok = isinstance(res.acl, dict) and all(MEMBERS[f] in res.acl for f in FLAGS)
            same = z3.And(*[(res.acl[MEMBERS[f]].t if isinstance(res.acl[MEMBERS[f]], SBool) else z3.BoolVal(bool(res.acl[MEMBERS[f]]))) == flag(a.self, f) for f in FLAGS]) if acl_ok else z3.BoolVal(False)
            return [("restricted-node-hands-out-the-filtering-manager", z3.And(restricted, z3.BoolVal(res.obj is raw_attrs), same), "the attributes of a read_only or skel_only node are only reachable through the filtering manager, which carries the node's own flags")]
        return [("only-an-unrestricted-node-hands-out-the-raw-attributes", z3.And(z3.Not(restricted), z3.BoolVal(res is raw_attrs)), "the raw attribute manager is handed out only when neither read_only nor skel_only is set")]


# ---- attribute fall-through ------------------------------------------------------------------------------------------------------------------------------
RO_FORBIDDEN = {"resize", "make_scale", "write_direct", "flush"}


class DatasetGetattr(FnSpec):
    file = "container/wrappers.py"
    qual = "MetadorDataset.__getattr__"
    props = ("C15",)

    def init(self):
        self.bindings["NodeAcl"] = NodeAclEnum()
        self.bindings["hasattr"] = _hasattr
        self.bindings["getattr"] = _getattr
        self.bindings["type"] = _type

    def setup(self, cx):
        return A(self=node_obj(cx, cls="MetadorDataset"), key=SStr.fresh("attribute_name"))

    def raises(self, cx, a):
        k = a.key.t
        return {"UnsupportedOperationError": z3.Or(WRAPPER_HAS(k), z3.And(flag(a.self, "read_only"), z3.Or(*[k == z3.StringVal(x) for x in sorted(RO_FORBIDDEN)])), z3.And(flag(a.self, "skel_only"), k == z3.StringVal("get")))}

    def on_raise(self, cx, a, exc):
        return [("refused-before-the-raw-dataset-is-touched", no_raw(cx), "")]

    def ensures(self, cx, a, res):
        raw = [e for e in cx.fx if e[0] in ("RAW", "raw-getattr")]
        ok = len(raw) == 1 and raw[0][0] == "raw-getattr" and raw[0][2] is a.key and isinstance(res, RawAttr) and res.obj is a.self.fields["__wrapped__"]
        return [("the-raw-attribute-of-that-name", z3.BoolVal(bool(ok)), "what falls through to the raw dataset is never: a name the wrapper class itself defines (its refusal must not be bypassed), a mutating method of a read_only dataset, get of a skel_only dataset")]


class DatasetItem(FnSpec):
    file = "container/wrappers.py"
    props = ("C15",)
    GUARD = {"__getitem__": "skel_only", "__setitem__": "read_only"}

    def __init__(self, meth):
        self.meth = meth
        self.qual = "MetadorDataset." + meth
        super().__init__()

    def init(self):
        self.bindings["NodeAcl"] = NodeAclEnum()

    def setup(self, cx):
        args = ["the-index"] + (["the-value"] if self.meth == "__setitem__" else [])
        a = A(self=node_obj(cx, cls="MetadorDataset"), __varargs__=args)
        a.args_ = args
        return a

    def raises(self, cx, a):
        return {"UnsupportedOperationError": flag(a.self, self.GUARD[self.meth])}

    def on_raise(self, cx, a, exc):
        return [("refused-before-the-raw-dataset-is-touched", no_raw(cx), "")]

    def ensures(self, cx, a, res):
        return [("exactly-the-raw-operation", z3.BoolVal(bool(only_raw_call(cx, self.meth, a.args_, res))), "an allowed access is that access on the raw dataset with the same arguments")]


class GroupGetattr(FnSpec):
    file = "container/wrappers.py"
    qual = "MetadorGroup.__getattr__"
    props = ("C15", "C08")

    def init(self):
        self.bindings["hasattr"] = _hasattr
        self.bindings["type"] = _type

    def setup(self, cx):
        return A(self=node_obj(cx), key=SStr.fresh("attribute_name"))

    def raises(self, cx, a):
        return {"UnsupportedOperationError": RAW_HAS(a.key.t), "AttributeError": z3.Not(RAW_HAS(a.key.t))}

    def on_raise(self, cx, a, exc):
        return [("nothing-of-the-raw-group-is-handed-out", no_raw(cx), "a group wrapper never falls through to the raw group: whatever the wrapper does not define itself is refused")]

    def ensures(self, cx, a, res):
        return [("never-returns", z3.BoolVal(False), "MetadorGroup.__getattr__ always raises")]


class ContainerGetattr(FnSpec):
    file = "container/wrappers.py"
    qual = "MetadorContainer.__getattr__"
    props = ("C15", "C08")
    SUPPORTED = {"mode", "flush", "close"}

    def init(self):
        self.bindings["hasattr"] = _hasattr
        self.bindings["getattr"] = _getattr
        self.bindings["type"] = _type

    def setup(self, cx):
        return A(self=node_obj(cx, cls="MetadorContainer"), key=SStr.fresh("attribute_name"))

    def sup(self, a):
        return z3.Or(*[a.key.t == z3.StringVal(x) for x in sorted(self.SUPPORTED)])

    def raises(self, cx, a):
        return {"UnsupportedOperationError": z3.And(z3.Not(self.sup(a)), RAW_HAS(a.key.t)), "AttributeError": z3.And(z3.Not(self.sup(a)), z3.Not(RAW_HAS(a.key.t)))}

    def on_raise(self, cx, a, exc):
        return [("nothing-of-the-raw-file-is-handed-out", no_raw(cx), "")]

    def ensures(self, cx, a, res):
        raw = [e for e in cx.fx if e[0] in ("RAW", "raw-getattr")]
        ok = len(raw) == 1 and raw[0][0] == "raw-getattr" and raw[0][2] is a.key and isinstance(res, RawAttr)
        return [("only-mode-flush-close-of-the-raw-file", z3.And(self.sup(a), z3.BoolVal(bool(ok))), "of the raw file object only mode, flush and close are reachable through the container wrapper")]


# ---- MetadorGroup.__setitem__ ----------------------------------------------------------------------------------------------------------------------------
IS_REF = z3.Bool("value_is_an_hdf5_reference")


class RefTypes(SVal):
    """_H5_REF_TYPES: the (two) h5py reference classes"""

    def __init__(self):
        self.items = ["h5py.Reference", "h5py.RegionReference"]


class SetItem(FnSpec):
    file = "container/wrappers.py"
    qual = "MetadorGroup.__setitem__"
    props = ("C08", "C15")

    def init(self):
        def _isinstance(cx, v, c):
            if v == "the-value" and c in ("h5py.Reference", "h5py.RegionReference"):
                return SBool(z3.And(IS_REF, z3.Bool("is_" + c.replace(".", "_"))))
            raise Unsupported("isinstance of something else")

        self.bindings["isinstance"] = _isinstance
        self.bindings["_H5_REF_TYPES"] = ["h5py.Reference", "h5py.RegionReference"]

        def _wrap_method(cx, method, is_read_only_method=False):
            def wrapped(cx2, *args):
                cx2.effect("guarded-method", method, is_read_only_method, args)
                return "wrapped-result"

            return wrapped

        self.bindings["_wrap_method"] = _wrap_method
        self.bindings["type"] = _type

    def setup(self, cx):
        cx.assume(IS_REF == z3.Or(z3.Bool("is_h5py_Reference"), z3.Bool("is_h5py_RegionReference")))
        return A(self=node_obj(cx), name=SStr.fresh("name"), value="the-value")

    def raises(self, cx, a):
        return {"ValueError": IS_REF}

    def on_raise(self, cx, a, exc):
        return [("refused-before-anything-is-written", z3.BoolVal(not cx.fx), "HDF5 object / region references are refused before the raw group is touched")]

    def ensures(self, cx, a, res):
        g = [e for e in cx.fx if e[0] == "guarded-method"]
        ok = len(cx.fx) == 1 and len(g) == 1 and g[0][1] == "__setitem__" and g[0][2] is False and len(g[0][3]) == 3 and g[0][3][0] is a.self and g[0][3][1] is a.name and g[0][3][2] == "the-value" and res == "wrapped-result"
        return [("through-the-guarded-setitem", z3.BoolVal(bool(ok)), "group[name] = value goes through the guarded wrapper of __setitem__ as a WRITING method (path guard against reserved names, read_only refusal: WrappedMethod), never to the raw group directly")]


def add_attrsacl(reg):
    reg.set_class_home("WrappedAttributeManager", "container/wrappers.py")

    def proxy_init(cx, obj, raw):  # T7 wrapt.ObjectProxy.__init__
        obj.fields["__wrapped__"] = raw

    reg.method_bindings[("WrappedAttributeManager", "super.__init__")] = proxy_init
    for c in ("MetadorNode", "MetadorGroup", "MetadorDataset", "MetadorContainer"):
        reg.set_class_home(c, "container/wrappers.py")
    specs = [WamItem("__getitem__"), WamItem("__setitem__"), WamItem("__delitem__"), WamGetattr(), WamInit(), AttrsProp(), DatasetGetattr(), DatasetItem("__getitem__"), DatasetItem("__setitem__"), GroupGetattr(), ContainerGetattr(), SetItem()]
    for s in specs:
        reg.add(s)
    return specs


# ---- MetadorNode.__init__ -----------------------------------------------------------------------------------------------------------------------------------
class NodeInit(FnSpec):
    file = "container/wrappers.py"
    qual = "MetadorNode.__init__"
    props = ("C15",)

    def init(self):
        self.bindings["NodeAcl"] = NodeAclEnum()
        self.bindings["iter"] = iter_builtin
        self.inline.add("MetadorNode._parse_access_flags")

    def setup(self, cx):
        me = SObj("MetadorNode", name="self")
        given = [(), FLAGS, ("read_only",), ("local_only", "skel_only")][cx.choose(4)]
        kw = {f: SBool(z3.Bool("given_" + f)) for f in given}
        with_lp, bogus = cx.choose(2) == 1, cx.choose(2) == 1
        if with_lp:
            kw["local_parent"] = "the-local-parent"
        if bogus:
            kw["bogus"] = True
        a = A(self=me, mc="the-container", node=RawObj("raw_node"), __kwargs__=kw)
        a.given, a.with_lp, a.bogus = given, with_lp, bogus
        a.kw0 = dict(kw)
        return a

    def raises(self, cx, a):
        return {"ValueError": z3.BoolVal(a.bogus)}

    def on_raise(self, cx, a, exc):
        return [("no-wrapper-state-for-unknown-keywords", z3.BoolVal("_self_flags" not in a.self.fields and "__wrapped__" not in a.self.fields), "an unknown keyword (e.g. a misspelt restriction) is refused instead of silently giving an unrestricted node")]

    def ensures(self, cx, a, res):
        me = a.self
        fl = me.fields.get("_self_flags")
        ok_shape = isinstance(fl, dict) and set(fl) == {MEMBERS[f] for f in FLAGS}
        out = [("wraps-the-node-in-the-container", z3.BoolVal(me.fields.get("__wrapped__") is a.node and me.fields.get("_self_container") == "the-container"), "")]
        if not ok_shape:
            return out + [("all-three-flags-recorded", z3.BoolVal(False), "")]
        for f in FLAGS:
            v = fl[MEMBERS[f]]
            vt = v.t if isinstance(v, SBool) else z3.BoolVal(v is True)
            want = a.kw0[f].t if f in a.given else z3.BoolVal(False)
            out.append((f"flag-as-given:{f}", vt == want, "each restriction is exactly what was passed for it (unrestricted if not passed)"))
        out.append(("local-parent-as-given", z3.BoolVal(me.fields.get("_self_local_parent", "missing") == ("the-local-parent" if a.with_lp else None)), "the local parent is the one passed (none if not passed)"))
        return out


# ---- MetadorGroup.__contains__ --------------------------------------------------------------------------------------------------------------------------------
class KeysView(SVal):
    """self.keys(): the filtered names (MetadorGroup.items under contract: no reserved name is ever among them)"""

    def py_contains(self, cx, item):
        cx.effect("asked-own-keys", item)
        return SBool(VISIBLE_CHILD(item.t if isinstance(item, SStr) else z3.StringVal(item)))


LSTRIP = z3.Function("without_leading_slashes", S, S)  # name.lstrip("/")
T_CONTAINS = ["T4 str.lstrip('/') of s is the suffix of s left after dropping its leading '/' characters (it does not start with '/')"]
VISIBLE_CHILD = z3.Function("is_a_listed_child_name", S, B)
CHILD_IS_THERE = z3.Function("get_finds_a_child", S, B)


class ChildTok(SVal):
    def __init__(self, name):
        self.name = name

    def py_truth(self, cx):
        return True

    def py_contains(self, cx, item):
        cx.effect("asked-child", self.name, item)
        return SBool(z3.Bool("child_answers"))


class RootTok(SVal):
    def py_contains(self, cx, item):
        cx.effect("asked-root", item)
        return SBool(z3.Bool("root_answers"))


class Contains(FnSpec):
    file = "container/wrappers.py"
    qual = "MetadorGroup.__contains__"
    props = ("C08", "C15")

    def setup(self, cx):
        from pyvc.values import SMaybe

        from .wrappers import GuardPath

        base = node_obj(cx)

        class GroupObj(SObj):
            def py_getitem(s, cx2, k):
                if k == "/":
                    return RootTok()
                raise Unsupported("self[...] of another key")

        me = GroupObj(base.cls, fields=base.fields, name=base.name)
        self._gp = GuardPath()

        def guard(cx2, p):
            cond = self._gp.cond(cx2, A(self=me, path=p))
            cx2.effect("guard", p)
            if cx2.decide(cond):
                cx2.py_raise("ValueError", "reserved or absolute path")

        me.fields["_guard_path"] = guard
        me.fields["name"] = SStr(z3.String("own_path"))
        me.fields["keys"] = lambda cx2: KeysView()
        me.fields["get"] = lambda cx2, n: SMaybe(z3.Not(CHILD_IS_THERE(n.t)), ChildTok(n))
        class Name(SStr):
            """the asked name; str.lstrip('/') is the trusted primitive LSTRIP with its defining properties (T_CONTAINS)"""

            def meth_lstrip(s, cx2, chars=None):
                if chars != "/":
                    raise Unsupported("lstrip of something else than '/'")
                return SStr(LSTRIP(s.t))

        a = A(self=me, name=Name(z3.String("asked_name")))
        n, rel = a.name.t, LSTRIP(a.name.t)
        cx.assume(z3.And(z3.SuffixOf(rel, n), z3.InRe(z3.SubString(n, 0, z3.Length(n) - z3.Length(rel)), z3.Star(z3.Re("/"))), z3.Not(z3.PrefixOf(z3.StringVal("/"), rel))))
        return a

    def requires(self, cx, a):
        return [("non-empty-name", z3.Length(a.name.t) > 0)]

    def raises(self, cx, a):
        return {"ValueError": self._gp.cond(cx, A(self=a.self, path=a.name))}

    def on_raise(self, cx, a, exc):
        return [("refused-before-anything-is-looked-up", z3.BoolVal([e[0] for e in cx.fx] == ["guard"]), "a reserved name (or an absolute one at a local_only node) is refused, not answered")]

    def ensures(self, cx, a, res):
        n = a.name.t
        kinds = [e[0] for e in cx.fx]
        first_guard = bool(kinds) and kinds[0] == "guard" and cx.fx[0][1] is a.name
        absolute = z3.And(z3.PrefixOf(z3.StringVal("/"), n), a.self.fields["name"].t != z3.StringVal("/"))
        asked_root = [e for e in cx.fx if e[0] == "asked-root"]
        asked_keys = [e for e in cx.fx if e[0] == "asked-own-keys"]
        asked_child = [e for e in cx.fx if e[0] == "asked-child"]
        out = [("guard-first", z3.BoolVal(first_guard), "the path guard sees the name before anything else happens")]
        if asked_root:
            ok = len(asked_root) == 1 and asked_root[0][1] is a.name and not asked_keys and not asked_child and isinstance(res, SBool)
            out.append(("absolute-names-are-answered-by-the-root-wrapper", z3.And(absolute, z3.BoolVal(bool(ok)), (res.t if isinstance(res, SBool) else z3.BoolVal(False)) == z3.Bool("root_answers")), "an absolute name below a non-root group is answered by self['/'] — the guarded lookup of the root wrapper, never the raw file"))
            return out
        out.append(("relative-here", z3.Not(absolute), ""))
        if len(asked_keys) != 1 or not isinstance(asked_keys[0][1], SStr):
            return out + [("first-segment-looked-up-among-the-listed-names", z3.BoolVal(False), "")]
        seg0 = asked_keys[0][1].t
        out.append(("first-segment-looked-up-among-the-listed-names", z3.BoolVal(True), "membership of the first segment is decided by the FILTERED key listing (items under contract), so bookkeeping groups are never reported"))
        rt = res.t if isinstance(res, SBool) else z3.BoolVal(bool(res)) if isinstance(res, bool) else None
        if rt is None:
            return out + [("a-truth-value", z3.BoolVal(False), "")]
        # the name without its leading slashes (definition), its first segment and the rest
        rel = LSTRIP(n)
        slash = z3.StringVal("/")
        is_rel = z3.BoolVal(True)
        single = z3.Not(z3.Contains(rel, slash))
        i1 = z3.IndexOf(rel, slash, 0)
        want_seg0 = z3.If(single, rel, z3.SubString(rel, 0, i1))
        want_rest = z3.SubString(rel, i1 + 1, z3.Length(rel) - i1 - 1)
        out.append(("the-first-segment-of-the-name", z3.Implies(is_rel, seg0 == want_seg0), "the segment looked up is the first one of the name (leading slashes dropped)"))
        if asked_child:
            ok = len(asked_child) == 1 and isinstance(asked_child[0][1], SStr) and isinstance(asked_child[0][2], SStr)
            if not ok:
                return out + [("deeper-names-are-passed-to-the-wrapped-child", z3.BoolVal(False), "")]
            out.append(("deeper-names-are-passed-to-the-wrapped-child", z3.Implies(is_rel, z3.And(z3.Not(single), asked_child[0][1].t == want_seg0, CHILD_IS_THERE(want_seg0), asked_child[0][2].t == want_rest, rt == z3.Bool("child_answers"))), "a name with more segments is answered by the child obtained through the guarded get (a wrapper again) for the rest of the name, so every level filters"))
        else:
            out.append(("answer-without-a-child", z3.Implies(is_rel, z3.If(single, rt == VISIBLE_CHILD(want_seg0), z3.And(z3.Not(CHILD_IS_THERE(want_seg0)), z3.Not(rt)))), "a single segment is contained iff it is among the listed names; a longer name whose first segment cannot be obtained is not contained"))
        return out


def add_group_contains(reg):
    s = [NodeInit(), Contains()]

    def proxy_init(cx, obj, raw):  # T7 wrapt.ObjectProxy.__init__
        obj.fields["__wrapped__"] = raw

    reg.method_bindings[("MetadorNode", "super.__init__")] = proxy_init
    for x in s:
        reg.add(x)
    return s
