"""IH5InnerNode read path between the child-resolution kernel (_children, under contract in specs/overlay.py) and the
h5py-like interface: _find, __getitem__, __contains__, get, _expect_real_item_idx, _get_child — C01, C09."""
from __future__ import annotations

import z3

from pyvc.api import A, FnSpec
from pyvc.containers import SObj
from pyvc.values import SBool, SInt, SMaybe, SStr, SVal, Unsupported

S, B, I = z3.StringSort(), z3.BoolSort(), z3.IntSort()
OPEN = z3.Bool("record_is_open")
KEY_OK = z3.Bool("key_passes_the_key_guard")
FOUND = z3.Bool("find_locates_the_key")
CIDX = z3.Int("container_index_found")
DELMARK = z3.Function("child_is_a_deletion_marker", S, I, B)
ABS = z3.Function("abs_path_of_key", S, S)

T_READ = [
    "_guard_open raises KeyError('... not open ...') exactly when the record is closed; _guard_key raises ValueError exactly for keys outside the documented alphabet (its own contract, specs/overlay.py); _children is the kernel contract; _node_seq (the walk over the path segments) has its own contract below",
]


class ChildTok(SVal):
    def __init__(self, key, cidx):
        self.key, self.cidx = key, cidx


def node(cx, **extra):
    n = SObj("IH5InnerNodeRead", name="self")

    def guard_open(cx2):
        cx2.effect("guard_open")
        if not cx2.decide(OPEN):
            cx2.py_raise("KeyError", "Record is not open or accessible!")

    def guard_key(cx2, key):
        cx2.effect("guard_key", key)
        if not cx2.decide(KEY_OK):
            cx2.py_raise("ValueError", "Invalid key")

    def find(cx2, key):
        cx2.effect("find", key)
        return SMaybe(z3.Not(FOUND), SInt(CIDX))

    def get_child(cx2, key, cidx):
        cx2.effect("get_child", key, cidx)
        return ChildTok(key, cidx)

    n.fields.update({"_guard_open": guard_open, "_guard_key": guard_key, "_find": find, "_get_child": get_child})
    n.fields.update(extra)
    return n


def idx_term(cidx):
    if isinstance(cidx, SMaybe):  # the index after its `is None` test
        cidx = cidx.val
    return cidx.t if isinstance(cidx, SInt) else (z3.IntVal(cidx) if isinstance(cidx, int) else None)


def _is(cidx, want):
    t = idx_term(cidx)
    return z3.BoolVal(False) if t is None else t == want


class GetItem(FnSpec):
    file = "ih5/overlay.py"
    qual = "IH5InnerNode.__getitem__"
    props = ("C01", "C09")

    def setup(self, cx):
        return A(self=node(cx), key=SStr.fresh("key"))

    def raises(self, cx, a):
        return {"KeyError": z3.Or(z3.Not(OPEN), z3.And(KEY_OK, z3.Not(FOUND))), "ValueError": z3.And(OPEN, z3.Not(KEY_OK))}

    def on_raise(self, cx, a, exc):
        return [("nothing-handed-out", z3.BoolVal(not [e for e in cx.fx if e[0] == "get_child"]), "a refused lookup hands out no node")]

    def ensures(self, cx, a, res):
        kinds = [e[0] for e in cx.fx]
        ok = isinstance(res, ChildTok) and res.key is a.key
        return [
            ("guards-then-find-then-that-child", z3.BoolVal(kinds == ["guard_open", "guard_key", "find", "get_child"] and cx.fx[2][1] is a.key), "open check, key check, then the key is resolved once and the child is taken from exactly the container the resolution names"),
            ("child-from-the-found-container", z3.And(z3.BoolVal(ok), _is(res.cidx, CIDX) if ok else z3.BoolVal(False)), "node[key] is the child under that key in the container _find determined (the most recent deciding one), never another container's version"),
        ]


class Contains(FnSpec):
    file = "ih5/overlay.py"
    qual = "IH5InnerNode.__contains__"
    props = ("C01", "C09")

    def setup(self, cx):
        return A(self=node(cx), key=SStr.fresh("key"))

    def raises(self, cx, a):
        return {"ValueError": z3.Not(KEY_OK)}

    def ensures(self, cx, a, res):
        from .c16 import is_bool_eq

        return [("contained-iff-found", is_bool_eq(res, FOUND), "`key in node` holds exactly when the key resolves to a container (so exactly for what node[key] would hand out)")]


class ExpectReal(FnSpec):
    file = "ih5/overlay.py"
    qual = "IH5InnerNode._expect_real_item_idx"
    props = ("C01", "C09")

    def init(self):
        self.bindings["_node_is_del_mark"] = lambda cx, c: SBool(DELMARK(c.key.t, idx_term(c.cidx))) if isinstance(c, ChildTok) else (_ for _ in ()).throw(Unsupported("marker test of something else"))

    def setup(self, cx):
        a = A(self=node(cx), key=SStr.fresh("key"))
        return a

    def raises(self, cx, a):
        return {"KeyError": z3.Or(z3.Not(FOUND), DELMARK(a.key.t, CIDX))}

    def ensures(self, cx, a, res):
        return [("the-container-of-a-really-existing-item", _is(res, CIDX), "delete/modify operations act on an item only if it resolves to a container AND is not a deletion marker there; the index returned is that container's")]


# ---- _find --------------------------------------------------------------------------------------------------------------------------------
IS_ATTRS = z3.Bool("node_is_an_attribute_manager")
IN_CHILDREN = z3.Bool("children_lists_the_key")
CHILD_IDX = z3.Int("children_index_of_the_key")
LAST_CIDX = z3.Int("cidx_of_the_last_node_of_the_walk")
LAST_PATH = z3.Const("gpath_of_the_last_node_of_the_walk", S)


class ChildrenMap(SVal):
    def meth_get(self, cx, key, default=None):
        cx.effect("children.get", key, default)
        if default is not None:
            raise Unsupported("another default than None")
        return SMaybe(z3.Not(IN_CHILDREN), SInt(CHILD_IDX))


class LastNode(SVal):
    def py_getattr(self, cx, n):
        if n == "_cidx":
            return SInt(LAST_CIDX)
        if n == "_gpath":
            return SStr(LAST_PATH)
        raise Unsupported("node attribute " + n)


class NodeSeq(SVal):
    def py_getitem(self, cx, i):
        if i != -1:
            raise Unsupported("another element of the node sequence than the last")
        return LastNode()


class Find(FnSpec):
    file = "ih5/overlay.py"
    qual = "IH5InnerNode._find"
    props = ("C01", "C09")

    def setup(self, cx):
        n = SObj("IH5InnerNodeRead", name="self")
        n.fields["_is_attrs"] = SBool(IS_ATTRS)
        n.fields["_children"] = lambda cx2: (cx2.effect("children"), ChildrenMap())[1]
        n.fields["_node_seq"] = lambda cx2, k: (cx2.effect("node_seq", k), NodeSeq())[1]
        n.fields["_abs_path"] = lambda cx2, k: SStr(ABS(k.t))
        return A(self=n, key=SStr.fresh("key"))

    def raises(self, cx, a):
        return {}

    def ensures(self, cx, a, res):
        none = res.isnone if isinstance(res, SMaybe) else z3.BoolVal(res is None)
        val = res.val.t if isinstance(res, SMaybe) else (res.t if isinstance(res, SInt) else None)
        walked = z3.And(LAST_PATH == ABS(a.key.t))
        want_none = z3.If(IS_ATTRS, z3.Not(IN_CHILDREN), z3.Not(walked))
        want_val = z3.If(IS_ATTRS, CHILD_IDX, LAST_CIDX)
        return [
            ("none-iff-not-resolved", none == want_none, "an attribute key resolves iff the kernel lists it; a path resolves iff the walk along its segments arrives exactly at that path (a walk that stops early — missing or deleted segment — means: not there)"),
            ("index-of-the-resolving-container", z3.Implies(z3.Not(want_none), z3.BoolVal(False) if val is None else val == want_val), "the index is the one the kernel gives for the key, resp. the creation index of the node the walk arrived at"),
        ]


# ---- get ------------------------------------------------------------------------------------------------------------------------------------
class Get(FnSpec):
    file = "ih5/overlay.py"
    qual = "IH5InnerNode.get"
    props = ("C01", "C09")

    def setup(self, cx):
        n = SObj("IH5InnerNodeGet", name="self")
        a = A(self=n, key=SStr.fresh("key"), default=ChildTok("default", 0))
        return a

    def raises(self, cx, a):
        return {"KeyError": z3.Not(OPEN)}

    def ensures(self, cx, a, res):
        is_default = res is a.default
        is_item = isinstance(res, ChildTok) and res.key is a.key
        return [
            ("default-exactly-when-the-key-is-missing", z3.And(z3.BoolVal(is_default) == z3.Not(FOUND), z3.BoolVal(is_item) == FOUND), "get(key, default) is node[key] when the key resolves and the default when it does not; only a closed record still raises"),
        ]


def getitem_stub(cx, n, key):
    if not cx.decide(OPEN):
        cx.py_raise("KeyError", "Record is not open or accessible!")
    if not cx.decide(FOUND):
        cx.py_raise("KeyError", "no such key")
    return ChildTok(key, SInt(CIDX))


# ---- _get_child ----------------------------------------------------------------------------------------------------------------------------
RAW_KIND = z3.Int("kind_of_the_raw_child")  # 0 group, 1 dataset, 2 anything else (attribute value)


class RawVal(SVal):
    def py_isinstance(self, cx, c):
        n = getattr(c, "name", c)
        if n == "H5Group":
            return RAW_KIND == 0
        if n == "H5Dataset":
            return RAW_KIND == 1
        raise Unsupported(f"isinstance(raw child, {n})")


class GetChild(FnSpec):
    file = "ih5/overlay.py"
    qual = "IH5InnerNode._get_child"
    props = ("C01", "C09")

    def init(self):
        from pyvc.engine import SClass

        self.bindings["h5py"] = type("H", (SVal,), {"py_getattr": lambda s, cx, n: SClass("H5" + n)})()
        self.bindings["IH5Group"] = lambda cx, rec, path, cidx: ("IH5Group", rec, path, cidx)
        self.bindings["IH5Dataset"] = lambda cx, rec, path, cidx: ("IH5Dataset", rec, path, cidx)

    def setup(self, cx):
        n = SObj("IH5InnerNodeRead", name="self")
        self.raw = RawVal()
        n.fields["_get_child_raw"] = lambda cx2, k, c: (cx2.effect("raw", k, c), self.raw)[1]
        n.fields["_abs_path"] = lambda cx2, k: SStr(ABS(k.t))
        n.fields["_record"] = "the-record"
        cx.assume(z3.And(RAW_KIND >= 0, RAW_KIND <= 2))
        return A(self=n, key=SStr.fresh("key"), cidx=SInt(z3.Int("cidx")))

    def raises(self, cx, a):
        return {}

    def ensures(self, cx, a, res):
        raws = [e for e in cx.fx if e[0] == "raw"]
        read_ok = len(raws) == 1 and raws[0][1] is a.key and raws[0][2] is a.cidx
        wrapped = isinstance(res, tuple) and res[1] == "the-record" and isinstance(res[2], SStr) and res[3] is a.cidx
        kind = res[0] if isinstance(res, tuple) else None
        return [
            ("reads-that-key-in-that-container", z3.BoolVal(read_ok), "the raw child is read under the given key from the given container"),
            ("groups-and-datasets-become-overlay-nodes-at-that-index", z3.And(z3.BoolVal(kind == "IH5Group") == (RAW_KIND == 0), z3.BoolVal(kind == "IH5Dataset") == (RAW_KIND == 1), z3.Implies(RAW_KIND <= 1, z3.And(z3.BoolVal(bool(wrapped)), res[2].t == ABS(a.key.t) if wrapped else z3.BoolVal(False))), z3.Implies(RAW_KIND == 2, z3.BoolVal(res is self.raw))), "a raw group / dataset is wrapped as the overlay node of the key's absolute path with THIS container as its creation index (the lower bound for everything below); other values (attributes) are handed out as they are"),
        ]


def add_ovlread(reg):
    reg.set_class_home("IH5InnerNodeRead", "ih5/overlay.py", "IH5InnerNode")
    reg.set_class_home("IH5InnerNodeGet", "ih5/overlay.py", "IH5InnerNode")
    reg.method_bindings[("IH5InnerNodeGet", "__getitem__")] = getitem_stub
    specs = [GetItem(), Contains(), ExpectReal(), Find(), Get(), GetChild(), NodeSeqWalk(), ParentPath(), RelPath(), GuardValue()]
    for s in specs:
        reg.add(s)
    return specs


# ---- _node_seq: the walk along the segments of a path -----------------------------------------------------------------------------------------
from pyvc.api import LoopSpec  # noqa: E402
from pyvc.values import fresh_name  # noqa: E402

ONode = z3.DeclareSort("OverlayNode")
NSEG = z3.Int("number_of_path_segments")
SEG = z3.Function("path_segment", I, S)
RESOLVES = z3.Function("kernel_lists_segment_at_node", ONode, S, B)  # seg in node._children()  (kernel contract)
KIDX = z3.Function("kernel_index_of_segment_at_node", ONode, S, I)
STEP = z3.Function("child_node_of", ONode, S, ONode)  # node._get_child(seg, <kernel index>)  (GetChild)
IS_DS = z3.Function("node_is_a_dataset", ONode, B)
WALK = z3.Function("node_after_k_segments", I, ONode)  # definition: WALK(0) = start, WALK(k+1) = STEP(WALK(k), SEG(k))
SELF_NODE, ROOT_NODE = z3.Consts("this_node root_group_of_the_record", ONode)
ABSOLUTE = z3.Bool("path_starts_with_a_slash")
IS_SLASH, IS_DOT = z3.Bool("path_is_the_text_slash"), z3.Bool("path_is_the_text_dot")
TRIVIAL = z3.Or(IS_SLASH, IS_DOT)

T_WALK = [
    "T4 path.strip('/').split('/') are the path's segments (their number and i-th element are opaque here; what the kernel does with a segment is its contract); path[0] == '/' tells absolute paths",
]


class PathArg(SVal):
    def py_getitem(self, cx, i):
        if i != 0:
            raise Unsupported("another character of the path than the first")
        return FirstChar()

    def py_eq(self, cx, o):
        if o in ("/", "."):
            return IS_SLASH if o == "/" else IS_DOT
        raise Unsupported("comparison of the path with another text")

    def meth_strip(self, cx, ch):
        if ch != "/":
            raise Unsupported("strip of other characters")
        return self

    def meth_split(self, cx, sep):
        if sep != "/":
            raise Unsupported("split by another separator")
        return SegList()


class FirstChar(SVal):
    def py_eq(self, cx, o):
        if o == "/":
            return ABSOLUTE
        raise Unsupported("comparison of the first character")


class SegList(SVal):
    def py_len(self, cx):
        return SInt(NSEG)

    def py_getitem(self, cx, i):
        t = i.t if isinstance(i, SInt) else z3.IntVal(i)
        return SStr(SEG(t))


class KMap(SVal):
    def __init__(self, n):
        self.n = n

    def meth_get(self, cx, seg, default=None):
        if default != -1:
            raise Unsupported("another default than -1")
        cx.assume(KIDX(self.n, seg.t) >= 0)  # kernel contract: a listed key comes with the index of a container (>= the node's creation index >= 0)
        return SInt(z3.If(RESOLVES(self.n, seg.t), KIDX(self.n, seg.t), -1))


class NodeV(SVal):
    def __init__(self, t):
        self.t = t

    def meth__children(self, cx):
        return KMap(self.t)

    def meth__get_child(self, cx, seg, idx):
        cx.oblige("child-taken-from-the-container-the-kernel-names", "call-pre", idx_term(idx) == KIDX(self.t, seg.t), clause="the next node is the child in exactly the container the kernel determined for that segment")
        return NodeV(STEP(self.t, seg.t))

    def py_isinstance(self, cx, c):
        n = getattr(c, "name", c)
        if n == "IH5Dataset":
            return IS_DS(self.t)
        raise Unsupported(f"isinstance(node, {n})")

    def py_getattr(self, cx, n):
        if n == "_gpath":
            return SStr(z3.String(fresh_name("gpath")))
        if n == "_record":
            return "the-record"
        raise Unsupported("node attribute " + n)

    def fresh_like(self, cx, hint="n"):
        return NodeV(z3.Const(fresh_name(hint), ONode))


class NodeList(SVal):
    """ret: only its length and last element matter to the callers (nodes[-1])"""

    def __init__(self, n, last):
        self.n, self.last = n, last

    def meth_append(self, cx, v):
        self.n, self.last = self.n + 1, v.t

    def havoc_inplace(self, cx, hint="ret"):
        self.n, self.last = z3.Int(fresh_name(hint + "_len")), z3.Const(fresh_name(hint + "_last"), ONode)


class NodeSeqWalk(FnSpec):
    file = "ih5/overlay.py"
    qual = "IH5InnerNode._node_seq"
    props = ("C01", "C09")

    def init(self):
        from pyvc.engine import SClass

        self.bindings["IH5Group"] = lambda cx, rec: NodeV(ROOT_NODE) if rec == "the-record" else (_ for _ in ()).throw(Unsupported("IH5Group of another record"))
        self.bindings["IH5Dataset"] = SClass("IH5Dataset")

        def inv(cx, env, it):
            j = z3.Int(fresh_name("wj"))
            ret, curr = env["ret"], env["curr"]
            i = it.i
            # the definition of WALK, unfolded where it is used (an instance per loop head; no quantified axiom, which
            # sends the solvers into `unknown` on the exit obligations)
            cx.assume(z3.Implies(i >= 0, WALK(i + 1) == STEP(WALK(i), SEG(i))))
            return [
                ("walked-so-far", z3.And(curr.t == WALK(i), ret.last == WALK(i), ret.n == i + 1)),
                ("every-segment-so-far-resolved-and-no-dataset-on-the-way", z3.ForAll([j], z3.Implies(z3.And(0 <= j, j < i), z3.And(RESOLVES(WALK(j), SEG(j)), z3.Implies(j < NSEG - 1, z3.Not(IS_DS(WALK(j + 1)))))))),
            ]

        self.loops[0] = LoopSpec(inv, modifies=["seg", "is_last_seg", "nxt_cidx", "curr"], havoc_inplace=["ret"])

    def annotated_value(self, cx, name, ann, v):
        if name == "ret" and isinstance(v, list) and len(v) == 1 and isinstance(v[0], NodeV):
            return NodeList(z3.IntVal(1), v[0].t)
        return None

    def setup(self, cx):
        me = NodeV(SELF_NODE)
        k = z3.Int("wk")
        start = z3.If(ABSOLUTE, ROOT_NODE, SELF_NODE)
        cx.assume(WALK(0) == start)  # definition of WALK: WALK(0) = start, WALK(k+1) = STEP(WALK(k), SEG(k)) (unfolded at the loop head)
        cx.assume(NSEG >= 1)  # T4: split() never gives an empty list
        return A(self=me, path=PathArg())

    raises_exact = False  # justified below; that it is raised for every such path follows from the walk not passing a dataset (invariant)

    def raises(self, cx, a):
        j = z3.Int("rj")
        return {"ValueError": z3.And(z3.Not(TRIVIAL), z3.Exists([j], z3.And(0 <= j, j < NSEG - 1, IS_DS(WALK(j + 1)), RESOLVES(WALK(j), SEG(j)))))}

    def ensures(self, cx, a, res):
        if not isinstance(res, NodeList):
            return [("a-node-sequence", z3.BoolVal(False), "")]
        j = z3.Int("ej")
        k = res.n - 1
        start = z3.If(ABSOLUTE, ROOT_NODE, SELF_NODE)
        return [
            ("special-paths-are-the-start-node", z3.Implies(TRIVIAL, z3.And(res.n == 1, res.last == start)), "'/' and '.' denote the start node itself (the record's root for absolute paths)"),
            ("ends-at-the-node-reached-by-the-resolving-prefix", z3.Implies(z3.Not(TRIVIAL), z3.And(0 <= k, k <= NSEG, res.last == WALK(k), z3.ForAll([j], z3.Implies(z3.And(0 <= j, j < k), RESOLVES(WALK(j), SEG(j)))), z3.Or(k == NSEG, z3.Not(RESOLVES(WALK(k), SEG(k)))))), "the walk follows the segments from the start node, each step through the kernel's resolution at the node reached so far, and stops exactly at the first segment the kernel does not list (deleted or never created) — or at the end of the path; so a path is found iff every segment resolves in turn"),
        ]


# ---- small helpers of IH5Node: _parent_path, _rel_path, _guard_value ----------------------------------------------------------------------------
SL_ = z3.StringVal("/")


class ParentPath(FnSpec):
    file = "ih5/overlay.py"
    qual = "IH5Node._parent_path"
    props = ("C01", "C09")

    def setup(self, cx):
        n = SObj("IH5InnerNodeRead", name="self")
        d, x = z3.String("parent_part"), z3.String("last_segment")
        root = cx.choose(2) == 0
        if root:
            g = SL_
        else:
            cx.assume(z3.And(z3.PrefixOf(SL_, d), z3.SuffixOf(SL_, d), z3.Not(z3.Contains(x, SL_)), z3.Length(x) > 0, z3.Or(d == SL_, z3.Not(z3.SuffixOf(z3.StringVal("//"), d)))))  # absolute normalised path d ++ x
            g = z3.Concat(d, x)
        n.fields["_gpath"] = SStr(g)
        a = A(self=n)
        a.root, a.d = root, d
        return a

    def raises(self, cx, a):
        return {}

    def ensures(self, cx, a, res):
        t = res.t if isinstance(res, SStr) else (z3.StringVal(res) if isinstance(res, str) else None)
        if t is None:
            return [("a-path", z3.BoolVal(False), "")]
        if a.root:
            return [("root-is-its-own-parent", t == SL_, "the root is its own parent")]
        d = a.d
        return [("path-without-its-last-segment", t == z3.If(d == SL_, SL_, z3.SubString(d, 0, z3.Length(d) - 1)), "the parent of /a/b is /a, the parent of /a is / (never the empty path)")]


GPATH = z3.Const("node_path", S)


class RelPath(FnSpec):
    file = "ih5/overlay.py"
    qual = "IH5Node._rel_path"
    props = ("C01", "C09")

    def init(self):
        self.bindings["int"] = lambda cx, b: SInt(z3.If(b.t if isinstance(b, SBool) else z3.BoolVal(bool(b)), 1, 0))

    def setup(self, cx):
        n = SObj("IH5InnerNodeRead", name="self")
        n.fields["_gpath"] = SStr(GPATH)
        cx.assume(z3.PrefixOf(SL_, GPATH))
        return A(self=n, path=SStr(z3.String("path")))

    def requires(self, cx, a):
        return [("non-empty-path", z3.Length(a.path.t) > 0)]

    def raises(self, cx, a):
        p = a.path.t
        return {"RuntimeError": z3.And(z3.PrefixOf(SL_, p), z3.Not(z3.PrefixOf(GPATH, p)))}

    def ensures(self, cx, a, res):
        p = a.path.t
        t = res.t if isinstance(res, SStr) else (z3.StringVal(res) if isinstance(res, str) else None)
        if t is None:
            return [("a-path", z3.BoolVal(False), "")]
        start = z3.Length(GPATH) + z3.If(GPATH != SL_, 1, 0)
        return [("relative-unchanged-absolute-stripped-of-the-node-path", t == z3.If(z3.PrefixOf(SL_, p), z3.SubString(p, start, z3.Length(p) - start), p), "a relative path is returned as it is; an absolute one below the node loses the node's path and the separating '/'")]


IS_MARK, IS_NODE, IS_SOFT, IS_EXT = z3.Bools("value_is_the_deletion_marker value_is_an_overlay_node value_is_a_soft_link value_is_an_external_link")


class ValueArg(SVal):
    def py_isinstance(self, cx, c):
        n = getattr(c, "name", c)
        return {"IH5Node": IS_NODE, "H5SoftLink": IS_SOFT, "H5ExternalLink": IS_EXT}.get(n) if n in ("IH5Node", "H5SoftLink", "H5ExternalLink") else (_ for _ in ()).throw(Unsupported(f"isinstance(value, {n})"))

    def py_str(self, cx):
        return SStr(z3.String("value_text"))


class GuardValue(FnSpec):
    file = "ih5/overlay.py"
    qual = "IH5Node._guard_value"
    props = ("C01", "C09", "C17")

    def init(self):
        from pyvc.engine import SClass

        self.bindings["_is_del_mark"] = lambda cx, v: SBool(IS_MARK)
        self.bindings["IH5Node"] = SClass("IH5Node")
        self.bindings["h5py"] = type("H", (SVal,), {"py_getattr": lambda s, cx, n: SClass("H5" + n)})()

    def setup(self, cx):
        return A(self=SObj("IH5InnerNodeRead", name="self"), data=ValueArg())

    def raises(self, cx, a):
        return {"ValueError": z3.Or(IS_MARK, IS_NODE, IS_SOFT, IS_EXT)}

    def ensures(self, cx, a, res):
        return [("only-storable-values-pass", z3.Not(z3.Or(IS_MARK, IS_NODE, IS_SOFT, IS_EXT)), "a value passes exactly when it is neither the reserved deletion marker (the one byte string IH5 cannot store) nor a node or link object")]


# ---- _get_child_raw / keys / _dict / _get_children --------------------------------------------------------------------------------------------------------
class RawFiles(SVal):
    def py_getitem(self, cx, i):
        return RawFile(i)


class RawFile(SVal):
    def __init__(self, i):
        self.i = i

    def py_getitem(self, cx, p):
        cx.effect("file-node", self.i, p)
        return RawNodeAt(self.i, p)


class RawNodeAt(SVal):
    def __init__(self, i, p):
        self.i, self.p = i, p

    def py_getattr(self, cx, n):
        if n == "attrs":
            return RawAttrsAt(self.i, self.p)
        raise Unsupported("raw node attribute " + n)


class RawAttrsAt(SVal):
    def __init__(self, i, p):
        self.i, self.p = i, p

    def py_getitem(self, cx, k):
        cx.effect("attr-read", self.i, self.p, k)
        return ("attribute", self.i, self.p, k)


class GetChildRaw(FnSpec):
    file = "ih5/overlay.py"
    qual = "IH5InnerNode._get_child_raw"
    props = ("C01", "C09")

    def setup(self, cx):
        n = SObj("IH5InnerNodeRead", name="self")
        is_attrs = cx.choose(2) == 1
        n.fields["_is_attrs"] = is_attrs
        n.fields["_files"] = RawFiles()
        n.fields["_gpath"] = SStr(z3.String("gpath"))
        n.fields["_abs_path"] = lambda cx2, k: SStr(ABS(k.t))
        a = A(self=n, key=SStr.fresh("key"), cidx=SInt(z3.Int("cidx")))
        a.is_attrs = is_attrs
        return a

    def raises(self, cx, a):
        return {}

    def ensures(self, cx, a, res):
        fx = [e[:-1] for e in cx.fx]
        g = a.self.fields["_gpath"]
        if a.is_attrs:
            ok = len(fx) == 2 and fx[0][0] == "file-node" and fx[0][1] is a.cidx and fx[0][2] is g and fx[1][0] == "attr-read" and fx[1][3] is a.key and isinstance(res, tuple) and res[0] == "attribute"
            return [("attribute-of-this-node-in-that-container", z3.BoolVal(bool(ok)), "for an attribute set: the attribute `key` of the node at this path in exactly the given container")]
        ok = len(fx) == 1 and fx[0][0] == "file-node" and fx[0][1] is a.cidx and isinstance(fx[0][2], SStr) and isinstance(res, RawNodeAt)
        return [("node-at-the-absolute-path-in-that-container", z3.BoolVal(False) if not ok else fx[0][2].t == ABS(a.key.t), "for a group: the raw node at the key's absolute path in exactly the given container")]


class ChildrenTok(SVal):
    """self._children(): the kernel's answer (C01 kernel contract), an ordered dict name -> container index"""

    def meth_keys(self, cx):
        return ("keys-of", self)

    def meth_items(self, cx):
        return ChildItems(self)


class ChildItems(SVal):
    def __init__(self, c):
        self.c = c


class Keys(FnSpec):
    file = "ih5/overlay.py"
    qual = "IH5InnerNode.keys"
    props = ("C01", "C09")

    def setup(self, cx):
        n = SObj("IH5InnerNodeRead", name="self")
        self.tok = ChildrenTok()
        n.fields["_children"] = lambda cx2: (cx2.effect("kernel"), self.tok)[1]
        return A(self=n)

    def raises(self, cx, a):
        return {}

    def ensures(self, cx, a, res):
        return [("the-kernel-s-names", z3.BoolVal(res == ("keys-of", self.tok) and len(cx.fx) == 1), "what a group or attribute set lists is exactly what the child-resolution kernel lists (deleted entries and the substitution marker already left out there)")]


CHILD_OF = z3.Function("overlay_child_for", S, I, z3.DeclareSort("ChildValue"))


def items_schema(interp, cx, fr, e):
    """{k: self._get_child(k, idx) for k, idx in self._children().items()} / the list variant of _get_children:
    read in element mode — the element expression is evaluated for a generic (k, idx) of the kernel's answer."""
    import ast

    from pyvc.engine import Env, Frame

    if len(e.generators) != 1 or e.generators[0].ifs:
        return NotImplemented
    g = e.generators[0]
    src = interp.eval(cx, fr, g.iter)
    if not isinstance(src, ChildItems) or not (isinstance(g.target, ast.Tuple) and len(g.target.elts) == 2 and all(isinstance(x, ast.Name) for x in g.target.elts)):
        return NotImplemented
    k, idx = SStr(z3.String("generic_child_name")), SInt(z3.Int("generic_child_index"))
    sub = Frame(fr.modinfo, fr.qual, Env(fr.env), spec=fr.spec, cls=fr.cls)
    sub.env.set(g.target.elts[0].id, k)
    sub.env.set(g.target.elts[1].id, idx)
    if isinstance(e, ast.DictComp):
        key = interp.eval(cx, sub, e.key)
        val = interp.eval(cx, sub, e.value)
        return ("dict-over-children", src.c, key is k, val)
    val = interp.eval(cx, sub, e.elt)
    return ("list-over-children", src.c, val)


class DictOf(FnSpec):
    file = "ih5/overlay.py"
    qual = "IH5InnerNode._dict"
    props = ("C01", "C09")

    def init(self):
        self.comps[0] = items_schema

    def setup(self, cx):
        n = SObj("IH5InnerNodeRead", name="self")
        self.tok = ChildrenTok()
        n.fields["_children"] = lambda cx2: self.tok
        n.fields["_get_child"] = lambda cx2, k, i: ("child", k, i)
        return A(self=n)

    def raises(self, cx, a):
        return {}

    def ensures(self, cx, a, res):
        ok = isinstance(res, tuple) and res[0] == "dict-over-children" and res[1] is self.tok and res[2] is True and isinstance(res[3], tuple) and res[3][0] == "child" and isinstance(res[3][1], SStr) and isinstance(res[3][2], SInt)
        return [("each-listed-name-with-its-child-at-the-kernel-s-index", z3.BoolVal(False) if not ok else z3.And(res[3][1].t == z3.String("generic_child_name"), res[3][2].t == z3.Int("generic_child_index")), "values()/items() pair every listed name with _get_child(name, <the container index the kernel gives for it>) — the same lookup node[name] makes")]


class GetChildren(FnSpec):
    file = "ih5/overlay.py"
    qual = "IH5InnerNode._get_children"
    props = ("C01", "C09")

    def init(self):
        self.comps[0] = items_schema

    def setup(self, cx):
        n = SObj("IH5InnerNodeRead", name="self")
        self.tok = ChildrenTok()
        n.fields["_children"] = lambda cx2: self.tok
        n.fields["_get_child"] = lambda cx2, k, i: ("child", k, i)
        n.fields["_abs_path"] = lambda cx2, k: SStr(ABS(k.t))
        return A(self=n)

    def raises(self, cx, a):
        return {}

    def ensures(self, cx, a, res):
        ok = isinstance(res, tuple) and res[0] == "list-over-children" and res[1] is self.tok and isinstance(res[2], tuple) and res[2][0] == "child" and isinstance(res[2][1], SStr) and isinstance(res[2][2], SInt)
        return [("each-listed-child-at-the-kernel-s-index", z3.BoolVal(False) if not ok else z3.And(res[2][1].t == ABS(z3.String("generic_child_name")), res[2][2].t == z3.Int("generic_child_index")), "")]


def add_ovlread2(reg):
    reg.set_class_home("IH5InnerNodeRead", "ih5/overlay.py", "IH5InnerNode")
    return [GetChildRaw(), Keys(), DictOf(), GetChildren()]  # bodies verified on their own
