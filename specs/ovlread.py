"""IH5InnerNode read path between the child-resolution kernel (_children, under contract in specs/overlay.py) and the
h5py-like interface: _find, __getitem__, __contains__, get, _expect_real_item_idx, _get_child — C01, C09."""
from __future__ import annotations

import z3

from pyvc.api import A, FnSpec
from pyvc.containers import SObj
from pyvc.values import SBool, SInt, SMaybe, SStr, SVal, Unsupported

S, B, I = z3.StringSort(), z3.BoolSort(), z3.IntSort()
OPEN = z3.Bool("record_is_open")
KEY_OK = z3.Bool("key_passes_the_key_guard")
FOUND = z3.Bool("find_locates_the_key")
CIDX = z3.Int("container_index_found")
DELMARK = z3.Function("child_is_a_deletion_marker", S, I, B)
ABS = z3.Function("abs_path_of_key", S, S)

T_READ = [
    "_guard_open raises KeyError('... not open ...') exactly when the record is closed; _guard_key raises ValueError exactly for keys outside the documented alphabet (its own contract, specs/overlay.py); _children is the kernel contract; _node_seq (a walk over the path segments) is exercised by the bounded tier",
]


class ChildTok(SVal):
    def __init__(self, key, cidx):
        self.key, self.cidx = key, cidx


def node(cx, **extra):
    n = SObj("IH5InnerNodeRead", name="self")

    def guard_open(cx2):
        cx2.effect("guard_open")
        if not cx2.decide(OPEN):
            cx2.py_raise("KeyError", "Record is not open or accessible!")

    def guard_key(cx2, key):
        cx2.effect("guard_key", key)
        if not cx2.decide(KEY_OK):
            cx2.py_raise("ValueError", "Invalid key")

    def find(cx2, key):
        cx2.effect("find", key)
        return SMaybe(z3.Not(FOUND), SInt(CIDX))

    def get_child(cx2, key, cidx):
        cx2.effect("get_child", key, cidx)
        return ChildTok(key, cidx)

    n.fields.update({"_guard_open": guard_open, "_guard_key": guard_key, "_find": find, "_get_child": get_child})
    n.fields.update(extra)
    return n


def idx_term(cidx):
    if isinstance(cidx, SMaybe):  # the index after its `is None` test
        cidx = cidx.val
    return cidx.t if isinstance(cidx, SInt) else (z3.IntVal(cidx) if isinstance(cidx, int) else None)


def _is(cidx, want):
    t = idx_term(cidx)
    return z3.BoolVal(False) if t is None else t == want


class GetItem(FnSpec):
    file = "ih5/overlay.py"
    qual = "IH5InnerNode.__getitem__"
    props = ("C01", "C09")

    def setup(self, cx):
        return A(self=node(cx), key=SStr.fresh("key"))

    def raises(self, cx, a):
        return {"KeyError": z3.Or(z3.Not(OPEN), z3.And(KEY_OK, z3.Not(FOUND))), "ValueError": z3.And(OPEN, z3.Not(KEY_OK))}

    def on_raise(self, cx, a, exc):
        return [("nothing-handed-out", z3.BoolVal(not [e for e in cx.fx if e[0] == "get_child"]), "a refused lookup hands out no node")]

    def ensures(self, cx, a, res):
        kinds = [e[0] for e in cx.fx]
        ok = isinstance(res, ChildTok) and res.key is a.key
        return [
            ("guards-then-find-then-that-child", z3.BoolVal(kinds == ["guard_open", "guard_key", "find", "get_child"] and cx.fx[2][1] is a.key), "open check, key check, then the key is resolved once and the child is taken from exactly the container the resolution names"),
            ("child-from-the-found-container", z3.And(z3.BoolVal(ok), _is(res.cidx, CIDX) if ok else z3.BoolVal(False)), "node[key] is the child under that key in the container _find determined (the most recent deciding one), never another container's version"),
        ]


class Contains(FnSpec):
    file = "ih5/overlay.py"
    qual = "IH5InnerNode.__contains__"
    props = ("C01", "C09")

    def setup(self, cx):
        return A(self=node(cx), key=SStr.fresh("key"))

    def raises(self, cx, a):
        return {"ValueError": z3.Not(KEY_OK)}

    def ensures(self, cx, a, res):
        from .c16 import is_bool_eq

        return [("contained-iff-found", is_bool_eq(res, FOUND), "`key in node` holds exactly when the key resolves to a container (so exactly for what node[key] would hand out)")]


class ExpectReal(FnSpec):
    file = "ih5/overlay.py"
    qual = "IH5InnerNode._expect_real_item_idx"
    props = ("C01", "C09")

    def init(self):
        self.bindings["_node_is_del_mark"] = lambda cx, c: SBool(DELMARK(c.key.t, idx_term(c.cidx))) if isinstance(c, ChildTok) else (_ for _ in ()).throw(Unsupported("marker test of something else"))

    def setup(self, cx):
        a = A(self=node(cx), key=SStr.fresh("key"))
        return a

    def raises(self, cx, a):
        return {"KeyError": z3.Or(z3.Not(FOUND), DELMARK(a.key.t, CIDX))}

    def ensures(self, cx, a, res):
        return [("the-container-of-a-really-existing-item", _is(res, CIDX), "delete/modify operations act on an item only if it resolves to a container AND is not a deletion marker there; the index returned is that container's")]


# ---- _find --------------------------------------------------------------------------------------------------------------------------------
IS_ATTRS = z3.Bool("node_is_an_attribute_manager")
IN_CHILDREN = z3.Bool("children_lists_the_key")
CHILD_IDX = z3.Int("children_index_of_the_key")
LAST_CIDX = z3.Int("cidx_of_the_last_node_of_the_walk")
LAST_PATH = z3.Const("gpath_of_the_last_node_of_the_walk", S)


class ChildrenMap(SVal):
    def meth_get(self, cx, key, default=None):
        cx.effect("children.get", key, default)
        if default is not None:
            raise Unsupported("another default than None")
        return SMaybe(z3.Not(IN_CHILDREN), SInt(CHILD_IDX))


class LastNode(SVal):
    def py_getattr(self, cx, n):
        if n == "_cidx":
            return SInt(LAST_CIDX)
        if n == "_gpath":
            return SStr(LAST_PATH)
        raise Unsupported("node attribute " + n)


class NodeSeq(SVal):
    def py_getitem(self, cx, i):
        if i != -1:
            raise Unsupported("another element of the node sequence than the last")
        return LastNode()


class Find(FnSpec):
    file = "ih5/overlay.py"
    qual = "IH5InnerNode._find"
    props = ("C01", "C09")

    def setup(self, cx):
        n = SObj("IH5InnerNodeRead", name="self")
        n.fields["_is_attrs"] = SBool(IS_ATTRS)
        n.fields["_children"] = lambda cx2: (cx2.effect("children"), ChildrenMap())[1]
        n.fields["_node_seq"] = lambda cx2, k: (cx2.effect("node_seq", k), NodeSeq())[1]
        n.fields["_abs_path"] = lambda cx2, k: SStr(ABS(k.t))
        return A(self=n, key=SStr.fresh("key"))

    def raises(self, cx, a):
        return {}

    def ensures(self, cx, a, res):
        none = res.isnone if isinstance(res, SMaybe) else z3.BoolVal(res is None)
        val = res.val.t if isinstance(res, SMaybe) else (res.t if isinstance(res, SInt) else None)
        walked = z3.And(LAST_PATH == ABS(a.key.t))
        want_none = z3.If(IS_ATTRS, z3.Not(IN_CHILDREN), z3.Not(walked))
        want_val = z3.If(IS_ATTRS, CHILD_IDX, LAST_CIDX)
        return [
            ("none-iff-not-resolved", none == want_none, "an attribute key resolves iff the kernel lists it; a path resolves iff the walk along its segments arrives exactly at that path (a walk that stops early — missing or deleted segment — means: not there)"),
            ("index-of-the-resolving-container", z3.Implies(z3.Not(want_none), z3.BoolVal(False) if val is None else val == want_val), "the index is the one the kernel gives for the key, resp. the creation index of the node the walk arrived at"),
        ]


# ---- get ------------------------------------------------------------------------------------------------------------------------------------
class Get(FnSpec):
    file = "ih5/overlay.py"
    qual = "IH5InnerNode.get"
    props = ("C01", "C09")

    def setup(self, cx):
        n = SObj("IH5InnerNodeGet", name="self")
        a = A(self=n, key=SStr.fresh("key"), default=ChildTok("default", 0))
        return a

    def raises(self, cx, a):
        return {"KeyError": z3.Not(OPEN)}

    def ensures(self, cx, a, res):
        is_default = res is a.default
        is_item = isinstance(res, ChildTok) and res.key is a.key
        return [
            ("default-exactly-when-the-key-is-missing", z3.And(z3.BoolVal(is_default) == z3.Not(FOUND), z3.BoolVal(is_item) == FOUND), "get(key, default) is node[key] when the key resolves and the default when it does not; only a closed record still raises"),
        ]


def getitem_stub(cx, n, key):
    if not cx.decide(OPEN):
        cx.py_raise("KeyError", "Record is not open or accessible!")
    if not cx.decide(FOUND):
        cx.py_raise("KeyError", "no such key")
    return ChildTok(key, SInt(CIDX))


# ---- _get_child ----------------------------------------------------------------------------------------------------------------------------
RAW_KIND = z3.Int("kind_of_the_raw_child")  # 0 group, 1 dataset, 2 anything else (attribute value)


class RawVal(SVal):
    def py_isinstance(self, cx, c):
        n = getattr(c, "name", c)
        if n == "H5Group":
            return RAW_KIND == 0
        if n == "H5Dataset":
            return RAW_KIND == 1
        raise Unsupported(f"isinstance(raw child, {n})")


class GetChild(FnSpec):
    file = "ih5/overlay.py"
    qual = "IH5InnerNode._get_child"
    props = ("C01", "C09")

    def init(self):
        from pyvc.engine import SClass

        self.bindings["h5py"] = type("H", (SVal,), {"py_getattr": lambda s, cx, n: SClass("H5" + n)})()
        self.bindings["IH5Group"] = lambda cx, rec, path, cidx: ("IH5Group", rec, path, cidx)
        self.bindings["IH5Dataset"] = lambda cx, rec, path, cidx: ("IH5Dataset", rec, path, cidx)

    def setup(self, cx):
        n = SObj("IH5InnerNodeRead", name="self")
        self.raw = RawVal()
        n.fields["_get_child_raw"] = lambda cx2, k, c: (cx2.effect("raw", k, c), self.raw)[1]
        n.fields["_abs_path"] = lambda cx2, k: SStr(ABS(k.t))
        n.fields["_record"] = "the-record"
        cx.assume(z3.And(RAW_KIND >= 0, RAW_KIND <= 2))
        return A(self=n, key=SStr.fresh("key"), cidx=SInt(z3.Int("cidx")))

    def raises(self, cx, a):
        return {}

    def ensures(self, cx, a, res):
        raws = [e for e in cx.fx if e[0] == "raw"]
        read_ok = len(raws) == 1 and raws[0][1] is a.key and raws[0][2] is a.cidx
        wrapped = isinstance(res, tuple) and res[1] == "the-record" and isinstance(res[2], SStr) and res[3] is a.cidx
        kind = res[0] if isinstance(res, tuple) else None
        return [
            ("reads-that-key-in-that-container", z3.BoolVal(read_ok), "the raw child is read under the given key from the given container"),
            ("groups-and-datasets-become-overlay-nodes-at-that-index", z3.And(z3.BoolVal(kind == "IH5Group") == (RAW_KIND == 0), z3.BoolVal(kind == "IH5Dataset") == (RAW_KIND == 1), z3.Implies(RAW_KIND <= 1, z3.And(z3.BoolVal(bool(wrapped)), res[2].t == ABS(a.key.t) if wrapped else z3.BoolVal(False))), z3.Implies(RAW_KIND == 2, z3.BoolVal(res is self.raw))), "a raw group / dataset is wrapped as the overlay node of the key's absolute path with THIS container as its creation index (the lower bound for everything below); other values (attributes) are handed out as they are"),
        ]


def add_ovlread(reg):
    reg.set_class_home("IH5InnerNodeRead", "ih5/overlay.py", "IH5InnerNode")
    reg.set_class_home("IH5InnerNodeGet", "ih5/overlay.py", "IH5InnerNode")
    reg.method_bindings[("IH5InnerNodeGet", "__getitem__")] = getitem_stub
    specs = [GetItem(), Contains(), ExpectReal(), Find(), Get(), GetChild()]
    for s in specs:
        reg.add(s)
    return specs
