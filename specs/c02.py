"""C02 — committed containers are never modified again (frames and effect order of the record life cycle)."""
from . import hashing, manifest, naming, ovlguards, record, ublock


def build(reg):
    record.add_record_bindings(reg)
    record.add_open_bindings(reg)
    specs = record.add_lifecycle(reg)
    specs += manifest.add_manifest(reg)
    specs += ublock.add_ublock(reg)  # the bodies behind the user-block contracts the life cycle calls (verified on their own, not registered as callees)
    specs += [x for x in naming.add_naming(reg, register=False) if x.qual.endswith('_infer_name')]
    specs += ovlguards.add_ovlguards(reg)  # what 'writable' means, and that a dataset node writes only into the newest uncommitted container
    from . import oneliners

    specs = specs + oneliners.add_oneliners(reg, props=("C02",))  # one- and two-line delegations, verified against what other contracts bind them to
    return {
        "verify": specs,
        "lemmas": [],
        "trusted": oneliners.T_ONE + hashing.TRUSTED + [record.T1_OPEN, record.T1_X, record.T2_UNLINK, record.T3_HEX, record.T5_UB, record.T6_UUID, manifest.T5_MF] + ublock.T_UB + ovlguards.T_GUARDS,
        "assumptions": ["IH5UserBlock.save / create are callee contracts in the life-cycle functions; their bodies are verified separately in this check (UbSaveBody, UbCreateBody) against the same statements", "_next_patch_filepath returns some path in the life-cycle contracts (its text is under contract in C03); freshness is not needed because _new_container uses mode 'x'"],
    }
