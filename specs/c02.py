"""C02 — committed containers are never modified again (frames and effect order of the record life cycle)."""
from . import hashing, manifest, record


def build(reg):
    record.add_record_bindings(reg)
    record.add_open_bindings(reg)
    specs = record.add_lifecycle(reg)
    specs += manifest.add_manifest(reg)
    return {
        "verify": specs,
        "lemmas": [],
        "trusted": hashing.TRUSTED + [record.T1_OPEN, record.T1_X, record.T2_UNLINK, record.T3_HEX, record.T5_UB, record.T6_UUID, manifest.T5_MF],
        "assumptions": ["IH5UserBlock.save rewrites only bytes of the user-block area of the named file (contract assumed here; its body is checked bounded in C11 torn-write enumeration)", "_next_patch_filepath returns some path; freshness is not needed because _new_container uses mode 'x'"],
    }
