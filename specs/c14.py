"""C14 — merging partial metadata is a lossless, associative, non-mutating monoid (P-tier: _update_field, merge_with)."""
from __future__ import annotations

import z3

from pyvc.api import A, FnSpec, LoopSpec
from pyvc.containers import STR, SMap, SObj, SSet, SetIter
from pyvc.engine import SClass
from pyvc.values import SBool, SStr, STuple, SVal, Unsupported, as_bool, fresh_name

Val = z3.DeclareSort("Val")  # universal python value (field values of partial models)
Cls = z3.DeclareSort("Cls")
I, B = z3.IntSort(), z3.BoolSort()
KIND = z3.Function("kind", Val, I)  # 0 None, 1 list, 2 set, 3 model, 4 anything else (opaque)
NONE, LIST, SET, MODEL = 0, 1, 2, 3
TRUTHY = z3.Function("truthy", Val, B)
LCAT = z3.Function("list_concat", Val, Val, Val)
SUNION = z3.Function("set_union", Val, Val, Val)
ISPART = z3.Function("is_partial_instance", Val, B)
PART = z3.Function("as_partial", Val, Val)  # get_partial(type(v)).cast(v) — T5/T9 (pydantic construct)
CLS = z3.Function("class_of", Val, Cls)
SUB = z3.Function("issubclass", Cls, Cls, B)
MW = z3.Function("merge_with_result", Val, Val, B, Val)  # recursive merge of two nested partials (contract of merge_with)
MW_INVALID = z3.Function("merge_with_raises_ValidationError", Val, Val, B)
MW_CONFLICT = z3.Function("merge_with_raises_ValueError", Val, Val, B, B)

T5 = "T5 pydantic: copy() returns a new object with its own field dict holding the same values; construct/parse_obj/cast conversions are opaque functions of their argument"


class TVal:
    def sort(self):
        return Val

    def wrap(self, t):
        return DynVal(t)

    def unwrap(self, cx, v):
        if isinstance(v, DynVal):
            return v.t
        if v is None:
            return NONE_T
        raise Unsupported(f"not a dynamic value: {v!r}")


NONE_T = z3.Const("PyNone", Val)


class ClsVal(SVal):
    def __init__(self, t):
        self.t = t

    def py_issubclass(self, cx, other):
        return SBool(SUB(self.t, other.t))


class DynVal(SVal):
    def __init__(self, t):
        self.t = t

    def py_is_none(self, cx):
        return KIND(self.t) == NONE

    def py_truth(self, cx):
        return z3.And(KIND(self.t) != NONE, TRUTHY(self.t))

    def py_isinstance(self, cx, c):
        if c == "list":
            return KIND(self.t) == LIST
        if c == "set":
            return KIND(self.t) == SET
        if c == "BaseModelOfFactory":
            return KIND(self.t) == MODEL
        if c == "PartialModel":
            return z3.And(KIND(self.t) == MODEL, ISPART(self.t))
        raise Unsupported(f"isinstance(value, {c})")

    def py_add(self, cx, o):
        if not isinstance(o, DynVal):
            raise Unsupported("list + non-value")
        cx.decide_or_fail(z3.And(KIND(self.t) == LIST, KIND(o.t) == LIST), "TypeError", "can only concatenate list to list")
        return DynVal(LCAT(self.t, o.t))

    def meth_union(self, cx, o):
        cx.decide_or_fail(z3.And(KIND(self.t) == SET, KIND(o.t) == SET), "TypeError", "set.union of a non-set")
        return DynVal(SUNION(self.t, o.t))

    def py_type(self, cx):
        return ClsVal(CLS(self.t))

    def py_eq(self, cx, o):
        if o is None:
            return KIND(self.t) == NONE
        if isinstance(o, DynVal):
            return self.t == o.t
        return False

    def py_str(self, cx):
        return SStr.fresh("repr")

    def type_desc(self):
        return TVal()

    # nested partial models
    def meth_merge_with(self, cx, other, allow_overwrite=False, _path=None, ignore_invalid=False):
        ow = as_bool(cx, allow_overwrite)
        el = getattr(cx, "elem", None)
        if cx.decide(MW_INVALID(self.t, other.t)):
            cx.py_raise("ValidationError", "cast failed")
        if cx.decide(MW_CONFLICT(self.t, other.t, ow)):
            cx.py_raise("ValueError", "nested conflict")
        return DynVal(MW(self.t, other.t, ow))


def val_axioms():
    v = z3.Const("ax_v", Val)
    return [
        KIND(NONE_T) == NONE,
        z3.ForAll([v], z3.And(KIND(v) >= 0, KIND(v) <= 4)),
        z3.ForAll([v], z3.Implies(KIND(v) == NONE, v == NONE_T)),  # None is unique
        z3.ForAll([v], z3.Implies(z3.And(KIND(v) == MODEL, ISPART(v)), PART(v) == v)),  # an existing partial is used as it is
    ]


def m_spec(old, new, ow):
    """The merge of two field values, written from the property / documented table (returns (raises ValueError?, value))."""
    both_models = z3.And(KIND(old) == MODEL, KIND(new) == MODEL)
    po, pn = PART(old), PART(new)
    related = z3.Or(SUB(CLS(pn), CLS(po)), SUB(CLS(po), CLS(pn)))
    rec = z3.And(both_models, related, z3.Not(MW_INVALID(po, pn)))
    opaque = z3.And(KIND(old) != NONE, KIND(new) != NONE, KIND(old) != LIST, KIND(old) != SET, z3.Not(rec))
    raises = z3.Or(z3.And(rec, MW_CONFLICT(po, pn, ow)), z3.And(opaque, z3.Not(ow)))
    value = z3.If(KIND(old) == NONE, new, z3.If(KIND(new) == NONE, old, z3.If(KIND(old) == LIST, LCAT(old, new), z3.If(KIND(old) == SET, SUNION(old, new), z3.If(rec, MW(po, pn, ow), new)))))
    return raises, value


def nested_partial(cx, selfobj, val):
    """PartialModel._nested_partial as seen by _update_field: existing partials as they are, else the opaque conversion."""
    return DynVal(PART(val.t))


class UpdateField(FnSpec):
    file = "schema/partial.py"
    qual = "PartialModel._update_field"
    props = ("C14",)

    def setup(self, cx):
        for ax in val_axioms():
            cx.assume(ax)
        me = SObj("PartialModel", name="self")
        return A(self=me, v_old=DynVal(z3.Const("v_old", Val)), v_new=DynVal(z3.Const("v_new", Val)), path=[], allow_overwrite=SBool(z3.Bool("allow_overwrite")))

    def requires(self, cx, a):
        o, n = a.v_old.t, a.v_new.t
        return [("same-field-same-kind", z3.Or(KIND(o) == NONE, KIND(n) == NONE, KIND(o) == KIND(n)))]

    def raises(self, cx, a):
        ow = as_bool(cx, a.allow_overwrite)
        r, _ = m_spec(a.v_old.t, a.v_new.t, ow)
        return {"ValueError": r}

    def ensures(self, cx, a, res):
        ow = as_bool(cx, a.allow_overwrite)
        _, v = m_spec(a.v_old.t, a.v_new.t, ow)
        if res is None:
            rt = NONE_T
        elif isinstance(res, DynVal):
            rt = res.t
        else:
            return [("result-shape", z3.BoolVal(False), "returns a value")]
        return [("merged-value", rt == v, "None is the identity (no provided value, including falsy ones, is dropped), lists concatenate, sets unite, nested objects merge recursively, otherwise the later value wins if overwriting is allowed")]

    # callee side
    def bind_call(self, interp, cx, f, args, kwargs):
        a = FnSpec.bind_call(self, interp, cx, f, args, kwargs)
        for k in ("v_old", "v_new"):
            if a[k] is None:
                a[k] = DynVal(NONE_T)
        return a

    def result(self, cx, a):
        ow = as_bool(cx, a.allow_overwrite)
        _, v = m_spec(a.v_old.t, a.v_new.t, ow)
        return DynVal(v)


class ModelObj(SObj):
    """A (partial) model instance: python-level object with a `__dict__` map of field values."""


def get_field_vals(cx, fac, obj):
    """PartialFactory._get_field_vals: public fields whose value is not None (T5; `is_public_name` opaque)."""
    d = obj.fields["__dict__"]
    k = z3.String(fresh_name("gk"))
    PUB = z3.Function("is_public_name", z3.StringSort(), B)
    dom = z3.Lambda([k], z3.And(d.has(k), PUB(k), KIND(d.get_term(k)) != NONE))
    snap = d.snapshot()

    class _Items(SVal):
        def py_iter_schema(self_inner, cx2):
            return SetIter(STR, dom, lambda kt: STuple((SStr(kt), DynVal(snap.get_term(kt)))))

    cx.ghost["field_dom"] = dom
    return _Items()


class MergeWith(FnSpec):
    file = "schema/partial.py"
    qual = "PartialModel.merge_with"
    props = ("C14",)

    def init(self):
        def inv(cx, env, it):
            a = cx.ghost["mw_args"]
            ret = env["ret"]
            d = ret.fields["__dict__"]
            k = z3.String(fresh_name("ik"))
            dom = cx.ghost["field_dom"]
            ow = as_bool(cx, a.allow_overwrite)
            so, oo = a.self_dict0, a.obj_dict0
            old_k = z3.If(so.has(k), so.get_term(k), NONE_T)
            rr, mv = m_spec(old_k, oo.get_term(k), ow)
            return [
                ("processed-fields-had-no-conflict", z3.ForAll([k], z3.Implies(z3.Select(it.processed, k), z3.Not(rr)))),
                ("processed-fields-merged", z3.ForAll([k], z3.Implies(z3.Select(it.processed, k), z3.And(d.has(k), d.get_term(k) == mv)))),
                ("other-fields-as-in-self", z3.ForAll([k], z3.Implies(z3.Not(z3.Select(it.processed, k)), z3.And(d.has(k) == so.has(k), z3.Implies(d.has(k), d.get_term(k) == so.get_term(k)))))),
                ("result-is-a-fresh-object", z3.BoolVal(ret is not a.self and ret is not a.obj)),
            ]

        self.loops[0] = LoopSpec(inv, modifies=["f_name", "v_new", "v_old", "v_merged"], havoc_inplace=["ret.__dict__"])

    def setup(self, cx):
        for ax in val_axioms():
            cx.assume(ax)
        me, ob = ModelObj("PartialModel", name="self"), ModelObj("PartialModel", name="obj")
        me.fields["__dict__"] = SMap.fresh(STR, TVal(), "self_dict")
        ob.fields["__dict__"] = SMap.fresh(STR, TVal(), "obj_dict")
        a = A(self=me, obj=ob, ignore_invalid=False, allow_overwrite=SBool(z3.Bool("allow_overwrite")), _path=[])
        a.self_dict0, a.obj_dict0 = me.fields["__dict__"].snapshot(), ob.fields["__dict__"].snapshot()
        cx.ghost["mw_args"] = a
        return a

    def requires(self, cx, a):
        k = z3.String(fresh_name("rk"))
        so, oo = a.self_dict0, a.obj_dict0
        return [("same-field-same-kind", z3.ForAll([k], z3.Implies(z3.And(so.has(k), oo.has(k)), z3.Or(KIND(so.get_term(k)) == NONE, KIND(oo.get_term(k)) == NONE, KIND(so.get_term(k)) == KIND(oo.get_term(k))))))]

    def raises(self, cx, a):
        # a conflicting field without overwrite permission raises instead of losing a value
        k = z3.String(fresh_name("ck"))
        ow = as_bool(cx, a.allow_overwrite)
        so, oo = a.self_dict0, a.obj_dict0
        dom = cx.ghost.get("field_dom")
        if dom is None:
            return {"ValueError": z3.BoolVal(True), "ValidationError": z3.BoolVal(True)}
        old_k = z3.If(so.has(k), so.get_term(k), NONE_T)
        r, _ = m_spec(old_k, oo.get_term(k), ow)
        return {"ValueError": z3.Exists([k], z3.And(z3.Select(dom, k), r)), "ValidationError": z3.BoolVal(True)}

    raises_exact = False

    def on_raise(self, cx, a, exc):
        return self.frame(cx, a)

    def frame(self, cx, a):
        return [
            ("self-not-mutated", a.self.fields["__dict__"].same(cx, a.self_dict0), "merging never mutates its operands (self)"),
            ("obj-not-mutated", a.obj.fields["__dict__"].same(cx, a.obj_dict0), "merging never mutates its operands (other)"),
        ]

    def ensures(self, cx, a, res):
        if not isinstance(res, ModelObj):
            return [("result-shape", z3.BoolVal(False), "returns a model")]
        d = res.fields["__dict__"]
        k = z3.String(fresh_name("ek"))
        dom = cx.ghost["field_dom"]
        ow = as_bool(cx, a.allow_overwrite)
        so, oo = a.self_dict0, a.obj_dict0
        old_k = z3.If(so.has(k), so.get_term(k), NONE_T)
        r, mv = m_spec(old_k, oo.get_term(k), ow)
        return self.frame(cx, a) + [
            ("fresh-result", z3.BoolVal(res is not a.self and res is not a.obj and d is not a.self.fields["__dict__"] and d is not a.obj.fields["__dict__"]), "the result is a new object"),
            ("provided-fields-merged", z3.ForAll([k], z3.Implies(z3.Select(dom, k), z3.And(d.has(k), d.get_term(k) == mv))), "every provided (non-None, public) field of the other operand is merged into the result by the field-merge rule"),
            ("other-fields-kept", z3.ForAll([k], z3.Implies(z3.Not(z3.Select(dom, k)), z3.And(d.has(k) == so.has(k), z3.Implies(d.has(k), d.get_term(k) == so.get_term(k))))), "all other fields are the left operand's"),
            ("no-conflict-swallowed", z3.ForAll([k], z3.Implies(z3.Select(dom, k), z3.Not(r))), "a conflicting merge without overwrite permission raises instead of returning"),
        ]


class GetFieldVals(FnSpec):
    """the stub `get_field_vals` above is this function's contract: verified here against the real body"""

    file = "schema/partial.py"
    qual = "PartialFactory._get_field_vals"
    props = ("C14",)

    def init(self):
        self.bindings["is_public_name"] = lambda cx, n: SBool(z3.Function("is_public_name", z3.StringSort(), B)(n.t))
        self.comps[0] = pairs_filter

    def setup(self, cx):
        for ax in val_axioms():
            cx.assume(ax)
        ob = ModelObj("PartialModel", name="obj")
        ob.fields["__dict__"] = SMap.fresh(STR, TVal(), "obj_dict")
        a = A(cls=SClass("PartialFactory"), obj=ob)
        a.d0 = ob.fields["__dict__"].snapshot()
        return a

    def ensures(self, cx, a, res):
        if not isinstance(res, SMap):
            return [("yields-name-value-pairs", z3.BoolVal(False), "pairs of field name and value")]
        k = z3.String(fresh_name("gk"))
        PUB = z3.Function("is_public_name", z3.StringSort(), B)
        d = a.d0
        return [
            ("exactly-the-provided-public-values-of-the-object", z3.ForAll([k], z3.And(res.has(k) == z3.And(d.has(k), PUB(k), KIND(d.get_term(k)) != NONE), z3.Implies(res.has(k), res.get_term(k) == d.get_term(k)))), "EVERY public value the object actually holds that is not None is provided — also values under names the partial class does not declare itself (subclass fields, extra keys) and falsy values; nothing else"),
            ("object-not-mutated", a.obj.fields["__dict__"].same(cx, d), "reading the values does not change the object"),
        ]


class SchemaGetFieldVals(FnSpec):
    """the override for schema partials: what the generic factory provides, minus the declared constants — and nothing else filtered"""

    file = "schema/core.py"
    qual = "PartialSchemas._get_field_vals"
    props = ("C14",)

    def init(self):
        self.comps[0] = pairs_filter
        self.inline |= {"_is_schema_field"}  # a one-line predicate of this module: read, should the filter ever be phrased through it

    def setup(self, cx):
        from pyvc.containers import MapItems

        for ax in val_axioms():
            cx.assume(ax)
        ob = ModelObj("PartialModel", name="obj")
        base_set = SSet.fresh(STR, "declared_constants")

        class ConstDict(SSet):
            """__constants__ (name -> constant value): membership is what counts; the VALUE of a constant may be falsy (0, False, '')"""

            def meth_get(s, cx2, k, d=None):
                if d is not None:
                    raise Unsupported("__constants__.get with a default")
                kt = k.t if isinstance(k, SStr) else z3.StringVal(k)

                class ConstValue(SVal):
                    def py_truth(s2, cx3):
                        return z3.Function("constant_value_is_truthy", z3.StringSort(), z3.BoolSort())(kt)

                from pyvc.values import SMaybe

                return SMaybe(z3.Not(s.has(kt)), ConstValue())

        ob.fields["__constants__"] = ConstDict(base_set.kt, base_set.dom)
        ob.fields["__fields__"] = SMap.fresh(STR, TVal(), "declared_fields")
        a = A(cls=SClass("PartialSchemas"), obj=ob)
        a.base = SMap.fresh(STR, TVal(), "provided_by_the_generic_factory")
        a.base0 = a.base.snapshot()
        cx.ghost["sgfv"] = a
        return a

    def ensures(self, cx, a, res):
        if not isinstance(res, SMap):
            return [("yields-name-value-pairs", z3.BoolVal(False), "pairs of field name and value")]
        k = z3.String(fresh_name("sk"))
        consts = a.obj.fields["__constants__"]
        b = a.base0
        return [("provided-values-minus-constants", z3.ForAll([k], z3.And(res.has(k) == z3.And(b.has(k), z3.Not(consts.has(k))), z3.Implies(res.has(k), res.get_term(k) == b.get_term(k)))), "every provided value that is not a declared constant takes part in merging — also values under names the class does not declare (extra keys, fields of a subclass carried by a parent-typed partial); constants never do")]


# --- to_partial / cast: which values of the source reach the partial -------------------------------------------------------------
T5_DICT = "T5 pydantic: obj.dict(exclude_none=True) holds every field of obj whose value is not None (whether or not it counts as 'set'); cls.construct(**d) carries exactly the entries of d; validate_model(cls, obj) returns the valid entries and their names; parse_obj(d) validates exactly the entries of d"


class Marker(SVal):
    """an opaque python value identified by its description (a dict of an object, a pydantic result ...)"""

    def __init__(self, *desc):
        self.desc = desc

    def py_truth(self, cx):
        return True

    def same(self, o):
        return isinstance(o, Marker) and len(o.desc) == len(self.desc) and all((x.same(y) if isinstance(x, Marker) else x is y or (not isinstance(x, SVal) and x == y)) for x, y in zip(self.desc, o.desc))


class SourceObj(SVal):
    """the object handed to to_partial / cast: an instance of the partial class or its source model | another pydantic model | anything else (a dict)"""

    def __init__(self, kind):
        self.kind = kind

    def py_isinstance(self, cx, c):
        names = c if isinstance(c, (tuple, list)) else [c]
        out = False
        for n in names:
            n = getattr(n, "name", n)
            if n in ("ThisPartial", "ThisSource"):
                out = out or self.kind == "same"
            elif n == "BaseModel":
                out = out or self.kind in ("same", "model")
            elif n != "object":
                raise Unsupported(f"isinstance against {n!r}")
        return out

    def py_getattr(self, cx, name):
        from pyvc.engine import KwDict

        if name == "__dict__":
            return KwDict({"__entries_of__": Marker("__dict__", self)})
        raise Unsupported("attribute " + name)

    def meth_dict(self, cx, **kw):
        return Marker("dict", self, tuple(sorted(kw.items())))


class PartialCls(SVal):
    name = "ThisPartial"

    def py_getattr(self, cx, n):
        if n == "__partial_src__":
            c = PartialCls()
            c.name = "ThisSource"
            return c
        raise Unsupported("class attribute " + n)

    def meth_construct(self, cx, **kw):
        return Marker("construct", tuple(sorted(kw.items(), key=lambda x: x[0])))

    def meth_parse_obj(self, cx, d):
        return Marker("parse_obj", d)

    def meth_to_partial(self, cx, obj, **kw):
        return Marker("to_partial", obj, tuple(sorted(kw.items())))


def _kw(m, i=1):
    return dict(m.desc[i]) if isinstance(m, Marker) and len(m.desc) > i else None


class ToPartial(FnSpec):
    file = "schema/partial.py"
    qual = "PartialModel.to_partial"
    props = ("C14",)

    def init(self):
        from pyvc.engine import KwDict

        self.bindings["BaseModel"] = SClass("BaseModel")
        self.bindings["validate_model"] = lambda cx, c, o: STuple((KwDict({"__entries_of__": Marker("valid-entries", o)}), Marker("valid-names", o), None))

    def setup(self, cx):
        kind = ["same", "model", "other"][cx.choose(3)]
        ign = bool(cx.choose(2))
        a = A(cls=PartialCls(), obj=SourceObj(kind), __kwargs__={}, ignore_invalid=ign)
        a.kind, a.ign = kind, ign
        return a

    def raises(self, cx, a):
        return {}

    def ensures(self, cx, a, res):
        r = res if isinstance(res, Marker) else Marker("?")
        if a.kind == "same":
            kw = _kw(r) if r.desc[0] == "construct" else None
            ok = kw is not None and set(kw) == {"__entries_of__"} and kw["__entries_of__"].same(Marker("__dict__", a.obj))
            return [("instance-of-the-model-carried-over-entirely", z3.BoolVal(bool(ok)), "an instance of this partial (or of its source model, or of a subclass) is taken over with ALL the values it holds, without validation")]
        if a.ign:
            kw = _kw(r) if r.desc[0] == "construct" else None
            ok = kw is not None and set(kw) == {"__entries_of__", "_fields_set"} and kw["__entries_of__"].same(Marker("valid-entries", a.obj)) and kw["_fields_set"].same(Marker("valid-names", a.obj))
            return [("valid-entries-kept", z3.BoolVal(bool(ok)), "with ignore_invalid exactly the entries that validate are kept")]
        want = Marker("parse_obj", Marker("dict", a.obj, (("exclude_none", True),))) if a.kind == "model" else Marker("parse_obj", a.obj)
        return [("every-provided-value-is-parsed", z3.BoolVal(r.same(want)), "another model is parsed from ALL its values that are not None (not only those counted as set, not only the declared ones); a dict is parsed as it is")]


class CastSpec(FnSpec):
    file = "schema/partial.py"
    qual = "PartialModel.cast"
    props = ("C14",)

    def setup(self, cx):
        kind = ["same", "model", "other"][cx.choose(3)]
        ign = bool(cx.choose(2))
        a = A(cls=PartialCls(), obj=SourceObj(kind), __kwargs__={}, ignore_invalid=ign)
        a.kind, a.ign = kind, ign
        return a

    def raises(self, cx, a):
        return {}

    def ensures(self, cx, a, res):
        if a.kind == "same":
            return [("an-instance-is-returned-as-it-is", z3.BoolVal(res is a.obj), "casting an instance of the partial class returns that very object (identity, so nothing can be lost)")]
        want = Marker("to_partial", a.obj, (("ignore_invalid", a.ign),))
        return [("otherwise-to-partial", z3.BoolVal(isinstance(res, Marker) and res.same(want)), "anything else goes through to_partial with the caller's ignore_invalid")]


# --- from_partial / merge: completing a partial, folding many ---------------------------------------------------------------------------------
VFP = z3.Function("val_from_partial", Val, Val)  # recursive conversion of nested partials / lists / sets (bounded)


def items_map_schema(interp, cx, fr, e):
    """`{k: f(v) for k, v in <items of a symbolic map>}`: same keys, each value mapped by f (evaluated once on a generic value)"""
    import ast

    from pyvc.api import ContractStale
    from pyvc.containers import MapItems
    from pyvc.engine import Env, Frame

    if not isinstance(e, ast.DictComp) or len(e.generators) != 1 or e.generators[0].ifs:
        return NotImplemented
    g = e.generators[0]
    src = interp.eval(cx, fr, g.iter)
    if not isinstance(src, MapItems):
        return NotImplemented
    if not (isinstance(g.target, ast.Tuple) and len(g.target.elts) == 2 and all(isinstance(x, ast.Name) for x in g.target.elts) and isinstance(e.key, ast.Name) and e.key.id == g.target.elts[0].id):
        raise ContractStale("from_partial no longer maps the provided (name, value) pairs to name -> converted value")
    m = src.m
    kk = z3.Const(fresh_name("fk"), m.kt.sort())
    sub = Frame(fr.modinfo, fr.qual, Env(fr.env), spec=fr.spec, cls=fr.cls)
    sub.env.set(g.target.elts[0].id, m.kt.wrap(kk))
    sub.env.set(g.target.elts[1].id, m.vt.wrap(m.get_term(kk)))
    vals, fails, axioms = interp.eval_exprs_on_element(cx, sub, None, None, [e.value], kk)
    if fails or axioms:
        raise Unsupported("value conversion may raise")
    res = SMap.fresh(m.kt, m.vt, "converted_fields")
    cx.assume(z3.ForAll([kk], z3.And(res.has(kk) == m.has(kk), z3.Implies(m.has(kk), res.get_term(kk) == m.vt.unwrap(cx, vals[0])))))
    return res


class FromPartial(FnSpec):
    file = "schema/partial.py"
    qual = "PartialModel.from_partial"
    props = ("C14",)

    def init(self):
        self.bindings["val_from_partial"] = lambda cx, v: DynVal(VFP(v.t))
        self.comps[0] = items_map_schema

    def setup(self, cx):
        from pyvc.containers import MapItems

        for ax in val_axioms():
            cx.assume(ax)
        me = SObj("PartialObj", name="self")
        provided = SMap.fresh(STR, TVal(), "provided_field_values")
        fac = SObj("FactoryStub", name="fac")
        fac.fields["_get_field_vals"] = lambda cx2, o: (MapItems(provided) if o is me else (_ for _ in ()).throw(Unsupported("values of another object")))
        me.fields["__partial_fac__"] = fac

        class Src(SVal):
            def meth_parse_obj(s, cx2, d):
                return ("parse_obj", d)

        me.fields["__partial_src__"] = Src()
        a = A(self=me)
        a.provided = provided
        return a

    def raises(self, cx, a):
        return {}

    def ensures(self, cx, a, res):
        ok = isinstance(res, tuple) and res[0] == "parse_obj" and isinstance(res[1], SMap)
        if not ok:
            return [("validated-by-the-source-model", z3.BoolVal(False), "")]
        d = res[1]
        k = z3.String(fresh_name("pk"))
        return [("every-provided-value-reaches-validation-converted", z3.ForAll([k], z3.And(d.has(k) == a.provided.has(k), z3.Implies(d.has(k), d.get_term(k) == VFP(a.provided.get_term(k))))), "the complete model is validated from EVERY value the partial provides (nested partials converted back recursively), and from nothing else")]


class MergeTok(SVal):
    def __init__(self, *desc):
        self.desc = desc

    def py_truth(self, cx):
        return True


class CastedTok(MergeTok):
    def meth_merge_with(self, cx, y, **kw):
        return MergeTok("merge_with", self, y, tuple(sorted(kw.items())))


class MergeCls(SVal):
    def py_call(self, cx, *a, **kw):
        return MergeTok("empty-partial") if not a and not kw else (_ for _ in ()).throw(Unsupported("cls(...)"))

    def meth_cast(self, cx, x, **kw):
        return CastedTok("cast", x) if not kw else (_ for _ in ()).throw(Unsupported("cast with options"))


class MergeFold(FnSpec):
    file = "schema/partial.py"
    qual = "PartialModel.merge"
    props = ("C14",)

    def init(self):
        self.bindings["reduce"] = lambda cx, f, xs: MergeTok("left-fold", f, xs)

    def setup(self, cx):
        from pyvc.engine import KwDict

        empty = cx.choose(2) == 0
        flags = [{}, {"ignore_invalid": True}, {"allow_overwrite": True}, {"ignore_invalid": True, "allow_overwrite": True}][cx.choose(4)]
        objs = () if empty else (MergeTok("o1"), MergeTok("o2"), MergeTok("o3"))
        a = A(cls=MergeCls(), __varargs__=list(objs), __kwargs__=dict(flags))
        a.empty, a.flags, a.objs = empty, flags, objs
        return a

    def raises(self, cx, a):
        return {}

    def ensures(self, cx, a, res):
        if a.empty:
            return [("no-operands-give-the-empty-partial", z3.BoolVal(isinstance(res, MergeTok) and res.desc == ("empty-partial",)), "merging nothing gives the empty partial (the identity of merging)")]
        ok = isinstance(res, CastedTok) and res.desc[0] == "cast" and isinstance(res.desc[1], MergeTok) and res.desc[1].desc[0] == "left-fold" and tuple(res.desc[1].desc[2]) == tuple(a.objs)
        return [("left-fold-of-all-operands-in-order", z3.BoolVal(bool(ok)), "merge(o1, ..., on) is the left fold ((o1 + o2) + ...) + on over ALL operands in the given order, cast to this partial class")]


class MergeTwo(FnSpec):
    file = "schema/partial.py"
    qual = "PartialModel.merge.<locals>.merge_two"
    props = ("C14",)

    def setup(self, cx):
        ii, ao = bool(cx.choose(2)), bool(cx.choose(2))
        self.bindings["cls"] = MergeCls()
        self.bindings["ignore_invalid"], self.bindings["allow_overwrite"] = ii, ao
        a = A(x=MergeTok("x"), y=MergeTok("y"))
        a.ii, a.ao = ii, ao
        return a

    def raises(self, cx, a):
        return {}

    def ensures(self, cx, a, res):
        ok = isinstance(res, MergeTok) and res.desc[0] == "merge_with" and isinstance(res.desc[1], CastedTok) and res.desc[1].desc[1] is a.x and res.desc[2] is a.y and dict(res.desc[3]) == {"ignore_invalid": a.ii, "allow_overwrite": a.ao}
        return [("left-operand-cast-then-merged-with-the-right-under-the-callers-flags", z3.BoolVal(bool(ok)), "each fold step is cast(x).merge_with(y) with exactly the caller's ignore_invalid / allow_overwrite (so overwrite permission is never granted silently)")]


def pairs_filter(interp, cx, fr, e):
    """`((k, v) for k, v in MAP.items() if P(k, v))` read as the sub-map of MAP (order is irrelevant to the callers)"""
    import ast

    from pyvc.api import ContractStale, dict_items_filter

    if not (isinstance(e, ast.GeneratorExp) and isinstance(e.elt, ast.Tuple) and len(e.elt.elts) == 2 and all(isinstance(x, ast.Name) for x in e.elt.elts)):
        raise ContractStale("_get_field_vals no longer yields (name, value) pairs of the iterated items")
    dc = ast.DictComp(key=e.elt.elts[0], value=e.elt.elts[1], generators=e.generators)
    ast.copy_location(dc, e)
    return dict_items_filter(interp, cx, fr, dc)


def model_copy(cx, obj, **kw):
    new = ModelObj(obj.cls, name="copy_of_" + obj.name)
    new.fields["__dict__"] = obj.fields["__dict__"].snapshot()  # T5: own field dict, same values
    return new


def lemma_monoid():
    """Spec-level laws of the field merge for the non-recursive cases (None / list / set / opaque with overwrite)."""
    x, y, z = (z3.Const(n, Val) for n in "xyz")
    ow = z3.Bool("ow")
    ax = val_axioms()
    a, b, c = (z3.Const(n, Val) for n in "abc")
    list_ax = [
        z3.ForAll([a, b], z3.Implies(z3.And(KIND(a) == LIST, KIND(b) == LIST), KIND(LCAT(a, b)) == LIST)),
        z3.ForAll([a, b, c], LCAT(LCAT(a, b), c) == LCAT(a, LCAT(b, c))),  # T4: list concatenation is associative
        z3.ForAll([a, b], z3.Implies(z3.And(KIND(a) == SET, KIND(b) == SET), KIND(SUNION(a, b)) == SET)),
        z3.ForAll([a, b, c], SUNION(SUNION(a, b), c) == SUNION(a, SUNION(b, c))),  # T4: set union is associative
    ]
    _, m_nx = m_spec(NONE_T, x, ow)
    _, m_xn = m_spec(x, NONE_T, ow)
    yield "left-identity", ax, m_nx == x
    yield "right-identity", ax, m_xn == x
    r_nx, _ = m_spec(NONE_T, x, ow)
    r_xn, _ = m_spec(x, NONE_T, ow)
    yield "identity-never-raises", ax, z3.And(z3.Not(r_nx), z3.Not(r_xn))
    simple = lambda v: z3.Or(KIND(v) == NONE, KIND(v) == LIST, KIND(v) == SET)  # noqa: E731
    samek = lambda u, v: z3.Or(KIND(u) == NONE, KIND(v) == NONE, KIND(u) == KIND(v))  # noqa: E731
    _, xy = m_spec(x, y, ow)
    _, yz = m_spec(y, z, ow)
    _, xy_z = m_spec(xy, z, ow)
    _, x_yz = m_spec(x, yz, ow)
    yield "associative:none-list-set", ax + list_ax + [simple(x), simple(y), simple(z), samek(x, y), samek(y, z), samek(x, z)], xy_z == x_yz
    opq = lambda v: KIND(v) == 4  # noqa: E731
    yield "associative:opaque-with-overwrite(later wins)", ax + [opq(x), opq(y), opq(z), ow], z3.And(xy_z == x_yz, xy_z == z)


# ---- the two small recursive helpers: _nested_partial, val_from_partial ------------------------------------------------------------------------------------------
class NestedPartialBody(FnSpec):
    file = "schema/partial.py"
    qual = "PartialModel._nested_partial"
    props = ("C14",)

    def init(self):
        self.bindings["PartialModel"] = SClass("PartialModel")
        self.bindings["type"] = lambda cx, o: ("type-of", o)

    def setup(self, cx):
        is_partial = cx.choose(2) == 1

        class Val(SVal):
            def py_isinstance(s, cx2, c):
                if c == "PartialModel":
                    return is_partial
                raise Unsupported("isinstance against " + str(c))

        class PartialOf(SVal):
            def __init__(s, t):
                s.t = t

            def meth_cast(s, cx2, v):
                cx2.effect("cast", s.t, v)
                return ("cast-result", s.t, v)

        class Fac(SVal):
            def meth_get_partial(s, cx2, t):
                cx2.effect("get_partial", t)
                return PartialOf(t)

        me = SObj("PartialModelObj", name="self")
        me.fields["__partial_fac__"] = Fac()
        a = A(self=me, val=Val())
        a.is_partial = is_partial
        return a

    def raises(self, cx, a):
        return {}

    def ensures(self, cx, a, res):
        if a.is_partial:
            return [("a-partial-is-kept-as-it-is", z3.BoolVal(res is a.val and not cx.fx), "a value that already is a partial is merged as it is (no copy, no re-parsing)")]
        fx = [e[:-1] for e in cx.fx]
        ok = len(fx) == 2 and fx[0] == ("get_partial", ("type-of", a.val)) and fx[1][0] == "cast" and fx[1][2] is a.val and res == ("cast-result", ("type-of", a.val), a.val)
        return [("a-full-model-is-cast-into-the-partial-of-its-own-class", z3.BoolVal(bool(ok)), "a nested full model is converted by the partial class of ITS OWN type (get_partial(type(val)).cast(val)), from this model's factory")]


class ValFromPartial(FnSpec):
    file = "schema/partial.py"
    qual = "val_from_partial"
    props = ("C14",)
    recursive = True

    def init(self):
        self.bindings["PartialModel"] = SClass("PartialModel")
        self.bindings["list"] = SClass("list")
        self.bindings["set"] = SClass("set")

        def elementwise(interp, cx, fr, e):
            import ast

            from pyvc.engine import Env, Frame

            if len(e.generators) != 1 or e.generators[0].ifs or not isinstance(e.generators[0].target, ast.Name):
                return NotImplemented
            src = interp.eval(cx, fr, e.generators[0].iter)
            if not isinstance(src, VfpVal):
                return NotImplemented
            sub = Frame(fr.modinfo, fr.qual, Env(fr.env), spec=fr.spec, cls=fr.cls)
            elem = VfpVal("element", of=src)
            sub.env.set(e.generators[0].target.id, elem)
            out = interp.eval(cx, sub, e.elt)
            return ("each-element", "list" if isinstance(e, ast.ListComp) else "set", src, out, elem)

        self.comps[0] = elementwise

    def setup(self, cx):
        kind = ["partial", "list", "set", "other"][cx.choose(4)]
        a = A(val=VfpVal(kind))
        a.kind = kind
        return a

    def raises(self, cx, a):
        return {}

    def ensures(self, cx, a, res):
        v = a.val
        if a.kind == "partial":
            return [("a-partial-becomes-its-full-model", z3.BoolVal(res == ("from_partial", v)), "")]
        if a.kind == "other":
            return [("anything-else-is-kept", z3.BoolVal(res is v), "")]
        ok = isinstance(res, tuple) and res[0] == "each-element" and res[1] == a.kind and res[2] is v and res[3] == ("val_from_partial", res[4])
        return [("collections-keep-their-kind-and-convert-every-element", z3.BoolVal(bool(ok)), "a list stays a list and a set a set, with every element converted recursively (nested partials inside collections are not left behind)")]

    # the recursive call on an element: by contract
    def apply(self, cx, a):
        return ("val_from_partial", a.val)


class VfpVal(SVal):
    def __init__(self, kind, of=None):
        self.kind, self.of = kind, of

    def py_isinstance(self, cx, c):
        if self.kind == "element":
            raise Unsupported("the element is only handed to the recursive call")
        return {"PartialModel": self.kind == "partial", "list": self.kind == "list", "set": self.kind == "set"}[c if isinstance(c, str) else c.name]

    def meth_from_partial(self, cx):
        return ("from_partial", self)


def build(reg):
    reg.set_class_home("PartialModel", "schema/partial.py")
    reg.attr_bindings[("PartialModel", "__partial_fac__")] = lambda cx, o: SObj("PartialFactory", name="factory")
    reg.attr_bindings[("PartialFactory", "base_model")] = lambda cx, o: SClass("BaseModelOfFactory")
    reg.method_bindings[("PartialModel", "_nested_partial")] = nested_partial
    reg.method_bindings[("PartialFactory", "_get_field_vals")] = get_field_vals
    reg.method_bindings[("PartialModel", "copy")] = model_copy
    reg.method_bindings[("PartialModel", "cast")] = lambda cx, me, obj, **kw: obj  # cast of an instance of the same partial class is the identity (T5)
    from pyvc.containers import MapItems

    reg.set_class_home("PartialSchemas", "schema/core.py")
    reg.method_bindings[("PartialSchemas", "super._get_field_vals")] = lambda cx, me, obj: MapItems(cx.ghost["sgfv"].base)  # PartialFactory._get_field_vals: its own contract (GetFieldVals)
    specs = [UpdateField(), MergeWith(), GetFieldVals(), SchemaGetFieldVals(), ToPartial(), CastSpec(), FromPartial(), MergeFold(), MergeTwo()]
    for s in specs:
        reg.add(s)
    reg.set_class_home("PartialModelObj", "schema/partial.py", "PartialModel")
    vfp = ValFromPartial()
    reg.add(vfp)  # (its recursive call is resolved through the registry; from_partial keeps its own binding for it)
    from . import oneliners, schemachecks

    specs = specs + oneliners.add_oneliners(reg, props=("C14",)) + [schemachecks.CheckAllowedTypes()]
    specs = specs + [NestedPartialBody(), vfp, GetPartial()]  # _nested_partial: body verified on its own (callers keep the binding above)
    return {
        "verify": specs,
        "lemmas": [("field-merge-monoid", lemma_monoid)],
        "trusted": [T5, T5_DICT, "T4 list concatenation and set union are associative (used only in the lemma)"],
        "assumptions": ["field values are abstracted to kinds None/list/set/model/other; `get_partial(type(v)).cast(v)` and nested merge_with are uninterpreted functions (the recursion is handled by merge_with's own contract)", "precondition: the two values of one field have the same kind unless one is None (type-consistent partials of one schema)"],
    }


# ---- PartialFactory.get_partial: one partial class per MODEL CLASS (identity), created once ------------------------------------------------------------------
class PartialTok(SVal):
    def __init__(self, origin):
        self.origin = origin  # "cached-for-this-class" | "created-for-this-class" | "filed-under-the-same-NAME"

    def py_truth(self, cx):
        return True

    def meth_update_forward_refs(self, cx, **kw):
        cx.effect("resolve-forward-refs", self.origin, kw.get("__symbolic_kwargs__"))


class GetPartial(FnSpec):
    file = "schema/partial.py"
    qual = "PartialFactory.get_partial"
    props = ("C14",)

    def init(self):
        from pyvc.api import LoopSpec

        self.loops[0] = LoopSpec(lambda cx, env, it: [], modifies=["model"])

    def setup(self, cx):
        from pyvc.containers import SeqIter
        from pyvc.values import SMaybe

        first_use = z3.Bool("first_use_of_this_factory")
        cached = z3.Bool("a_partial_is_cached_for_this_very_class")
        name_taken = z3.Bool("another_class_of_the_same_module_and_name_has_a_partial")

        class Inner(SVal):
            as_kwargs = True

            def __init__(s, kind):
                s.kind = kind

            def meth_get(s, cx2, k, d=None):
                if s.kind == "partials":
                    if k is not a.mcls:
                        raise Unsupported("lookup of another class")
                    return SMaybe(z3.Not(cached), PartialTok("cached-for-this-class"))
                return SMaybe(z3.Not(name_taken), PartialTok("filed-under-the-same-NAME"))

            def py_setitem(s, cx2, k, v):
                cx2.effect("store", s.kind, k, v)

            def py_getitem(s, cx2, k):
                return s.meth_get(cx2, k)

        class Outer(SVal):
            def __init__(s, kind):
                s.kind, s.inner = kind, Inner(kind)

            def py_contains(s, cx2, k):
                return SBool(z3.Not(first_use))

            def py_setitem(s, cx2, k, v):
                cx2.effect("init-factory-table", s.kind)

            def py_getitem(s, cx2, k):
                return s.inner

        class Nested(SVal):
            n = z3.Int("number_of_nested_models")

            def at(s, i):
                return ("nested-model", i)

            def py_iter_schema(s, cx2):
                return SeqIter(s)

        class Mcls(SVal):
            def meth_update_forward_refs(s, cx2, **kw):
                cx2.effect("model-forward-refs")

        class Factory(SVal):
            def meth__create_partial(s, cx2, m, typehints=None):
                cx2.effect("create", m, typehints)
                return (PartialTok("created-for-this-class"), Nested())

            def meth__partial_forwardref_name(s, cx2, m):
                return ("forwardref-name-of", m)

            def meth_get_partial(s, cx2, m):
                cx2.effect("nested-partial", m)

        self.bindings["_partials"], self.bindings["_forwardrefs"] = Outer("partials"), Outer("forwardrefs")
        a = A(cls=Factory(), mcls=Mcls(), typehints="the-typehints")
        a.cached = cached
        cx.assume(Nested.n >= 0)
        return a

    def raises(self, cx, a):
        return {}

    def ensures(self, cx, a, res):
        fx = [e[:-1] for e in cx.fx]
        created = [e for e in fx if e[0] == "create"]
        stores = [e for e in fx if e[0] == "store"]
        from pyvc.values import SMaybe

        if isinstance(res, SMaybe):  # (a value that was tested for truth on the way)
            res = res.val
        ok_tok = isinstance(res, PartialTok)
        if not ok_tok:
            return [("a-partial-class", z3.BoolVal(False), "")]
        if res.origin == "cached-for-this-class":
            return [("a-cached-partial-is-the-one-of-this-very-class-and-nothing-is-created", z3.And(a.cached, z3.BoolVal(not created and not stores)), "a partial is reused only when it was made for this very model class (looked up by the class object)")]
        ok = res.origin == "created-for-this-class" and len(created) == 1 and created[0][1] is a.mcls and created[0][2] == "the-typehints"
        filed = [e for e in stores if e[1] == "partials" and e[2] is a.mcls and e[3] is res] and [e for e in stores if e[1] == "forwardrefs" and e[2] == ("forwardref-name-of", a.mcls) and e[3] is res]
        blocked = bool(stores) and stores[0][1:] == ("partials", a.mcls, None)
        return [
            ("otherwise-a-partial-created-for-this-class", z3.And(z3.Not(a.cached), z3.BoolVal(bool(ok))), "a class without a cached partial gets one created FOR IT — never the partial of another class that merely has the same module and name (generated classes, version-unspecified plugin handles)"),
            ("spot-blocked-first-then-filed-under-class-and-name", z3.BoolVal(bool(blocked and filed)), "the slot is blocked before creation (recursive models) and the result is filed under the class and under its forward-reference name"),
        ]
