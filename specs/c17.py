"""C17 — embedded file bytes and file metadata are exact (P-tier: hashing kernel)."""
from . import findfiles, hashing, overlay, ovlread, packer


def build(reg):
    specs = packer.add_packer(reg)  # (registers the hashing kernel as well)
    specs = [reg.specs[k] for k in reg.specs if k[1] in ("hashsum", "qualified_hashsum", "file_hashsum", "hashsum_file")] + specs
    # IH5 driver: what a copy copies and what counts as a deletion marker (embedded bytes must neither be taken from another node nor vanish)
    specs = specs + [x for x in overlay.add_writers(reg) + overlay.add_copy_move(reg) if "C17" in x.props or x.qual in ("IH5Group.copy", "IH5Group.move")]
    specs = specs + [x for x in ovlread.add_ovlread(reg) if 'C17' in x.props]  # the one value that cannot be stored is refused
    specs = specs + overlay.add_overlay(reg)  # which container's node a path resolves to (a re-embedded file must not read back an older version's bytes)
    specs = specs + findfiles.add_findfiles(reg)  # 'after patches and reopen': reopening by name sees EVERY container of the chain (a file embedded in patch 10 is not lost)
    return {"verify": specs, "lemmas": [], "trusted": hashing.TRUSTED + [overlay.T1_READ, overlay.T1_WRITE, overlay.T_NUMPY] + packer.T_PACK + findfiles.T_FIND, "assumptions": ["bytes modelled as z3 strings over code points 0..255"]}
