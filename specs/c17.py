"""C17 — embedded file bytes and file metadata are exact (P-tier: hashing kernel)."""
from . import hashing


def build(reg):
    specs = hashing.add_all(reg)
    return {"verify": specs, "lemmas": [], "trusted": hashing.TRUSTED, "assumptions": ["bytes modelled as z3 strings over code points 0..255"]}
