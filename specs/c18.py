"""C18 — directory diffs are exact (P-tier: DiffNode.compare one-level contract with frames, DiffNode.status)."""
from __future__ import annotations

import z3

from pyvc.api import A, FnSpec, LoopSpec
from pyvc.containers import STR, ClassDecl, SMap, SRef, SSet, SetIter, TMap, TRef
from pyvc.engine import SClass
from pyvc.values import SBool, SMaybe, SStr, STuple, SVal, Unsupported, as_bool, fresh_name

Tree = z3.DeclareSort("Tree")  # DirHashsums value: None | str (file hash / symlink) | dict name -> Tree
PathS = z3.DeclareSort("PathS")
Ref = z3.DeclareSort("Ref")
I, S, B = z3.IntSort(), z3.StringSort(), z3.BoolSort()
TK = z3.Function("tree_kind", Tree, I)  # 0 None, 1 str, 2 dict
SV = z3.Function("tree_str", Tree, S)
HK = z3.Function("tree_has_key", Tree, S, B)
CH = z3.Function("tree_child", Tree, S, Tree)
TEQ = z3.Function("tree_eq", Tree, Tree, B)  # python == on these values (deep equality)
PJ = z3.Function("path_join", PathS, S, PathS)  # path / name
PN = z3.Function("path_name", PathS, S)
PP = z3.Function("path_parent", PathS, PathS)
NONE_TREE = z3.Const("tree_None", Tree)
NONEMPTY = z3.Function("tree_has_some_key", Tree, B)  # definition: exists k. HK(t, k); WITKEY is its witness
WITKEY = z3.Function("tree_some_key", Tree, S)

T2_PATH = "T2 pathlib: (p / k).name == k and (p / k).parent == p for single-segment names k (so `/` is injective in both arguments)"
T5_MODEL = "T5 pydantic: cls(path=, prev=, curr=) allocates a new object holding exactly these values and fresh empty dicts for the defaulted dict fields"


def axioms(light=False):
    """light: only the facts about kinds (for contracts that neither look into directories nor compare trees).  Every model of the light
    axioms extends to a model of all of them (take HK(t, k) := NONEMPTY(t) and k == WITKEY(t), children any non-None tree), so a
    refutation found under them is a refutation under all."""
    t, u = z3.Consts("ax_t ax_u", Tree)
    k = z3.String("ax_k")
    p = z3.Const("ax_p", PathS)
    kinds = [
        TK(NONE_TREE) == 0,
        z3.ForAll([t], z3.And(TK(t) >= 0, TK(t) <= 2)),
        z3.ForAll([t], z3.Implies(NONEMPTY(t), TK(t) == 2)),
    ]
    if light:
        return kinds
    return kinds + [
        z3.ForAll([t, k], z3.Implies(HK(t, k), z3.And(TK(t) == 2, TK(CH(t, k)) >= 1))),  # wf: only dicts have entries; entries are never None
        z3.ForAll([t, k], z3.Implies(HK(t, k), NONEMPTY(t))),
        z3.ForAll([t], z3.Implies(NONEMPTY(t), HK(t, WITKEY(t)))),
        z3.ForAll([t, u], TEQ(t, u) == z3.And(TK(t) == TK(u), z3.Implies(TK(t) == 1, SV(t) == SV(u)), z3.Implies(TK(t) == 2, z3.ForAll([k], z3.And(HK(t, k) == HK(u, k), z3.Implies(HK(t, k), TEQ(CH(t, k), CH(u, k)))))))),
        z3.ForAll([p, k], z3.And(PN(PJ(p, k)) == k, PP(PJ(p, k)) == p)),
    ]


class TTree:
    def sort(self):
        return Tree

    def wrap(self, t):
        return TreeVal(t)

    def unwrap(self, cx, v):
        if v is None:
            return NONE_TREE
        if isinstance(v, TreeVal):
            return v.t
        raise Unsupported(f"not a tree value: {v!r}")


class TP:
    def sort(self):
        return PathS

    def wrap(self, t):
        return PathV(t)

    def unwrap(self, cx, v):
        if isinstance(v, PathV):
            return v.t
        raise Unsupported(f"not a path: {v!r}")


class PathV(SVal):
    def __init__(self, t):
        self.t = t

    def py_truth(self, cx):
        return True

    def py_truediv(self, cx, k):
        return PathV(PJ(self.t, k.t if isinstance(k, SStr) else z3.StringVal(k)))

    def py_eq(self, cx, o):
        return isinstance(o, PathV) and self.t == o.t

    def type_desc(self):
        return TP()


class TreeVal(SVal):
    def __init__(self, t):
        self.t = t

    def py_is_none(self, cx):
        return TK(self.t) == 0

    def py_truth(self, cx):
        return z3.If(TK(self.t) == 0, False, z3.If(TK(self.t) == 1, z3.Length(SV(self.t)) > 0, NONEMPTY(self.t)))

    def meth_find(self, cx, sub):
        return SStr(SV(self.t)).py_call_method(cx, "find", [sub], {})

    def meth_startswith(self, cx, sub):
        return SStr(SV(self.t)).py_call_method(cx, "startswith", [sub], {})

    def py_isinstance(self, cx, c):
        if c == "dict":
            return TK(self.t) == 2
        if c == "str":
            return TK(self.t) == 1
        return c == "object"

    def py_eq(self, cx, o):
        if o is None:
            return TK(self.t) == 0
        if isinstance(o, TreeVal):
            return TEQ(self.t, o.t)
        return False

    def _keys_dom(self):
        k = z3.String(fresh_name("lk"))
        return z3.Lambda([k], HK(self.t, k))

    def meth_items(self, cx):
        me = self

        class _It(SVal):
            def py_iter_schema(s, cx2):
                return SetIter(STR, me._keys_dom(), lambda kt: STuple((SStr(kt), TreeVal(CH(me.t, kt)))))

        return _It()

    def meth_keys(self, cx):
        return SSet(STR, self._keys_dom())

    def py_getitem(self, cx, k):
        kt = k.t if isinstance(k, SStr) else z3.StringVal(k)
        cx.decide_or_fail(HK(self.t, kt), "KeyError", "missing directory entry")
        return TreeVal(CH(self.t, kt))

    def type_desc(self):
        return TTree()


NODE = TRef("DiffNode")
NMAP = TMap(TP(), NODE)
ClassDecl("DiffNode", {"path": TP(), "prev": TTree(), "curr": TTree(), "added": NMAP, "removed": NMAP, "modified": NMAP})
FIELDS = ["path", "prev", "curr", "added", "removed", "modified"]
FT = {"path": TP(), "prev": TTree(), "curr": TTree(), "added": NMAP, "removed": NMAP, "modified": NMAP}


def H(cx, f):
    return cx.heap_array("DiffNode." + f, FT[f])


def alloc(cx):
    if "alloc" not in cx.ghost:
        cx.ghost["alloc"] = z3.Const("ALLOC0", z3.ArraySort(Ref, B))
    return cx.ghost["alloc"]


ALLOC0 = z3.Const("ALLOC0", z3.ArraySort(Ref, B))


def H0(f):
    return z3.Const("H0_DiffNode." + f, z3.ArraySort(Ref, FT[f].sort()))


def fld(cx, r, f):
    return z3.Select(H(cx, f), r)


def mdom(cx, r, f):
    return NMAP.f_dom(fld(cx, r, f))


def mval(cx, r, f):
    return NMAP.f_val(fld(cx, r, f))


def tree_t(v):
    return NONE_TREE if v is None else v.t


def node_ctor(cx, **kw):
    """DiffNode(path=, prev=, curr=): T5_MODEL"""
    r = SRef.fresh("DiffNode", "node")
    al = alloc(cx)
    cx.assume(z3.Not(z3.Select(al, r.t)))
    empty = NMAP.mk(z3.K(PathS, z3.BoolVal(False)), z3.Const(fresh_name("empty_val"), z3.ArraySort(PathS, Ref)))
    vals = {"path": kw["path"].t, "prev": tree_t(kw["prev"]), "curr": tree_t(kw["curr"]), "added": empty, "removed": empty, "modified": empty}
    for f in FIELDS:
        cx.heap["DiffNode." + f] = z3.Store(H(cx, f), r.t, vals[f])
    cx.ghost["alloc"] = z3.Store(al, r.t, z3.BoolVal(True))
    return r


def want_dom(kind, prev, curr, path, q):
    """Which child paths q a diff node for (prev, curr) at `path` lists under added / removed / modified (from the property)."""
    k = PN(q)
    at = q == PJ(path, k)
    pd, cd = TK(prev) == 2, TK(curr) == 2
    if kind == "added":
        return z3.And(at, cd, HK(curr, k), z3.Not(z3.And(pd, HK(prev, k))))
    if kind == "removed":
        return z3.And(at, pd, HK(prev, k), z3.Not(z3.And(cd, HK(curr, k))))
    return z3.And(at, pd, cd, HK(prev, k), HK(curr, k), z3.Not(TEQ(CH(prev, k), CH(curr, k))))


def want_child(cx, kind, prev, curr, n, q):
    k = PN(q)
    base = z3.And(fld(cx, n, "path") == q)
    if kind == "added":
        return z3.And(base, TK(fld(cx, n, "prev")) == 0, fld(cx, n, "curr") == CH(curr, k))
    if kind == "removed":
        return z3.And(base, fld(cx, n, "prev") == CH(prev, k), TK(fld(cx, n, "curr")) == 0)
    return z3.And(base, fld(cx, n, "prev") == CH(prev, k), fld(cx, n, "curr") == CH(curr, k))


def map_complete(cx, kind, r, prev, curr, path, al, tag):
    """the `kind` map of node r is exactly what the property demands (domain and per-child triples)"""
    q = z3.Const(fresh_name(tag + "_q"), PathS)
    k = z3.String(fresh_name(tag + "_k"))
    n = z3.Select(mval(cx, r, kind), q)
    main = z3.ForAll([q], z3.And(z3.Select(mdom(cx, r, kind), q) == want_dom(kind, prev, curr, path, q), z3.Implies(z3.Select(mdom(cx, r, kind), q), z3.And(z3.Select(al, n), want_child(cx, kind, prev, curr, n, q)))))
    # the same domain statement indexed by the entry name (instance q := path/k; helps instantiation)
    by_name = z3.ForAll([k], z3.Select(mdom(cx, r, kind), PJ(path, k)) == want_dom(kind, prev, curr, path, PJ(path, k)), patterns=[PJ(path, k), HK(prev, k), HK(curr, k)])
    return z3.And(main, by_name)


def map_empty(cx, kind, r, tag):
    q = z3.Const(fresh_name(tag + "_q"), PathS)
    return z3.ForAll([q], z3.Not(z3.Select(mdom(cx, r, kind), q)))


def frame(cx, tag):
    """objects allocated at function entry are not modified"""
    x = z3.Const(fresh_name(tag + "_x"), Ref)
    return z3.ForAll([x], z3.Implies(z3.Select(ALLOC0, x), z3.And(*[z3.Select(H(cx, f), x) == z3.Select(H0(f), x) for f in FIELDS])))


def alloc_mono(cx, before, after, tag):
    x = z3.Const(fresh_name(tag + "_x"), Ref)
    return z3.ForAll([x], z3.Implies(z3.Select(before, x), z3.Select(after, x)))


class Compare(FnSpec):
    file = "util/diff.py"
    qual = "DiffNode.compare"
    props = ("C18",)
    recursive = True

    def init(self):
        heap_keys = ["DiffNode." + f for f in FIELDS]
        heap_types = {"DiffNode." + f: FT[f] for f in FIELDS}

        def mk(kind, keycond, done_before):
            """loop filling ret.<kind>: processed keys are listed with the right child triple; the rest as at loop entry"""

            def inv(cx, env, it):
                a = cx.ghost["cmp_args"]
                ret = env["ret"].t
                prev, curr, path = tree_t(a.prev), tree_t(a.curr), a.path.t
                al = alloc(cx)
                q = z3.Const(fresh_name("iq"), PathS)
                n = z3.Select(mval(cx, ret, kind), q)
                P = it.processed
                dom_now = z3.And(want_dom(kind, prev, curr, path, q), z3.Select(P, PN(q)))
                parts = [
                    ("frame", frame(cx, "if")),
                    ("alloc", z3.And(alloc_mono(cx, ALLOC0, al, "ia"), z3.Select(al, ret), z3.Not(z3.Select(ALLOC0, ret)))),
                    ("ret-fields", z3.And(fld(cx, ret, "path") == path, fld(cx, ret, "prev") == prev, fld(cx, ret, "curr") == curr)),
                    ("filled-so-far", z3.ForAll([q], z3.And(z3.Select(mdom(cx, ret, kind), q) == dom_now, z3.Implies(z3.Select(mdom(cx, ret, kind), q), z3.And(z3.Select(al, n), n != ret, want_child(cx, kind, prev, curr, n, q)))))),
                ]
                for other in ("added", "removed", "modified"):
                    if other == kind:
                        continue
                    if other in done_before:
                        parts.append((f"{other}-complete", map_complete(cx, other, ret, prev, curr, path, al, "ic")))
                    else:
                        parts.append((f"{other}-empty", map_empty(cx, other, ret, "ie")))
                return parts

            def on_havoc(cx):
                cx.ghost["alloc"] = z3.Const(fresh_name("alloc_h"), z3.ArraySort(Ref, B))

            ls = LoopSpec(inv, modifies=["k", "v", "kpath", "d", "diff"], havoc_heap=heap_keys, heap_types=heap_types)
            ls.on_havoc = on_havoc
            return ls

        self.loops[("iter", "curr.items()")] = mk("added", None, [])
        self.loops[("iter", "prev.items()")] = mk("removed", None, [])
        self.loops[("iter", "added")] = mk("added", None, [])
        self.loops[("iter", "removed")] = mk("removed", None, ["added"])
        self.loops[("iter", "intersection")] = mk("modified", None, ["added", "removed"])

    def setup(self, cx):
        for ax in axioms():
            cx.assume(ax)
        a = A(cls=SClass("DiffNode"), prev=TreeVal(z3.Const("prev", Tree)), curr=TreeVal(z3.Const("curr", Tree)), path=PathV(z3.Const("path", PathS)))
        cx.ghost["cmp_args"] = a
        alloc(cx)
        return a

    def post(self, cx, a, r, al, tag):
        prev, curr, path = tree_t(a.prev), tree_t(a.curr), a.path.t
        return [
            ("root-triple", z3.And(fld(cx, r, "path") == path, fld(cx, r, "prev") == prev, fld(cx, r, "curr") == curr), "each reported node carries its path and the old and new entry"),
            ("added-exact", map_complete(cx, "added", r, prev, curr, path, al, tag), "exactly the names that exist only in the new tree are reported as added (with old entry None and the new entry)"),
            ("removed-exact", map_complete(cx, "removed", r, prev, curr, path, al, tag), "exactly the names that exist only in the old tree are reported as removed"),
            ("modified-exact", map_complete(cx, "modified", r, prev, curr, path, al, tag), "exactly the common names whose entries differ are reported as modified; unchanged names are not reported"),
        ]

    def ensures(self, cx, a, res):
        prev, curr = tree_t(a.prev), tree_t(a.curr)
        al = alloc(cx)
        out = [("frame", frame(cx, "ef"), "comparing creates new diff nodes only; existing objects are untouched")]
        if res is None:
            return out + [("no-diff-only-if-equal", TEQ(prev, curr), "no difference is reported only when the snapshots are equal")]
        if not isinstance(res, SRef):
            return [("result-shape", z3.BoolVal(False), "returns a DiffNode or None")]
        r = res.t
        out.append(("diff-only-if-different", z3.Not(TEQ(prev, curr)), "a difference is reported only when the snapshots differ"))
        out.append(("fresh-node", z3.And(z3.Not(z3.Select(ALLOC0, r)), z3.Select(al, r)), "the reported node is new"))
        return out + self.post(cx, a, r, al, "ep")

    # callee side (recursive calls use the contract)
    def bind_call(self, interp, cx, f, args, kwargs):
        a = FnSpec.bind_call(self, interp, cx, f, args, kwargs)
        for k in ("prev", "curr"):
            if a[k] is None:
                a[k] = TreeVal(NONE_TREE)
        return a

    def effects(self, cx, a):
        before_al = alloc(cx)
        before_h = {f: H(cx, f) for f in FIELDS}
        new_al = z3.Const(fresh_name("alloc_c"), z3.ArraySort(Ref, B))
        x = z3.Const(fresh_name("cx_x"), Ref)
        for f in FIELDS:
            cx.heap["DiffNode." + f] = z3.Const(fresh_name("Hc_" + f), z3.ArraySort(Ref, FT[f].sort()))
        cx.ghost["alloc"] = new_al
        cx.assume(z3.ForAll([x], z3.Implies(z3.Select(before_al, x), z3.And(z3.Select(new_al, x), *[z3.Select(H(cx, f), x) == z3.Select(before_h[f], x) for f in FIELDS]))))
        a._before_al = before_al

    def result(self, cx, a):
        prev, curr = tree_t(a.prev), tree_t(a.curr)
        r = SRef.fresh("DiffNode", "sub")
        return SMaybe(TEQ(prev, curr), r)

    def apply(self, cx, a):
        self.effects(cx, a)
        res = self.result(cx, a)
        prev, curr = tree_t(a.prev), tree_t(a.curr)
        al = alloc(cx)
        r = res.val.t
        facts = [z3.Not(z3.Select(a._before_al, r)), z3.Select(al, r)] + [g for _, g, _ in self.post(cx, a, r, al, "cp")]
        cx.assume(z3.Implies(z3.Not(TEQ(prev, curr)), z3.And(*facts)))
        return res


class Status(FnSpec):
    file = "util/diff.py"
    qual = "DiffNode.status"
    props = ("C18",)

    def init(self):
        self.bindings["DiffNode"] = StatusNS()

    def setup(self, cx):
        for ax in axioms(light=True):
            cx.assume(ax)
        return A(self=SRef.fresh("DiffNode", "node"))

    def ensures(self, cx, a, res):
        r = a.self.t
        p, c = fld(cx, r, "prev"), fld(cx, r, "curr")
        name = res.name if isinstance(res, StatusVal) else None
        exp_added, exp_removed = TK(p) == 0, z3.And(TK(p) != 0, TK(c) == 0)
        return [
            ("added-iff-absent-before", z3.BoolVal(name == "added") == exp_added, "status added exactly when there was no old entry"),
            ("removed-iff-absent-after", z3.BoolVal(name == "removed") == exp_removed, "status removed exactly when there is no new entry"),
            ("else-modified", z3.BoolVal(name == "modified") == z3.And(z3.Not(exp_added), z3.Not(exp_removed)), "otherwise modified"),
        ]


class EntityType(FnSpec):
    file = "util/diff.py"
    qual = "DiffNode._type"
    props = ("C18",)

    def init(self):
        self.bindings["DiffNode"] = StatusNS()

    def setup(self, cx):
        for ax in axioms(light=True):
            cx.assume(ax)
        return A(self=SRef.fresh("DiffNode", "node"), entity=TreeVal(z3.Const("entity", Tree)))

    def ensures(self, cx, a, res):
        e = a.entity.t
        name = res.name if isinstance(res, StatusVal) else ("None" if res is None else "?")
        is_link = z3.And(TK(e) == 1, z3.PrefixOf(z3.StringVal("symlink:"), SV(e)))
        absent = z3.Or(TK(e) == 0, z3.And(TK(e) == 1, SV(e) == z3.StringVal("")))
        return [
            ("directory-iff-dict-also-when-empty", z3.BoolVal(name == "directory") == (TK(e) == 2), "every dict is a directory — an EMPTY directory is still a directory, not an absent entry"),
            ("absent-iff-none", z3.BoolVal(name == "None") == absent, "no type exactly for an absent entry"),
            ("symlink-iff-symlink-text", z3.BoolVal(name == "symlink") == is_link, "symlink exactly for 'symlink:<target>' leaves"),
            ("else-file", z3.BoolVal(name == "file") == z3.And(TK(e) == 1, z3.Not(is_link), SV(e) != z3.StringVal("")), "any other leaf is a file"),
        ]


ROOT_PATH = z3.Const("path_of_the_compared_directory", PathS)  # Path("")


class DirDiffCls(SVal):
    """the class object in DirDiff.compare: __new__ hands out a new, empty instance"""

    def meth___new__(self, cx, c):
        from pyvc.containers import SObj

        return SObj("DirDiff", name="ret")


class StatusCallee(Status):
    """DiffNode.status as seen by DirDiff.status: its contract, by cases"""

    def setup(self, cx):
        raise Unsupported("callee-only")


def status_by_contract(cx, node):
    p, c = fld(cx, node.t, "prev"), fld(cx, node.t, "curr")
    if cx.decide(TK(p) == 0):
        return StatusVal("added")
    if cx.decide(TK(c) == 0):
        return StatusVal("removed")
    return StatusVal("modified")


class DirDiffCompare(FnSpec):
    file = "util/diff.py"
    qual = "DirDiff.compare"
    props = ("C18",)

    def init(self):
        self.bindings["Path"] = lambda cx, s="": PathV(ROOT_PATH) if s == "" else (_ for _ in ()).throw(Unsupported("Path of a non-empty text"))

    def setup(self, cx):
        for ax in axioms():
            cx.assume(ax)
        a = A(cls=DirDiffCls(), prev=TreeVal(z3.Const("prev", Tree)), curr=TreeVal(z3.Const("curr", Tree)))
        alloc(cx)
        return a

    def ensures(self, cx, a, res):
        from pyvc.containers import SObj

        prev, curr = tree_t(a.prev), tree_t(a.curr)
        if not isinstance(res, SObj) or "_diff_root" not in res.fields:
            return [("result-shape", z3.BoolVal(False), "returns a DirDiff holding a root")]
        root = res.fields["_diff_root"]
        none_c = root.isnone if isinstance(root, SMaybe) else z3.BoolVal(root is None)
        out = [("empty-iff-equal", none_c == TEQ(prev, curr), "the diff is empty exactly when the two snapshots are equal")]
        r = root.val.t if isinstance(root, SMaybe) else (root.t if isinstance(root, SRef) else None)
        if r is None:
            return out
        al = alloc(cx)
        ca = A(prev=a.prev, curr=a.curr, path=PathV(ROOT_PATH))
        for nm, g, txt in Compare.post(Compare, cx, ca, r, al, "dd"):
            out.append(("root-" + nm, z3.Implies(z3.Not(none_c), g), "the root node is DiffNode.compare(prev, curr) at the empty path — " + txt))
        return out


class DirDiffStatus(FnSpec):
    file = "util/diff.py"
    qual = "DirDiff.status"
    props = ("C18",)

    def init(self):
        self.bindings["DiffNode"] = StatusNS()

    def setup(self, cx):
        from pyvc.containers import SObj

        node = None if cx.choose(2) == 0 else SRef.fresh("DiffNode", "node")
        return A(self=SObj("DirDiff", name="self"), node=node)

    def ensures(self, cx, a, res):
        name = res.name if isinstance(res, StatusVal) else None
        if a.node is None:
            return [("unchanged-for-no-node", z3.BoolVal(name == "unchanged"), "a path without a diff node is unchanged")]
        p, c = fld(cx, a.node.t, "prev"), fld(cx, a.node.t, "curr")
        exp_added, exp_removed = TK(p) == 0, z3.And(TK(p) != 0, TK(c) == 0)
        return [
            ("never-unchanged-for-a-node", z3.BoolVal(name != "unchanged" and name is not None), "a path with a diff node is never reported unchanged"),
            ("added-iff-absent-before", z3.BoolVal(name == "added") == exp_added, "status added exactly when there was no old entry"),
            ("removed-iff-absent-after", z3.BoolVal(name == "removed") == exp_removed, "status removed exactly when there is no new entry"),
        ]


class TypeProps(FnSpec):
    """prev_type / curr_type hand _type the right entity"""

    file = "util/diff.py"
    props = ("C18",)

    def __init__(self, which):
        self.which = which
        self.qual = f"DiffNode.{which}_type"
        FnSpec.__init__(self)

    def setup(self, cx):
        return A(self=SRef.fresh("DiffNode", "node"))

    def ensures(self, cx, a, res):
        want = fld(cx, a.self.t, self.which)
        got = res.t if isinstance(res, TypeOf) else None
        return [(f"type-of-the-{self.which}-entry", z3.BoolVal(False) if got is None else got == want, f"{self.which}_type is the type of the {self.which} entry (not of the other side)")]


class TypeOf(SVal):
    def __init__(self, t):
        self.t = t


# --- DirDiff.get: the walk along the prefixes of a relative path --------------------------------------------------------------
DEPTH = z3.Function("path_depth", PathS, I)  # number of segments; 0 for Path("")
ANC = z3.Function("path_prefix", PathS, I, PathS)  # the prefix with i segments
REACH = z3.Function("node_is_in_the_diff_tree", Ref, B)  # any predicate that holds the root and is closed under children (so also the least one: reachability)
T2_PREFIXES = "T2 pathlib: [p] + list(p.parents) lists the prefixes of a relative path p from p itself (DEPTH(p) segments) down to Path('') (0 segments); Path(p) of a path is p; is_absolute() is False for relative paths"
KINDS = ("removed", "modified", "added")


class PrefixList(SVal):
    """the python list [ANC(p, hi), ..., ANC(p, lo)] (pop() takes ANC(p, lo) from the end)"""

    def __init__(self, p, lo, hi):
        self.p, self.lo, self.hi = p, lo, hi

    def py_truth(self, cx):
        return self.lo <= self.hi

    def meth_pop(self, cx, *idx):
        if idx:
            raise Unsupported("list.pop(i)")
        cx.decide_or_fail(self.lo <= self.hi, "IndexError", "pop from empty list")
        v = GetPath(ANC(self.p, self.lo))
        self.lo = self.lo + 1
        return v

    def py_radd(self, cx, left):
        if not (isinstance(left, list) and len(left) == 1 and isinstance(left[0], PathV)):
            raise Unsupported("list + prefixes")
        if not cx.decide(left[0].t == ANC(self.p, self.hi + 1)):
            raise Unsupported("the prepended path is not the next longer prefix")
        return PrefixList(self.p, self.lo, self.hi + 1)

    def havoc_inplace(self, cx, hint="prefixes"):
        self.lo = z3.Int(fresh_name(hint + "_lo"))


class GetPath(PathV):
    def meth_is_absolute(self, cx):
        return False

    def py_getattr(self, cx, name):
        if name == "parents":
            return PrefixList(self.t, z3.IntVal(0), DEPTH(self.t) - 1)
        raise Unsupported("Path attribute " + name)

    def fresh_like(self, cx, name):
        return GetPath(z3.Const(fresh_name(name), PathS))


class ChildrenColl(SVal):
    """what DiffNode.children() yields: the values of the three dicts of the node (itertools.chain, T2)"""

    def __init__(self, c):
        self.c = c

    def none_satisfies(self, cx, pred):
        out = []
        for kind in KINDS:
            q = z3.Const(fresh_name("cq"), PathS)
            out.append(z3.ForAll([q], z3.Implies(z3.Select(mdom(cx, self.c, kind), q), z3.Not(pred(z3.Select(mval(cx, self.c, kind), q))))))
        return z3.And(*out)

    def is_member(self, cx, w):
        out = []
        for kind in KINDS:
            q = z3.Const(fresh_name("wq"), PathS)  # free: some key
            out.append(z3.And(z3.Select(mdom(cx, self.c, kind), q), z3.Select(mval(cx, self.c, kind), q) == w))
        return z3.Or(*out)


class Matches(SVal):
    """(x for x in <children> if <filter>) — consumed by next(..., default)"""

    def __init__(self, src, pred):
        self.src, self.pred = src, pred


def first_match_schema(interp, cx, fr, e):
    import ast

    from pyvc.engine import Env, Frame
    from pyvc.values import truth

    g = e.generators[0]
    if len(e.generators) != 1 or not (isinstance(e.elt, ast.Name) and isinstance(g.target, ast.Name) and e.elt.id == g.target.id):
        raise Unsupported("generator is not a plain filter of its source")
    src = interp.eval(cx, fr, g.iter)
    if not isinstance(src, ChildrenColl):
        raise Unsupported("generator source is not node.children()")

    def pred(ref_t):
        sub = Frame(fr.modinfo, fr.qual, Env(fr.env), spec=fr.spec, cls=fr.cls)
        vals, fails, axioms = interp.eval_exprs_on_element(cx, sub, g.target, SRef("DiffNode", ref_t), list(g.ifs), ref_t)
        if fails or axioms:
            raise Unsupported("filter may raise")
        return z3.And(*[as_bool(cx, truth(cx, v)) for v in vals]) if vals else z3.BoolVal(True)

    return Matches(src, pred)


def next_binding(cx, gen, *default):
    if not isinstance(gen, Matches) or len(default) != 1 or default[0] is not None:
        raise Unsupported("next() other than next(<filter of children>, None)")
    none = z3.Bool(fresh_name("no_match"))
    w = SRef.fresh("DiffNode", "match")
    cx.assume(z3.Implies(none, gen.src.none_satisfies(cx, gen.pred)))  # next(..., None) is None only if no element passes the filter
    cx.assume(z3.Implies(z3.Not(none), z3.And(gen.src.is_member(cx, w.t), gen.pred(w.t))))  # otherwise it is some element that passes (the first in iteration order)
    return SMaybe(none, w)


def ref_of(v):
    if isinstance(v, SMaybe):
        v = v.val
    return v.t


class DirDiffGet(FnSpec):
    file = "util/diff.py"
    qual = "DirDiff.get"
    props = ("C18",)

    def init(self):
        self.bindings["Path"] = lambda cx, x: x if isinstance(x, GetPath) else (_ for _ in ()).throw(Unsupported("Path of a non-path"))
        self.bindings["list"] = lambda cx, x: x if isinstance(x, PrefixList) else (_ for _ in ()).throw(Unsupported("list() of something else"))
        self.bindings["next"] = next_binding
        self.comps[0] = first_match_schema

        def inv(cx, env, it):
            a = cx.ghost["get_args"]
            p, n = a.p, DEPTH(a.p)
            pl, curr = env["prefixes"], ref_of(env["curr"])
            if not isinstance(pl, PrefixList):
                return [("prefixes-shape", z3.BoolVal(False))]
            return [
                ("remaining-prefixes", z3.And(pl.p == p, pl.hi == n, 1 <= pl.lo, pl.lo <= n + 1)),
                ("walked-so-far", z3.And(z3.Select(alloc(cx), curr), REACH(curr), fld(cx, curr, "path") == ANC(p, pl.lo - 1))),
            ]

        self.loops[0] = LoopSpec(inv, modifies=["path", "curr", "prefixes"])

    def setup(self, cx):
        from pyvc.containers import SObj

        for ax in axioms(light=True):
            cx.assume(ax)
        p = z3.Const("wanted", PathS)
        me = SObj("DirDiff", name="self")
        al = alloc(cx)
        if cx.choose(2) == 0:
            me.fields["_diff_root"] = None
            root = None
        else:
            rt = SRef.fresh("DiffNode", "root")
            me.fields["_diff_root"] = rt
            root = rt.t
            c = z3.Const("tc", Ref)
            q = z3.Const("tq", PathS)
            i = z3.Int("ti")
            cx.assume(z3.And(z3.Select(al, root), fld(cx, root, "path") == ROOT_PATH, REACH(root)))  # DirDiff.compare: the root sits at Path("")
            for kind in KINDS:  # children of nodes are nodes (DiffNode.compare allocates them); REACH is closed under children
                cx.assume(z3.ForAll([c, q], z3.Implies(z3.And(z3.Select(al, c), z3.Select(mdom(cx, c, kind), q)), z3.Select(al, z3.Select(mval(cx, c, kind), q)))))
                cx.assume(z3.ForAll([c, q], z3.Implies(z3.And(REACH(c), z3.Select(mdom(cx, c, kind), q)), REACH(z3.Select(mval(cx, c, kind), q)))))
        cx.assume(z3.And(DEPTH(p) >= 0, ANC(p, DEPTH(p)) == p, ANC(p, 0) == ROOT_PATH))  # T2_PREFIXES
        a = A(self=me, path=GetPath(p))
        a.p, a.root = p, root
        cx.ghost["get_args"] = a
        return a

    def raises(self, cx, a):
        return {}

    def ensures(self, cx, a, res):
        p, n = a.p, DEPTH(a.p)
        if a.root is None:
            return [("empty-diff-has-no-nodes", z3.BoolVal(res is None), "an empty diff answers None for every path")]
        if res is None:
            none_c, r = z3.BoolVal(True), None
        elif isinstance(res, SMaybe):
            none_c, r = res.isnone, res.val.t
        elif isinstance(res, SRef):
            none_c, r = z3.BoolVal(False), res.t
        else:
            return [("result-shape", z3.BoolVal(False), "returns a DiffNode or None")]
        out = []
        if r is not None:
            out.append(("found-node-is-in-the-tree-at-that-path", z3.Implies(z3.Not(none_c), z3.And(REACH(r), z3.Select(alloc(cx), r), fld(cx, r, "path") == p)), "a node handed out is a node of this diff (reached from the root through children) and carries exactly the asked path"))
        c = z3.Const("gc", Ref)
        i = z3.Int("gi")
        stuck = []
        for kind in KINDS:
            q = z3.Const(fresh_name("gq"), PathS)
            stuck.append(z3.ForAll([q], z3.Implies(z3.Select(mdom(cx, c, kind), q), fld(cx, z3.Select(mval(cx, c, kind), q), "path") != ANC(p, i))))
        out.append(("none-only-where-the-chain-of-prefixes-breaks", z3.Implies(none_c, z3.Exists([c, i], z3.And(1 <= i, i <= n, REACH(c), fld(cx, c, "path") == ANC(p, i - 1), *stuck))), "None is answered only if some node of the tree at a proper prefix of the path has no child at the next prefix — with one node per path and children filed below their parent (DiffNode.compare), no node of the tree has the asked path then"))
        return out


class StatusVal(SVal):
    def __init__(self, name):
        self.name = name


class StatusNS(SVal):
    def py_getattr(self, cx, name):
        if name in ("Status", "ObjType"):
            return self
        return StatusVal(name)


def build(reg):
    reg.set_class_home("DiffNode", "util/diff.py")
    reg.ctors["DiffNode"] = node_ctor
    specs = [Compare(), Status(), EntityType(), DirDiffCompare(), DirDiffStatus(), TypeProps("prev"), TypeProps("curr"), DirDiffGet()]
    reg.method_bindings[("DiffNode", "children")] = lambda cx, node: ChildrenColl(ref_of(node))
    reg.method_bindings[("DiffNode", "status")] = lambda cx, node: status_by_contract(cx, node)
    reg.method_bindings[("DiffNode", "_type")] = lambda cx, node, e: TypeOf(tree_t(e))
    for s in specs:
        reg.add(s)
    from . import difforder

    specs = specs + difforder.add_order(reg) + difforder.add_annotate(reg)
    from . import packerpg

    specs = specs + [x for x in packerpg.add_packerpg(reg) if 'C18' in x.props]  # which two snapshots an update compares
    from . import dirhash, hashing

    hashing.add_all(reg)  # the hashing helpers as callee contracts only (verified in C19)
    specs = specs + dirhash.add_dirhash(reg)  # the producer of the snapshots that are compared: one entry per path of the directory, empty directories included
    from . import oneliners

    specs = specs + oneliners.add_oneliners(reg, props=("C18",))  # one- and two-line delegations, verified against what other contracts bind them to
    return {
        "verify": specs,
        "lemmas": [("traversal-order", difforder.lemma_order)],
        "trusted": oneliners.T_ONE + [T2_PATH, T5_MODEL, T2_PREFIXES, "DiffNode.children() yields exactly the values of the removed, modified and added dicts (itertools.chain, T2); next(gen, None) is the first element passing the filter, or None if there is none"] + difforder.T_ORDER + difforder.T_ANNOTATE + packerpg.T_PACKER + hashing.TRUSTED + dirhash.T_DIR + dirhash.T_LINK,
        "assumptions": ["DirHashsums well-formedness: only dicts have entries and entries are never None; python == on snapshot values is deep equality (axiomatised as the fixpoint equation of tree_eq)", "every DiffNode is created by DiffNode.compare, so the one-level contract proved here holds for every node of the diff tree (structural induction over the recursion, argued in DESIGN); the walk of DirDiff.get is under contract step by step (that its answer agrees with the listing follows with one-node-per-path, argued in DESIGN); DiffNode.nodes is verified against the recursive shape removed / modified / itself / added (the recursive call by its own contract) and the ordering statements are lemmas over that shape; DirDiff.annotate is verified under the assumption that the diff has one node per path (DiffNode.compare puts children at parent/name with different names) — that no node repeats in nodes() (tree-shapedness of the diff) is not proved here but checked bounded"],
    }
