"""C13 — schema inheritance: the type checks reach every class (P-tier for check_types); the checks themselves bounded."""
from . import schema_core


def build(reg):
    specs = schema_core.build_c13(reg)
    return {
        "verify": specs,
        "lemmas": [],
        "trusted": ["issubclass / __bases__ / typing introspection are CPython's", "get_type_hints(cls) has an entry for every own annotation of cls"] + schema_core.T_SUBTYPE,
        "assumptions": ["check_allowed_types / check_overrides / is_subtype (runtype-, typing-based) are call-logging stubs here; their behaviour is checked bounded"],
    }
