"""C13 — schema inheritance: the type checks reach every class (P-tier: check_types, check_overrides, detect_field_overrides, is_subtype as a reduction, the extra-field policy of SchemaMagic.__new__); the external subtype judgement itself bounded."""
from . import c16, pgschema, schema_core, schemachecks


def build(reg):
    specs = schema_core.build_c13(reg)
    specs += [x for x in pgschema.add_pgschema(reg) if 'C13' in x.props]  # the schema group's plugin check IS check_types
    specs += schemachecks.add_schemachecks(reg)
    reg.set_class_home("PluginGroupLoad", "plugin/interface.py", "PluginGroup")
    specs += [c16.LoadPlugin()]  # ... and it runs on every plugin before it is initialised
    return {
        "verify": specs,
        "lemmas": [],
        "trusted": ["issubclass / __bases__ / typing introspection are CPython's", "get_type_hints(cls) has an entry for every own annotation of cls"] + schema_core.T_SUBTYPE + schemachecks.T_SCHK + pgschema.T_PGS,
        "assumptions": ["check_allowed_types and the runtype-based judgement `issubclass(to_type(sub), to_type(base))` inside is_subtype are external; is_subtype is proved only to be a sound reduction to it (never True where the external judgement says no), and which shapes the judgement accepts is checked bounded"],
    }
