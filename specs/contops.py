"""Contracts for the container-level operations of MetadorGroup: __delitem__, move, copy (container/wrappers.py) — C06, C08, C15.

Wiring level: guards first, then the raw operation, then the metadata bookkeeping (destroy / move the metadata
directory / re-link or re-register the metadata objects).  The raw container, MetadorMeta and TOCLinks are call-logging
stubs; their own behaviour is under contract elsewhere (specs/interface.py, specs/tocreg.py) or checked bounded."""
from __future__ import annotations

import z3

from pyvc.api import A, FnSpec
from pyvc.containers import SObj
from pyvc.engine import KwDict, SClass
from pyvc.values import SBool, SMaybe, SStr, SVal, Unsupported, fresh_name

from .wrappers import MEMBERS, NodeAclEnum, flag, internal_code

S, B = z3.StringSort(), z3.BoolSort()
NODE_EXISTS = z3.Function("user_node_exists", S, B)
IS_DS = z3.Function("node_is_dataset", S, B)
METADIR = z3.Function("meta_base_dir_of", S, B, S)  # utils.to_meta_base_path(node path, is_dataset)
RAW_HAS = z3.Function("raw_has_path", S, B)
NAME_OF = z3.Function("name_of_node_found_at", S, S)  # absolute name of the node self[path] (T1)

T_OPS = [
    "T1 raw node protocol: move/copy/delete/get/`in` on the wrapped object are logged RAW effects; a moved or copied node keeps its kind (group / dataset); self[path].name is the absolute path",
    "MetadorMeta(node)._base_dir = utils.to_meta_base_path(node.name, node is a dataset); TOCLinks.find_missing / repair_missing and MetadorNode._destroy_meta are call-logging stubs here; repair_missing (specs/tocreg.py RepairMissing), _destroy_meta / MetadorMeta._destroy (specs/wrappers.py, specs/metaread.py) and to_meta_base_path (specs/metapaths.py) are verified on their own, find_missing (a visit callback with four conditions) is exercised by the bounded tier",
]


LAST_SEG = z3.Function("last_path_segment_of", S, S)
RSTRIP_SLASH = z3.Function("str_rstrip_47", S, S)  # s.rstrip("/") (the engine's opaque function of the same name)


def st(x):
    return x.t if isinstance(x, SStr) else z3.StringVal(x)


class RawCont(SVal):
    def __init__(self):
        self.owner = None

    def py_truth(self, cx):
        return True

    def py_contains(self, cx, k):
        return RAW_HAS(st(k))

    def meth_get(self, cx, k, default=None):
        return SMaybe(z3.Not(RAW_HAS(st(k))), RawNode(st(k)))

    def py_getitem(self, cx, k):
        return RawNode(st(k))

    def py_getattr(self, cx, meth):
        def call(cx2, *args, **kw):
            cx2.effect("RAW", meth, args, dict(kw))
            if meth in ("move", "copy") and len(args) >= 2 and self.owner is not None and isinstance(args[0], (str, SStr)):
                # T1: the node now found at the destination has the kind of the source
                self.owner.kinds_now.append((st(args[1]), IS_DS(st(args[0]))))
            return None

        return call


class RawNode(SVal):
    def __init__(self, path_t):
        self.path_t = path_t

    def py_truth(self, cx):
        return True

    def py_isinstance(self, cx, c):
        return c in ("H5GroupLike",)


class UserNode(SVal):
    """what self[path] returns: a wrapped user node"""

    def __init__(self, path_t, isds):
        self.path_t, self.isds = path_t, isds

    def py_truth(self, cx):
        return True

    def py_isinstance(self, cx, c):
        if c == "MetadorDataset":
            return self.isds
        if c == "MetadorGroup":
            return z3.Not(self.isds)
        if c == "MetadorNode":
            return True
        if c == "str":
            return False
        raise Unsupported("isinstance of a user node with " + str(c))

    def py_getattr(self, cx, name):
        if name == "meta":
            return MetaOf(self)
        if name == "name":
            return NameStr(NAME_OF(self.path_t))
        raise Unsupported("user node attribute " + name)

    def meth__destroy_meta(self, cx, _unlink=True):
        cx.effect("destroy-meta", self, _unlink)


class NameStr(SStr):
    """an absolute node name: only its last segment and its form without trailing slashes are used"""

    def meth_rstrip(self, cx, chars=None):
        if chars != "/":
            raise Unsupported("rstrip of something else")
        return SStr(RSTRIP_SLASH(self.t))

    def meth_split(self, cx, sep=None, maxsplit=-1):
        if sep != "/":
            raise Unsupported("split by something else")
        return Segs(self.t)


class Segs(SVal):
    def __init__(self, t):
        self.t = t

    def py_getitem(self, cx, i):
        if i != -1:
            raise Unsupported("only the last segment is used")
        return SStr(LAST_SEG(self.t))


class MetaOf(SVal):
    def __init__(self, node):
        self.node = node

    def py_getattr(self, cx, name):
        if name == "_base_dir":
            return SStr(METADIR(NAME_OF(self.node.path_t), self.node.isds))
        raise Unsupported("meta attribute " + name)


class Links(SVal):
    def meth_find_missing(self, cx, where):
        if isinstance(where, SMaybe):
            where = where.val  # only reached when the walrus test found it truthy
        cx.effect("find-missing", where)
        return Missing(where)

    def meth_repair_missing(self, cx, missing, update=False):
        cx.effect("repair-missing", missing, update)


class Missing(SVal):
    def __init__(self, where):
        self.where = where


def ops_obj(cx):
    o = SObj("MetadorGroupOps", name="self")
    o.fields["_self_flags"] = {MEMBERS[f]: SBool(z3.Bool(f"self_{f}")) for f in ("read_only", "local_only", "skel_only")}
    o.fields["__wrapped__"] = RawCont()
    o.fields["__wrapped__"].owner = o
    o.kinds_now = []
    cont = SObj("ContainerStub2", name="container")
    toc = SObj("TocStub2", name="toc")
    toc.fields["_links"] = Links()
    cont.fields["metador"] = toc
    o.fields["_self_container"] = cont
    o.kind_override = {}
    return o


def getitem(cx, o, key):
    kt = st(key)
    if not cx.decide(NODE_EXISTS_NOW(o, kt)):
        cx.py_raise("KeyError", "no such node")
    isds = IS_DS(kt)
    for (p, k) in getattr(o, "kinds_now", []):  # kinds of nodes created by a raw move/copy in this call
        if z3.eq(p, kt):
            isds = k
    return UserNode(kt, isds)


def NODE_EXISTS_NOW(o, kt):
    for (p, _k) in getattr(o, "kinds_now", []):
        if z3.eq(p, kt):
            return z3.BoolVal(True)
    return NODE_EXISTS(kt)


def guard_cond(o, p):
    return z3.Or(internal_code(p), z3.And(flag(o, "local_only"), z3.PrefixOf(z3.StringVal("/"), p)))


def guard_path(cx, o, p):
    if cx.decide(guard_cond(o, st(p))):
        cx.py_raise("ValueError", "reserved or non-local path")


def guard_acl(cx, o, fl, method=None):
    if cx.decide(flag(o, fl.name)):
        cx.py_raise("UnsupportedOperationError", "restricted node")


class OpsSpec(FnSpec):
    file = "container/wrappers.py"
    props = ("C06", "C08", "C15")
    raises_exact = False

    def init(self):
        self.bindings["NodeAcl"] = NodeAclEnum()
        self.bindings["MetadorDataset"] = SClass("MetadorDataset")
        self.bindings["MetadorGroup"] = SClass("MetadorGroup")
        self.bindings["MetadorNode"] = SClass("MetadorNode")
        self.bindings["H5GroupLike"] = SClass("H5GroupLike")
        self.inline.add("_wrap_method")

    def requires(self, cx, a):
        return [(f"non-empty:{k}", z3.Length(v.t) > 0) for k, v in a.items() if isinstance(v, SStr)]

    def mutating_effects(self, cx):
        return [e for e in cx.fx if e[0] in ("RAW", "destroy-meta", "repair-missing")]


class GroupDelitem(OpsSpec):
    qual = "MetadorGroup.__delitem__"

    def setup(self, cx):
        return A(self=ops_obj(cx), name=SStr(z3.String("name")))

    def raises(self, cx, a):
        o, n = a.self, a.name.t
        return {"UnsupportedOperationError": flag(o, "read_only"), "ValueError": z3.And(z3.Not(flag(o, "read_only")), guard_cond(o, n)), "KeyError": z3.And(z3.Not(flag(o, "read_only")), z3.Not(guard_cond(o, n)), z3.Not(NODE_EXISTS(n)))}

    raises_exact = True

    def on_raise(self, cx, a, exc):
        return [("refused-delete-changes-nothing", z3.BoolVal(not self.mutating_effects(cx)), "a refused delete (restricted node, reserved path, missing node) destroys no metadata and touches no raw node")]

    def ensures(self, cx, a, res):
        fx = self.mutating_effects(cx)
        ok = len(fx) == 2 and fx[0][0] == "destroy-meta" and fx[1][0] == "RAW" and fx[1][1] == "__delitem__"
        out = [("metadata-destroyed-then-node-deleted", z3.BoolVal(ok), "first the metadata at and below the node is destroyed (objects, links, records), then the node itself is deleted from the raw container")]
        if ok:
            out.append(("of-the-named-node-with-unlinking", z3.And(fx[0][1].path_t == a.name.t, z3.BoolVal(fx[0][2] is True and fx[1][2][0] is a.name)), "it is the named node, and its TOC links are removed (unlink=True)"))
        return out


class GroupMove(OpsSpec):
    qual = "MetadorGroup.move"

    def setup(self, cx):
        o = ops_obj(cx)
        a = A(self=o, source=SStr(z3.String("source")), dest=SStr(z3.String("dest")))
        return a

    def guards(self, a):
        o = a.self
        return z3.Or(flag(o, "read_only"), guard_cond(o, a.source.t), guard_cond(o, a.dest.t))

    def raises(self, cx, a):
        o = a.self
        return {"UnsupportedOperationError": flag(o, "read_only"), "ValueError": z3.And(z3.Not(flag(o, "read_only")), z3.Or(guard_cond(o, a.source.t), guard_cond(o, a.dest.t))), "KeyError": z3.And(z3.Not(self.guards(a)), z3.Not(NODE_EXISTS(a.source.t)))}

    raises_exact = True

    def on_raise(self, cx, a, exc):
        return [("refused-move-changes-nothing", z3.BoolVal(not self.mutating_effects(cx)), "a move refused by a guard (restricted node, reserved source or destination) happens BEFORE anything is moved")]

    def ensures(self, cx, a, res):
        o = a.self
        src, dst = a.source.t, a.dest.t
        isds = IS_DS(src)
        fx = self.mutating_effects(cx)
        raw = [e for e in fx if e[0] == "RAW"]
        rep = [e for e in fx if e[0] == "repair-missing"]
        fm = [e for e in cx.fx if e[0] == "find-missing"]
        src_md = METADIR(NAME_OF(src), isds)
        dst_md = METADIR(NAME_OF(dst), isds)
        meta_base = z3.If(isds, dst_md, NAME_OF(dst))
        first_ok = len(raw) >= 1 and raw[0][1] == "move" and fx[0] is raw[0]
        out = [("node-moved-first", z3.And(z3.BoolVal(first_ok), z3.And(st(raw[0][2][0]) == src, st(raw[0][2][1]) == dst) if first_ok else False), "the user node is moved first; if that fails nothing else happens")]
        md_moved = len(raw) == 2 and raw[1][1] == "move"
        out.append(("dataset-metadata-directory-follows", z3.And(z3.BoolVal(len(raw) <= 2), z3.BoolVal(md_moved) == z3.And(isds, RAW_HAS(src_md)), z3.And(st(raw[1][2][0]) == src_md, st(raw[1][2][1]) == dst_md) if md_moved else True), "a dataset's metadata directory (stored next to it) is moved along exactly when it exists; a group carries its metadata inside"))
        relinked = len(rep) == 1 and len(fm) == 1
        out.append(("links-repaired-in-update-mode", z3.And(z3.BoolVal(len(rep) <= 1 and len(fm) == len(rep)), z3.BoolVal(relinked) == RAW_HAS(meta_base), z3.BoolVal((not relinked) or (rep[0][1].where is fm[0][1].where if False else rep[0][2] is True and isinstance(fm[0][1], RawNode)))), "the TOC links of the moved metadata objects are re-targeted (update=True: same UUIDs, no new objects), searching the metadata base of the destination"))
        if relinked:
            out.append(("search-base-is-the-destinations-metadata", fm[0][1].path_t == meta_base, "for a dataset its metadata directory at the destination, for a group the moved group itself"))
            out.append(("repair-uses-what-was-found", z3.BoolVal(rep[0][1].where is fm[0][1]), "the objects found missing are the ones repaired"))
        return out


class GroupCopy(OpsSpec):
    qual = "MetadorGroup.copy"

    def setup(self, cx):
        o = ops_obj(cx)
        kw = {}
        wm = cx.choose(2)
        if wm == 1:
            kw["without_meta"] = SBool(z3.Bool("without_meta"))
        shape = cx.choose(3)  # destination: a path / a group object with name= / a group object (name of the source kept)
        src = SStr(z3.String("source"))
        if shape == 0:
            dest = SStr(z3.String("dest"))
            final = dest.t
        else:
            dest = UserNode(z3.String("dest_group"), z3.BoolVal(False))
            if shape == 1:
                kw["name"] = SStr(z3.String("name"))
                leaf = kw["name"].t
            else:
                leaf = LAST_SEG(NAME_OF(src.t))
            final = z3.Concat(RSTRIP_SLASH(NAME_OF(dest.path_t)), z3.StringVal("/"), leaf)
        a = A(self=o, source=src, dest=dest, __kwargs__=kw)
        a.final = final
        a.without_meta = z3.Bool("without_meta") if wm == 1 else z3.BoolVal(False)
        return a

    def guards(self, a):
        o = a.self
        return z3.Or(flag(o, "read_only"), guard_cond(o, a.source.t), guard_cond(o, a.final))

    def raises(self, cx, a):
        o = a.self
        ro, gs, gd, ex = flag(o, "read_only"), guard_cond(o, a.source.t), guard_cond(o, a.final), NODE_EXISTS(a.source.t)
        # order in the code: restriction, source path, source lookup, destination path
        return {"UnsupportedOperationError": ro, "ValueError": z3.And(z3.Not(ro), z3.Or(gs, z3.And(ex, gd))), "KeyError": z3.And(z3.Not(ro), z3.Not(gs), z3.Not(ex))}

    raises_exact = True

    def on_raise(self, cx, a, exc):
        return [("refused-copy-changes-nothing", z3.BoolVal(not self.mutating_effects(cx)), "a copy refused by a guard happens BEFORE anything is copied")]

    def ensures(self, cx, a, res):
        src, dst = a.source.t, a.final
        isds = IS_DS(src)
        wm = a.without_meta
        fx = self.mutating_effects(cx)
        raw = [e for e in fx if e[0] == "RAW"]
        rep = [e for e in fx if e[0] == "repair-missing"]
        des = [e for e in fx if e[0] == "destroy-meta"]
        fm = [e for e in cx.fx if e[0] == "find-missing"]
        first_ok = len(raw) >= 1 and raw[0][1] == "copy" and fx[0] is raw[0]
        out = [("node-copied-first", z3.And(z3.BoolVal(first_ok), z3.And(st(raw[0][2][0]) == src, st(raw[0][2][1]) == dst) if first_ok else False), "the user node is copied first, to the FINAL destination path (for a group destination: its name plus the given or inherited leaf name) — the path that passed the guard")]
        md_copied = len(raw) == 2 and raw[1][1] == "copy"
        src_md, dst_md = METADIR(NAME_OF(src), isds), METADIR(NAME_OF(dst), isds)
        out.append(("dataset-metadata-copied-unless-without-meta", z3.And(z3.BoolVal(len(raw) <= 2), z3.BoolVal(md_copied) == z3.And(isds, z3.Not(wm)), z3.And(st(raw[1][2][0]) == src_md, st(raw[1][2][1]) == dst_md) if md_copied else True), "a dataset's metadata directory is copied next to the copy, unless the copy is to be without metadata"))
        out.append(("copies-get-new-identities", z3.And(z3.BoolVal(len(rep) <= 1 and len(fm) == len(rep)), z3.BoolVal(len(rep) == 1) == z3.Not(wm), z3.BoolVal((not rep) or (rep[0][2] is False and rep[0][1].where is fm[0][1]))), "copied metadata objects are registered as NEW objects (fresh UUIDs, update=False), found below the destination"))
        if rep:
            where = fm[0][1]
            base = where.path_t if isinstance(where, (RawNode, UserNode)) else None
            out.append(("search-base-is-the-destination", (base == z3.If(isds, dst_md, dst)) if base is not None else z3.BoolVal(False), "for a dataset the copied metadata directory, for a group the copied group"))
        out.append(("group-copy-without-metadata-destroys-only-the-copies", z3.And(z3.BoolVal(len(des) <= 1), z3.BoolVal(len(des) == 1) == z3.And(z3.Not(isds), wm), z3.BoolVal((not des) or des[0][2] is False), (des[0][1].path_t == dst) if des else True), "metadata copied along with a group is destroyed in the copy WITHOUT unlinking (the links belong to the originals)"))
        return out


def add_contops(reg):
    c = "MetadorGroupOps"
    reg.set_class_home(c, "container/wrappers.py", "MetadorGroup")
    reg.method_bindings[(c, "__getitem__")] = getitem
    reg.method_bindings[(c, "_guard_path")] = guard_path
    reg.method_bindings[(c, "_guard_acl")] = guard_acl
    reg.method_bindings[(c, "_wrap_if_node")] = lambda cx, o, v: v
    specs = [GroupDelitem(), GroupMove(), GroupCopy()]
    for s in specs:
        reg.add(s)
    return specs
