"""container/drivers.py — which raw object a container works on (C09: the two drivers are told apart by class only, everything else is shared code):
get_driver_type, get_source, to_h5filelike."""
from __future__ import annotations

import z3

from pyvc.api import A, FnSpec
from pyvc.values import SBool, SVal, Unsupported

IS_H5, IS_IH5 = z3.Bools("object_is_an_h5py_File object_is_an_IH5Record")
T_DRV = ["isinstance / issubclass against h5py.File and IH5Record are CPython's; the two driver classes are unrelated (an object is an instance of at most one)"]


class DriverCls(SVal):
    concrete_key = True

    def __init__(self, name):
        self.name = name

    def py_eq(self, cx, o):
        return o is self

    def py_call(self, cx, src, mode):
        cx.effect("open", self.name, src, mode)
        return ("opened", self.name, src, mode)

    def py_truth(self, cx):
        return True


H5CLS, IH5CLS = DriverCls("h5py.File"), DriverCls("IH5Record")


class EnumVal(SVal):
    concrete_key = True

    def __init__(self, name):
        self.name = name

    def py_eq(self, cx, o):
        return o is self

    def py_truth(self, cx):
        return True


E_H5, E_IH5 = EnumVal("HDF5"), EnumVal("IH5")


class EnumNS(SVal):
    def py_getattr(self, cx, n):
        return {"HDF5": E_H5, "IH5": E_IH5}[n]


class RawCont(SVal):
    def py_isinstance(self, cx, c):
        names = c if isinstance(c, (tuple, list)) else [c]
        out = []
        for n in names:
            n = getattr(n, "name", n)
            out.append({"h5py.File": IS_H5, "IH5Record": IS_IH5}[n])
        return z3.Or(*out)

    def py_getattr(self, cx, n):
        if n in ("filename", "ih5_files"):
            return ("attr", n)
        raise Unsupported("raw container attribute " + n)


def common(spec):
    spec.bindings["METADOR_DRIVERS"] = {E_H5: H5CLS, E_IH5: IH5CLS}
    spec.bindings["METADOR_DRIVER_CLASSES"] = (H5CLS, IH5CLS)
    spec.bindings["MetadorDriverEnum"] = EnumNS()
    spec.bindings["cast"] = lambda cx, t, v: v
    spec.bindings["Any"] = "Any"
    spec.bindings["H5FileLike"] = "H5FileLike"
    spec.bindings["h5py"] = type("H", (SVal,), {"py_getattr": lambda s, cx, n: H5CLS if n == "File" else (_ for _ in ()).throw(Unsupported(n))})()


class GetDriverType(FnSpec):
    file = "container/drivers.py"
    qual = "get_driver_type"
    props = ("C09",)

    def init(self):
        common(self)

    def setup(self, cx):
        cx.assume(z3.Not(z3.And(IS_H5, IS_IH5)))
        return A(raw_cont=RawCont())

    def raises(self, cx, a):
        return {"ValueError": z3.And(z3.Not(IS_H5), z3.Not(IS_IH5))}

    def ensures(self, cx, a, res):
        return [("the-driver-whose-class-the-object-is-an-instance-of", z3.And(z3.BoolVal(res is E_H5) == IS_H5, z3.BoolVal(res is E_IH5) == IS_IH5), "")]


class GetSource(FnSpec):
    file = "container/drivers.py"
    qual = "get_source"
    props = ("C09",)

    def init(self):
        common(self)
        self.bindings["get_driver_type"] = lambda cx, r: (cx.effect("inferred"), E_H5 if cx.decide(IS_H5) else E_IH5)[1]

    def setup(self, cx):
        given = [None, E_H5, E_IH5][cx.choose(3)]
        cx.assume(z3.Xor(IS_H5, IS_IH5))
        a = A(raw_cont=RawCont(), driver=given)
        a.given = given
        return a

    def raises(self, cx, a):
        return {}

    def ensures(self, cx, a, res):
        inferred = bool([e for e in cx.fx if e[0] == "inferred"])
        if a.given is not None:
            return [("what-reopening-with-the-stated-driver-needs", z3.BoolVal(not inferred and res == ("attr", "filename" if a.given is E_H5 else "ih5_files")), "the file name of an h5py.File, the container file list of an IH5 record")]
        return [("what-reopening-with-the-inferred-driver-needs", z3.And(z3.BoolVal(inferred), z3.BoolVal(res == ("attr", "filename")) == IS_H5, z3.BoolVal(res == ("attr", "ih5_files")) == IS_IH5), "")]


class ToH5FileLike(FnSpec):
    file = "container/drivers.py"
    qual = "to_h5filelike"
    props = ("C09", "C15")

    def init(self):
        common(self)
        self.bindings["issubclass"] = lambda cx, d, classes: SBool(z3.BoolVal(True)) if d in (H5CLS, IH5CLS) else SBool(z3.Bool("driver_class_derives_from_a_supported_one"))

    def setup(self, cx):
        drv = [None, IH5CLS, "custom"][cx.choose(3)]
        custom = DriverCls("custom-driver") if drv == "custom" else None
        a = A(name_or_obj=RawCont(), mode="the-mode", driver=custom if drv == "custom" else drv)
        a.drv, a.custom = drv, custom
        cx.assume(z3.Not(z3.And(IS_H5, IS_IH5)))
        return a

    def raises(self, cx, a):
        is_obj = z3.Or(IS_H5, IS_IH5)
        return {"ValueError": z3.And(z3.Not(is_obj), z3.BoolVal(a.drv == "custom"), z3.Not(z3.Bool("driver_class_derives_from_a_supported_one")))}

    def on_raise(self, cx, a, exc):
        return [("an-unsupported-driver-class-is-never-instantiated", z3.BoolVal(not cx.fx), "")]

    def ensures(self, cx, a, res):
        is_obj = z3.Or(IS_H5, IS_IH5)
        opens = [e[:-1] for e in cx.fx if e[0] == "open"]
        if not opens:
            return [("an-open-container-object-is-used-as-it-is", z3.And(is_obj, z3.BoolVal(res is a.name_or_obj)), "a passed h5py.File / IH5Record is wrapped as it is: mode and driver are ignored, nothing is opened")]
        want = {"custom": "custom-driver", None: "h5py.File"}.get(a.drv, "IH5Record")
        return [("otherwise-opened-once-by-the-stated-driver-in-the-stated-mode", z3.And(z3.Not(is_obj), z3.BoolVal(opens == [("open", want, a.name_or_obj, "the-mode")] and res == ("opened", want, a.name_or_obj, "the-mode"))), "a data source is opened exactly once, by the given driver class (h5py.File if none is given), in the given mode")]


def add_drivers(reg):
    return [GetDriverType(), GetSource(), ToH5FileLike()]
