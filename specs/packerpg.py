"""packer/__init__.py — what the packer plugin group does around a packer (C15: the packer only ever gets a skel_only, unclosable container;
C19: the directory hashsums recorded in the container are those of the packed directory; C18: an update is driven by the diff between the
recorded and the current hashsums): PGPacker._prepare / pack / update / _finalize, PackerInfo.for_packer, Unclosable."""
from __future__ import annotations

import z3

from pyvc.api import A, FnSpec
from pyvc.containers import SObj
from pyvc.engine import SClass
from pyvc.values import SBool, SMaybe, SVal, Unsupported

T_PACKER = [
    "MetadorContainer(h5like).restrict(skel_only=True) is the wrapper of that object with skel_only set (MetadorNode.restrict under contract in this check); h5like_cls(target, mode) opens / creates the target in that mode",
    "dir_hashsums / DirDiff.compare / PluginRef.supports have their own contracts (C19, C18, C16); PackerInfo(...) builds the model from the given fields (T5)",
]


class Packer(SVal):
    def meth_check_dir(self, cx, d):
        cx.effect("check_dir", d)
        from pyvc.engine import ExcVal

        return SMaybe(z3.Not(z3.Bool("directory_is_unsuitable")), ExcVal("DirValidationErrors", ()))

    def meth_pack(self, cx, mc, d):
        cx.effect("packer.pack", mc, d)

    def meth_update(self, cx, mc, d, diff):
        cx.effect("packer.update", mc, d, diff)


class H5Like(SVal):
    def __init__(self, target, mode):
        self.target, self.mode = target, mode


class Container(SVal):
    def __init__(self, raw, skel_only=False):
        self.raw, self.skel_only = raw, skel_only
        self.meta = MetaTok(self)

    def meth_restrict(self, cx, **kw):
        if set(kw) != {"skel_only"} or kw["skel_only"] is not True:
            raise Unsupported("restrict with other arguments")
        self.skel_only = True
        return self

    def py_getattr(self, cx, n):
        if n == "meta":
            return self.meta
        if n == "manifest":
            return ManifestTok()
        raise Unsupported("container attribute " + n)

    def meth_close(self, cx):
        cx.effect("close", self)

    def py_isinstance(self, cx, c):
        if c == "IH5MFRecord":
            return z3.Bool("container_is_a_manifest_record")
        raise Unsupported("isinstance against " + str(c))


class MetaTok(SVal):
    def __init__(self, c):
        self.c = c

    def meth_get(self, cx, name):
        cx.effect("meta.get", name)
        return SMaybe(z3.Not(z3.Bool("container_has_packer_info")), PInfo("stored"))

    def py_contains(self, cx, name):
        cx.effect("meta.contains", name)
        return SBool(z3.Bool("container_has_packer_info"))

    def py_delitem(self, cx, name):
        cx.effect("meta.del", name)

    def py_setitem(self, cx, name, v):
        cx.effect("meta.set", name, v, getattr(v, "source_dir", "unset"))


class ManifestTok(SVal):
    def py_getattr(self, cx, n):
        if n == "manifest_exts":
            return ExtsTok()
        raise Unsupported("manifest attribute " + n)


class ExtsTok(SVal):
    def py_setitem(self, cx, k, v):
        cx.effect("manifest-ext", k, v)


class PInfo(SVal):
    def __init__(self, tag):
        self.tag = tag
        self.source_dir = "unset"

    def py_truth(self, cx):
        return True

    def py_getattr(self, cx, n):
        if n == "packer":
            return RefTok("stored-packer-ref")
        if n == "source_dir":
            return "stored-source-dir" if self.tag == "stored" else self.source_dir
        raise Unsupported("packer info attribute " + n)

    def py_setattr(self, cx, n, v):
        if n != "source_dir":
            raise Unsupported("assignment to packer info attribute " + n)
        self.source_dir = v

    def meth_dict(self, cx):
        return ("dict-of", self, self.source_dir)


class RefTok(SVal):
    def __init__(self, tag):
        self.tag = tag

    def meth_supports(self, cx, o):
        cx.effect("supports", self.tag, getattr(o, "tag", o))
        return SBool(z3.Bool("installed_packer_supports_the_stored_one"))


class Unclos(SVal):
    def __init__(self, c):
        self.c = c


def group(cx):
    me = SObj("PGPackerObj", name="self")
    me.fields["_PACKER_INFO_NAME"] = "core.packerinfo"
    me.fields["name"] = "packer"
    return me


class Prepare(FnSpec):
    file = "packer/__init__.py"
    qual = "PGPacker._prepare"
    props = ("C19", "C18")

    def init(self):
        self.bindings["dir_hashsums"] = lambda cx, d: (cx.effect("dir_hashsums", d), ("hashsums-of", d))[1]

    def setup(self, cx):
        class Grp(SObj):
            def py_getitem(s, cx2, k):
                cx2.effect("lookup-packer", k)
                return self.packer

        self.packer = Packer()
        me = Grp("PGPackerObj", name="self")
        return A(self=me, pname="the-packer-name", srcdir="the-source-dir")

    def raises(self, cx, a):
        return {"DirValidationErrors": z3.Bool("directory_is_unsuitable")}

    def on_raise(self, cx, a, exc):
        return [("an-unsuitable-directory-is-not-hashed", z3.BoolVal(not [e for e in cx.fx if e[0] == "dir_hashsums"]), "")]

    def ensures(self, cx, a, res):
        fx = [e[:-1] for e in cx.fx]
        ok = fx == [("lookup-packer", "the-packer-name"), ("check_dir", "the-source-dir"), ("dir_hashsums", "the-source-dir")] and isinstance(res, tuple) and res[0] is self.packer and res[1] == ("hashsums-of", "the-source-dir")
        return [("the-installed-packer-and-the-hashsums-of-that-very-directory", z3.BoolVal(bool(ok)), "the directory is first checked by the packer, then hashed — the hashsums are those of the directory that is going to be packed")]


class _PackBase(FnSpec):
    file = "packer/__init__.py"

    def init(self):
        self.bindings["MetadorContainer"] = lambda cx, raw: Container(raw)
        self.bindings["Unclosable"] = lambda cx, c: Unclos(c)

        class DD(SVal):
            def meth_compare(s, cx, prev, curr):
                cx.effect("diff", prev, curr)
                return ("diff-of", prev, curr)

        self.bindings["DirDiff"] = DD()

    def base_setup(self, cx):
        me = group(cx)
        self.packer = Packer()
        me.fields["_prepare"] = lambda cx2, n, d: (cx2.effect("prepare", n, d), (self.packer, "the-hashsums"))[1]
        me.fields["_finalize"] = lambda cx2, n, h, c: cx2.effect("finalize", n, h, c)
        me.fields["resolve"] = lambda cx2, n: (cx2.effect("resolve", n), RefTok("installed-packer-ref"))[1]
        return me


class Pack(_PackBase):
    qual = "PGPacker.pack"
    props = ("C15", "C19")

    def setup(self, cx):
        me = self.base_setup(cx)
        return A(self=me, packer_name="the-packer-name", data_dir="the-data-dir", target="the-target", h5like_cls=lambda cx2, t, m: H5Like(t, m))

    def raises(self, cx, a):
        return {}

    def ensures(self, cx, a, res):
        fx = [e[:-1] for e in cx.fx]
        kinds = [e[0] for e in fx]
        ok = kinds == ["prepare", "packer.pack", "finalize"] and fx[0][1:] == ("the-packer-name", "the-data-dir")
        if not ok:
            return [("prepare-pack-finalize", z3.BoolVal(False), "")]
        mc, fin = fx[1][1], fx[2]
        got = isinstance(mc, Unclos) and isinstance(mc.c, Container) and mc.c.skel_only and isinstance(mc.c.raw, H5Like)
        if not got:
            return [("the-packer-gets-an-unclosable-skel-only-container-over-a-NEW-target", z3.BoolVal(False), "")]
        return [
            ("the-packer-gets-an-unclosable-skel-only-container-over-a-NEW-target", z3.BoolVal(bool(got and mc.c.raw.target == "the-target" and mc.c.raw.mode == "x" and fx[1][2] == "the-data-dir")), "the target is created exclusively (mode 'x': an existing file is never overwritten); the packer works on it through a skel_only wrapper it cannot close or commit"),
            ("finalised-with-the-hashsums-taken-before-packing-on-the-same-container", z3.BoolVal(fin[1] == "the-packer-name" and fin[2] == "the-hashsums" and fin[3] is mc.c), "the recorded directory state is the one hashed before the packer ran, stored into the very container that was packed"),
        ]


class Update(_PackBase):
    qual = "PGPacker.update"
    props = ("C15", "C18", "C19")

    def setup(self, cx):
        me = self.base_setup(cx)
        cx.assume(z3.Bool("container_has_packer_info"))  # (without it the code runs into an AttributeError on None: observed, not a listed property)
        return A(self=me, packer_name="the-packer-name", data_dir="the-data-dir", target="the-target", h5like_cls=lambda cx2, t, m: H5Like(t, m))

    def raises(self, cx, a):
        return {"ValueError": z3.Not(z3.Bool("installed_packer_supports_the_stored_one"))}

    def on_raise(self, cx, a, exc):
        return [("an-incompatible-packer-never-touches-the-container", z3.BoolVal(not [e for e in cx.fx if e[0] in ("packer.update", "packer.pack", "finalize")]), "")]

    def ensures(self, cx, a, res):
        fx = [e[:-1] for e in cx.fx]
        kinds = [e[0] for e in fx]
        ok = kinds == ["prepare", "meta.get", "resolve", "supports", "diff", "packer.update", "finalize"]
        if not ok:
            return [("prepare-check-diff-update-finalize", z3.BoolVal(False), "")]
        mc = fx[5][1]
        got = isinstance(mc, Unclos) and isinstance(mc.c, Container) and mc.c.skel_only and isinstance(mc.c.raw, H5Like) and mc.c.raw.mode == "r+" and mc.c.raw.target == "the-target"
        return [
            ("installed-packer-must-support-the-one-that-packed", z3.BoolVal(fx[3][1:] == ("installed-packer-ref", "stored-packer-ref") and fx[1][1] == "core.packerinfo" and fx[2][1] == "the-packer-name"), "installed.supports(stored): the direction of C16"),
            ("diff-from-the-recorded-to-the-current-directory-state", z3.BoolVal(fx[4][1:] == ("stored-source-dir", "the-hashsums") and fx[5][3] == ("diff-of", "stored-source-dir", "the-hashsums") and fx[5][2] == "the-data-dir"), "the packer is driven by DirDiff.compare(<hashsums recorded at the last packing>, <hashsums of the directory now>)"),
            ("the-packer-gets-an-unclosable-skel-only-container", z3.BoolVal(bool(got)), ""),
            ("finalised-with-the-current-hashsums", z3.BoolVal(fx[6][1:3] == ("the-packer-name", "the-hashsums") and fx[6][3] is mc.c), ""),
        ]


class Finalize(FnSpec):
    file = "packer/__init__.py"
    qual = "PGPacker._finalize"
    props = ("C19", "C18")

    def init(self):
        class PI(SVal):
            def meth_for_packer(s, cx, n):
                cx.effect("info-for", n)
                return PInfo("new")

        self.bindings["PackerInfo"] = PI()
        self.bindings["IH5MFRecord"] = SClass("IH5MFRecord")

    def setup(self, cx):
        return A(self=group(cx), pname="the-packer-name", hsums="the-hashsums", cont=Container(H5Like("t", "x"), skel_only=True))

    def raises(self, cx, a):
        return {}

    def ensures(self, cx, a, res):
        fx = [e[:-1] for e in cx.fx]
        kinds = [e[0] for e in fx]
        had = z3.Bool("container_has_packer_info")
        mf = z3.Bool("container_is_a_manifest_record")
        sets = [e for e in fx if e[0] == "meta.set"]
        ok_set = len(sets) == 1 and sets[0][1] == "core.packerinfo" and isinstance(sets[0][2], PInfo) and sets[0][3] == "the-hashsums"
        ext = [e for e in fx if e[0] == "manifest-ext"]
        ok_ext = len(ext) == 1 and ext[0][1] == "packer" and isinstance(ext[0][2], tuple) and ext[0][2][2] == "the-hashsums"
        return [
            ("old-packer-info-replaced-not-merged", z3.BoolVal("meta.del" in kinds) == had, "an existing packer info is deleted first (so the new one is not refused as a duplicate) — and only then"),
            ("packer-info-records-exactly-the-given-hashsums", z3.BoolVal(bool(ok_set) and kinds.index("meta.set") > (kinds.index("meta.del") if "meta.del" in kinds else -1)), "the container's packer info carries the given directory hashsums as source_dir"),
            ("manifest-carries-the-same-info-for-manifest-records", z3.BoolVal(bool(ext)) == mf if not ext else z3.And(mf, z3.BoolVal(bool(ok_ext))), "for an IH5MFRecord the same info (with the same hashsums) goes into the manifest, so tooling can decide about updates from the manifest alone"),
            ("closed-last", z3.BoolVal(kinds[-1:] == ["close"] and kinds.count("close") == 1), "the container is closed (committed) only after everything is recorded"),
        ]


class ForPacker(FnSpec):
    file = "packer/__init__.py"
    qual = "PackerInfo.for_packer"
    props = ("C16", "C20")

    def init(self):
        class Pk(SVal):
            def meth_resolve(s, cx, n, v=None):
                cx.effect("resolve", n, v)
                return "resolved-ref"

            def meth_provider(s, cx, r):
                cx.effect("provider", r)
                return "provider-info"

        self.bindings["packers"] = Pk()
        self.bindings["PackerInfo"] = lambda cx, **kw: ("PackerInfo", kw)

    def setup(self, cx):
        return A(cls=SClass("PackerInfo"), packer_name="the-packer-name", packer_version="the-version")

    def raises(self, cx, a):
        return {}

    def ensures(self, cx, a, res):
        fx = [e[:-1] for e in cx.fx]
        ok = fx == [("resolve", "the-packer-name", "the-version"), ("provider", "resolved-ref")] and res == ("PackerInfo", {"packer": "resolved-ref", "pkg": "provider-info"})
        return [("the-resolved-installed-packer-and-its-providing-package", z3.BoolVal(bool(ok)), "the info names the packer release the request RESOLVES to (newest compatible installed one, C16) and the package that provides exactly that release")]


class UnclosableSpec(FnSpec):
    file = "packer/__init__.py"
    props = ("C15", "C02")

    def __init__(self, meth):
        self.qual = "Unclosable." + meth
        super().__init__()

    def init(self):
        self.bindings["UnsupportedOperation"] = SClass("UnsupportedOperation")  # io.UnsupportedOperation

    def setup(self, cx):
        me = SObj("UnclosableObj", name="self")
        me.fields["_self_MSG"] = "Packers must not finalize the container!"
        return A(self=me)

    def raises(self, cx, a):
        return {"UnsupportedOperation": z3.BoolVal(True)}

    def on_raise(self, cx, a, exc):
        return [("the-wrapped-container-is-not-touched", z3.BoolVal(not cx.fx), "a packer can neither close the container nor commit or discard its patch")]


def add_packerpg(reg):
    reg.set_class_home("PGPackerObj", "packer/__init__.py", "PGPacker")
    reg.set_class_home("UnclosableObj", "packer/__init__.py", "Unclosable")
    return [Prepare(), Pack(), Update(), Finalize(), ForPacker(), UnclosableSpec("close"), UnclosableSpec("discard_patch"), UnclosableSpec("commit_patch")]
