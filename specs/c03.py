"""C03 — closing and reopening reproduces the view; open modes (P-tier: _open order/modes/effects, __init__ mode table)."""
from pyvc.api import SpecRegistry

from . import findfiles, hashing, manifest, naming, record, ublock


def build(reg):
    record.add_record_bindings(reg)
    record.add_open_bindings(reg)
    specs = [reg.add(record.OpenRecord())]
    # the mode table is verified against call-logging stubs of _create/_open/create_patch: separate registry entries
    specs.append(record.add_init_modes(reg))
    specs += record.add_codec(reg)
    specs += findfiles.add_findfiles(reg)
    specs += naming.add_naming(reg)
    specs += record.add_delete_files(reg)  # what mode 'w' removes
    specs += [x for x in ublock.add_ublock(reg) if x.qual.endswith('.load')]  # which bytes a block is parsed from
    specs += [x for x in manifest.add_manifest(reg) if x.qual in ("IH5MFRecord._open", "IH5MFRecord._check_ublock")]  # the subclass hooks of reopening: same acceptance, manifest next to the NEWEST container
    specs += [reg.specs[k] for k in reg.specs if k[1] in ("hashsum_file",)]
    from . import oneliners

    specs = specs + oneliners.add_oneliners(reg, props=("C03",))  # one- and two-line delegations, verified against what other contracts bind them to
    return {"verify": specs, "lemmas": [("next-patch-file-is-found-by-name", naming.lemma_next_patch_is_found)], "trusted": oneliners.T_ONE + hashing.TRUSTED + [record.T1_OPEN, record.T5_UB, "T4 list.sort(key) yields a permutation ascending in the key"] + findfiles.T_FIND + naming.T_NAMES, "assumptions": ["the view is a function of the files' content and their order only (IH5 nodes hold no other state): with the proved order-independence of _open any permutation of the file list gives the same record", "__init__ is verified against stubs that log which of find_files/_create/_open/create_patch are called; their own contracts are C02/C04 obligations"]}
