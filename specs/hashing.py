"""Contracts for util/hashsums.py (hashsum, qualified_hashsum, file_hashsum) and ih5/record.py:hashsum_file.
Shared by C04 (integrity), C17 (file metadata), C19 (directory hashsums)."""
from __future__ import annotations

import z3

from pyvc.api import A, FnSpec, LoopSpec, SRC
from pyvc.engine import Env, Frame, ModuleInfo
from pyvc.values import SInt, SStr, fresh_name

from .common_io import DISK, HEX, BytesVal, HashlibModule, PathVal, Stream, bytesio, open_binding, T2, T3


def hash_algs(cx):
    mi = ModuleInfo.load(SRC / "util/hashsums.py")
    d = cx.run.interp.resolve_name(cx, Frame(mi, "<module>", Env(None), spec=cx.run.spec), "_hash_alg")
    return list(d.keys())


def def_alg(cx):
    mi = ModuleInfo.load(SRC / "util/hashsums.py")
    return cx.run.interp.resolve_name(cx, Frame(mi, "<module>", Env(None), spec=cx.run.spec), "DEF_HASH_ALG")


def alg_supported(cx, alg_t):
    return z3.Or(*[alg_t == z3.StringVal(k) for k in hash_algs(cx)])


class HashIO(FnSpec):
    props = ("C04", "C17", "C19")

    def init(self):
        self.bindings["hashlib"] = HashlibModule()
        self.bindings["BytesIO"] = bytesio
        self.bindings["open"] = open_binding


class Hashsum(HashIO):
    file = "util/hashsums.py"
    qual = "hashsum"

    def init(self):
        super().init()

        def inv(cx, env, it):
            h, data = env["h"], env["data"]
            init = cx.ghost["hash_init"]
            return [("consumed++remaining==input", z3.Concat(h.state, data.remaining) == init)]

        self.loops[0] = LoopSpec(inv, modifies=["chunk"], havoc_inplace=["h", "data"])

    def setup(self, cx):
        init = z3.String("input_bytes")
        cx.ghost["hash_init"] = init
        kind = cx.choose(2)
        data = BytesVal(init) if kind == 0 else Stream(init)
        return A(data=data, alg=SStr.fresh("alg"), init=init)

    def raises(self, cx, a):
        return {"ValueError": z3.Not(alg_supported(cx, a.alg.t))}

    def on_raise(self, cx, a, exc):
        # unsupported algorithm is rejected before the stream is touched
        if isinstance(a.data, Stream):
            return [("stream-untouched", a.data.remaining == a.init, "unsupported algorithm rejected before reading")]
        return []

    def ensures(self, cx, a, res):
        ok = z3.BoolVal(False)
        if isinstance(res, SStr):
            ok = res.t == HEX(a.alg.t, a.init)
        return [("digest-of-all-input-bytes", ok, "file hashes equal the standard digest of the bytes, independent of read chunking")]

    # callee side
    def bind_call(self, interp, cx, f, args, kwargs):
        a = FnSpec.bind_call(self, interp, cx, f, args, kwargs)
        d = a.data
        a.init = d.t if isinstance(d, BytesVal) else d.remaining
        if isinstance(a.alg, str):  # literal algorithm name at the call site
            a.alg = SStr(z3.StringVal(a.alg))
        return a

    def result(self, cx, a):
        if isinstance(a.data, Stream):
            a.data.remaining = z3.StringVal("")  # the stream is consumed
        alg = a.alg
        return SStr(HEX(alg.t if isinstance(alg, SStr) else z3.StringVal(alg), a.init))


class QualifiedHashsum(HashIO):
    file = "util/hashsums.py"
    qual = "qualified_hashsum"

    def setup(self, cx):
        init = z3.String("input_bytes")
        kind = cx.choose(2)
        data = BytesVal(init) if kind == 0 else Stream(init)
        return A(data=data, alg=SStr.fresh("alg"), init=init)

    def raises(self, cx, a):
        alg = a.alg
        return {"ValueError": z3.Not(alg_supported(cx, alg.t if isinstance(alg, SStr) else z3.StringVal(alg)))}

    def ensures(self, cx, a, res):
        ok = z3.BoolVal(False)
        alg_t = a.alg.t if isinstance(a.alg, SStr) else z3.StringVal(a.alg)
        if isinstance(res, SStr):
            ok = res.t == z3.Concat(alg_t, z3.StringVal(":"), HEX(alg_t, a.init))
        return [("algorithm-prefix+digest", ok, "hash strings are '<alg>:' + hex digest of the bytes")]

    bind_call = Hashsum.bind_call

    def result(self, cx, a):
        if isinstance(a.data, Stream):
            a.data.remaining = z3.StringVal("")
        alg_t = a.alg.t if isinstance(a.alg, SStr) else z3.StringVal(a.alg)
        return SStr(z3.Concat(alg_t, z3.StringVal(":"), HEX(alg_t, a.init)))


class FileHashsum(HashIO):
    file = "util/hashsums.py"
    qual = "file_hashsum"

    def setup(self, cx):
        return A(path=PathVal(z3.String("path")), alg=SStr.fresh("alg"))

    def raises(self, cx, a):
        alg_t = a.alg.t if isinstance(a.alg, SStr) else z3.StringVal(a.alg)
        return {"ValueError": z3.Not(alg_supported(cx, alg_t))}

    def ensures(self, cx, a, res):
        ok = z3.BoolVal(False)
        alg_t = a.alg.t if isinstance(a.alg, SStr) else z3.StringVal(a.alg)
        if isinstance(res, SStr):
            ok = res.t == z3.Concat(alg_t, z3.StringVal(":"), HEX(alg_t, DISK(a.path.t)))
        return [("digest-of-file-bytes", ok, "file hashes equal the standard digest of the file bytes with the algorithm prefix")]

    def effects(self, cx, a):
        from .common_io import path_term

        cx.effect("open-read", path_term(a.path))

    def result(self, cx, a):
        alg_t = a.alg.t if isinstance(a.alg, SStr) else z3.StringVal(a.alg)
        from .common_io import path_term

        return SStr(z3.Concat(alg_t, z3.StringVal(":"), HEX(alg_t, DISK(path_term(a.path)))))


class HashsumFile(HashIO):
    file = "ih5/record.py"
    qual = "hashsum_file"

    def setup(self, cx):
        return A(filename=PathVal(z3.String("filename")), skip_bytes=SInt.fresh("skip"))

    def requires(self, cx, a):
        sk = a.skip_bytes
        return [("skip-nonneg", (sk.t if isinstance(sk, SInt) else z3.IntVal(sk)) >= 0)]

    def payload(self, cx, a):
        from .common_io import path_term

        w = DISK(path_term(a.filename))
        sk = a.skip_bytes.t if isinstance(a.skip_bytes, SInt) else z3.IntVal(a.skip_bytes)
        return z3.If(sk >= z3.Length(w), z3.StringVal(""), z3.SubString(w, sk, z3.Length(w) - sk))

    def ensures(self, cx, a, res):
        ok = z3.BoolVal(False)
        alg = z3.StringVal(def_alg(cx))
        if isinstance(res, SStr):
            ok = res.t == z3.Concat(alg, z3.StringVal(":"), HEX(alg, self.payload(cx, a)))
        return [("digest-of-payload-after-skip", ok, "container hash = default-algorithm digest of exactly the bytes after the skipped user block")]

    def effects(self, cx, a):
        from .common_io import path_term

        cx.effect("open-read", path_term(a.filename))

    def result(self, cx, a):
        alg = z3.StringVal(def_alg(cx))
        return SStr(z3.Concat(alg, z3.StringVal(":"), HEX(alg, self.payload(cx, a))))


def add_all(reg):
    reg.globals[("*", "hashlib")] = HashlibModule()
    specs = [Hashsum(), QualifiedHashsum(), FileHashsum(), HashsumFile()]
    for s in specs:
        reg.add(s)
    return specs


TRUSTED = [T2, T3]
