"""MetadorGroup listings filter the reserved namespace (C08 'cannot see', C15: what is listed is wrapped):
visititems / visit and their callbacks, items (a generator), values / keys."""
from __future__ import annotations

import z3

from pyvc.api import A, FnSpec, LoopSpec
from pyvc.containers import STR, SObj, SSet, SetIter
from pyvc.values import SBool, SMaybe, SStr, STuple, SVal, Unsupported, fresh_name

S, B = z3.StringSort(), z3.BoolSort()
INTERNAL = z3.Function("is_internal_path", S, B)  # container/utils.py:is_internal_path (its own contract)

T_LIST = [
    "raw.items() yields each child key once with the raw child, or None for a child deleted meanwhile; raw.visititems(f) calls f(name, node) for every raw node below (T1)",
    "_wrap_if_node(raw) is the wrapper of that raw node with this node's restrictions (its own contract, C15)",
]


class MNS(SVal):
    def py_getattr(self, cx, n):
        if n == "is_internal_path":
            return lambda cx2, p: SBool(INTERNAL(p.t))
        raise Unsupported("M." + n)


class RawNode(SVal):
    def __init__(self, name_t):
        self.name_t = name_t

    def py_getattr(self, cx, n):
        if n == "name":
            return SStr(self.name_t)
        raise Unsupported("raw node attribute " + n)

    def py_is_none(self, cx):
        return False


class WrappedTok(SVal):
    def __init__(self, raw):
        self.raw = raw


def me_obj():
    me = SObj("MetadorGroupListing", name="self")
    me.fields["_wrap_if_node"] = lambda cx, raw: WrappedTok(raw)
    return me


# ---- visititems / visit -------------------------------------------------------------------------------------------------------------------------
class VisitItemsCb(FnSpec):
    file = "container/wrappers.py"
    qual = "MetadorGroup.visititems.<locals>.wrapped_func"
    props = ("C08", "C15")

    def init(self):
        self.bindings["M"] = MNS()

    def setup(self, cx):
        me = me_obj()
        self.bindings["self"] = me
        self.bindings["func"] = lambda cx2, name, node: (cx2.effect("user-callback", name, node), "callback-result")[1]
        a = A(name=SStr.fresh("visited_name"), node=RawNode(z3.String("raw_node_path")))
        return a

    def raises(self, cx, a):
        return {}

    def ensures(self, cx, a, res):
        calls = [e for e in cx.fx if e[0] == "user-callback"]
        internal = INTERNAL(a.node.name_t)
        ok_call = len(calls) == 1 and calls[0][1] is a.name and isinstance(calls[0][2], WrappedTok) and calls[0][2].raw is a.node
        return [
            ("reserved-nodes-are-skipped", z3.Implies(internal, z3.BoolVal(not calls and res is None)), "the user's callback never sees a node whose path has a reserved (metador_*) segment; the visit goes on (None is returned)"),
            ("other-nodes-are-handed-over-wrapped", z3.Implies(z3.Not(internal), z3.BoolVal(bool(ok_call) and res == "callback-result")), "every other node is handed to the callback once, under its visit name, WRAPPED (never the raw object), and the callback's result is passed back (so a visit can be stopped)"),
        ]


class VisitItems(FnSpec):
    file = "container/wrappers.py"
    qual = "MetadorGroup.visititems"
    props = ("C08", "C15")

    def setup(self, cx):
        from pyvc.engine import Closure

        me = me_obj()

        class Raw(SVal):
            def meth_visititems(s, cx2, f):
                cx2.effect("raw-visititems", f)
                return "raw-visit-result"

        me.fields["__wrapped__"] = Raw()
        a = A(self=me, func="user-func")
        a.Closure = Closure
        return a

    def raises(self, cx, a):
        return {}

    def ensures(self, cx, a, res):
        v = [e for e in cx.fx if e[0] == "raw-visititems"]
        ok = len(v) == 1 and isinstance(v[0][1], a.Closure) and v[0][1].name.endswith("visititems.<locals>.wrapped_func")
        return [("raw-visit-only-through-the-filtering-callback", z3.BoolVal(bool(ok) and res == "raw-visit-result"), "the raw container is visited with the filtering/wrapping callback (VisitItemsCb) — never with the user's function itself")]


class VisitCb(FnSpec):
    file = "container/wrappers.py"
    qual = "MetadorGroup.visit.<locals>.wrapped_func"
    props = ("C08",)

    def setup(self, cx):
        self.bindings["func"] = lambda cx2, name: (cx2.effect("user-callback", name), "callback-result")[1]
        return A(name=SStr.fresh("visited_name"), _="the-node")

    def raises(self, cx, a):
        return {}

    def ensures(self, cx, a, res):
        calls = [e for e in cx.fx if e[0] == "user-callback"]
        return [("name-only", z3.BoolVal(len(calls) == 1 and calls[0][1] is a.name and res == "callback-result"), "visit() hands the callback the name alone")]


class Visit(FnSpec):
    file = "container/wrappers.py"
    qual = "MetadorGroup.visit"
    props = ("C08",)

    def setup(self, cx):
        from pyvc.engine import Closure

        me = me_obj()
        me.fields["visititems"] = lambda cx2, f: (cx2.effect("visititems", f), "visit-result")[1]
        a = A(self=me, func="user-func")
        a.Closure = Closure
        return a

    def raises(self, cx, a):
        return {}

    def ensures(self, cx, a, res):
        v = [e for e in cx.fx if e[0] == "visititems"]
        ok = len(v) == 1 and isinstance(v[0][1], a.Closure) and v[0][1].name.endswith("visit.<locals>.wrapped_func")
        return [("through-the-filtered-visititems", z3.BoolVal(bool(ok) and res == "visit-result"), "visit() goes through this class's own visititems (so the same names are filtered), not the raw one")]


# ---- items (generator) -----------------------------------------------------------------------------------------------------------------------------
CHILD_NONE = z3.Function("raw_child_vanished", S, B)
CHILD_PATH = z3.Function("raw_child_path", S, S)


class RawChildren(SVal):
    def __init__(self, keys):
        self.keys = keys

    def meth_items(self, cx):
        me = self

        class _It(SVal):
            def py_iter_schema(s, cx2):
                return SetIter(STR, me.keys.dom, lambda kt: STuple((SStr(kt), SMaybe(CHILD_NONE(kt), RawNode(CHILD_PATH(kt))))))

        return _It()


class Items(FnSpec):
    file = "container/wrappers.py"
    qual = "MetadorGroup.items"
    props = ("C08", "C15")

    def init(self):
        self.bindings["M"] = MNS()

        def inv(cx, env, it):
            a = cx.ghost["li"]
            k = z3.String(fresh_name("lk"))
            return [("yielded-so-far-are-the-visible-children-so-far", z3.ForAll([k], a.yielded.has(k) == z3.And(z3.Select(it.processed, k), z3.Not(CHILD_NONE(k)), z3.Not(INTERNAL(CHILD_PATH(k))))))]

        self.loops[0] = LoopSpec(inv, modifies=["k", "v"], havoc_inplace=["self.yielded_log"])

    def on_yield(self, cx, v):
        """a yield inside the loop: (key, wrapped child) — recorded in the ghost set by key, after checking the shape"""
        a = cx.ghost["li"]
        items = v.items if isinstance(v, STuple) else (list(v) if isinstance(v, tuple) else None)
        ok = items is not None and len(items) == 2 and isinstance(items[0], SStr) and isinstance(items[1], WrappedTok) and isinstance(items[1].raw, (RawNode, SMaybe))
        raw = items[1].raw if ok else None
        raw = raw.val if isinstance(raw, SMaybe) else raw
        cx.oblige("yields-key-with-its-own-wrapped-child", "call-pre", z3.BoolVal(False) if not ok else raw.name_t == CHILD_PATH(items[0].t), clause="what is listed under a key is the wrapper of that key's own child")
        if ok:
            a.yielded.py_call_method(cx, "add", [items[0]], {})

    def setup(self, cx):
        me = me_obj()
        keys = SSet.fresh(STR, "raw_child_keys")
        me.fields["__wrapped__"] = RawChildren(keys)
        yl = SSet(STR)
        me.fields["yielded_log"] = yl
        a = A(self=me)
        a.kset, a.yielded = keys, yl
        cx.ghost["li"] = a
        return a

    def raises(self, cx, a):
        return {}

    def ensures(self, cx, a, res):
        k = z3.String(fresh_name("ek"))
        return [("exactly-the-visible-children", z3.ForAll([k], a.yielded.has(k) == z3.And(a.kset.has(k), z3.Not(CHILD_NONE(k)), z3.Not(INTERNAL(CHILD_PATH(k))))), "items() lists a child exactly when it still exists and its path has no reserved segment — every user child, no bookkeeping entity — each as a wrapped node")]


def add_listing(reg):
    reg.set_class_home("MetadorGroupListing", "container/wrappers.py", "MetadorGroup")
    specs = [VisitItemsCb(), VisitItems(), VisitCb(), Visit(), Items()]
    for s in specs:
        reg.add(s)
    return specs
