"""schema/types.py value parsers as far as they are the repository's own code (C12: object form and string form of a value are normalised alike)."""
from __future__ import annotations

import z3

from pyvc.api import A, FnSpec
from pyvc.engine import SClass
from pyvc.values import SVal, Unsupported

T_VALUES = [
    "isodate.parse_duration / Duration.total_seconds / the target class constructors (pint, isodate) are external: uninterpreted here, exercised by the bounded tier",
]


class Tok(SVal):
    """an opaque python value identified by how it was obtained"""

    def __init__(self, *desc):
        self.desc = desc

    def py_truth(self, cx):
        return True

    def eq(self, o):
        return isinstance(o, Tok) and _eq(self.desc, o.desc)

    def meth_total_seconds(self, cx):
        return Tok("total_seconds", self)


def _eq(x, y):
    if isinstance(x, Tok):
        return x is y or x.eq(y)
    if isinstance(x, tuple):
        return isinstance(y, tuple) and len(x) == len(y) and all(_eq(a, b) for a, b in zip(x, y))
    return x is y or (not isinstance(x, SVal) and not isinstance(y, SVal) and x == y)


class Input(Tok):
    """the value handed to a parser: a str | an instance of the target class | something else"""

    def __init__(self, kind):
        Tok.__init__(self, "input", kind)
        self.kind = kind

    def py_isinstance(self, cx, c):
        names = c if isinstance(c, (tuple, list)) else [c]
        out = False
        for n in names:
            n = getattr(n, "name", n)
            if n == "str":
                out = out or self.kind == "str"
            elif n == "TargetCls":
                out = out or self.kind == "obj"
            elif n != "object":
                raise Unsupported(f"isinstance against {n!r}")
        return out

    def py_truth(self, cx):
        if self.kind == "str":
            return z3.Bool("input_text_is_not_empty")
        return True


class TargetCls(SVal):
    name = "TargetCls"

    def py_call(self, cx, *a, **kw):
        return Tok("TargetCls(...)", tuple(a), tuple(sorted(kw.items())))

    def py_getattr(self, cx, n):
        if n == "__name__":
            return "TargetCls"
        raise Unsupported("class attribute " + n)


class IsoMod(SVal):
    def meth_parse_duration(self, cx, v):
        return Tok("isodate.parse_duration", v)


def _setup(cx):
    kind = ["str", "obj", "other"][cx.choose(3)]
    a = A(cls=SClass("Parser"), tcls=TargetCls(), v=Input(kind))
    a.kind = kind
    return a


class DurationParse(FnSpec):
    file = "schema/types.py"
    qual = "Duration.Parser.parse"
    props = ("C12",)

    def init(self):
        self.bindings["isodate"] = IsoMod()
        self.bindings["type"] = lambda cx, o: "<type>"

    def setup(self, cx):
        return _setup(cx)

    def raises(self, cx, a):
        return {"TypeError": z3.BoolVal(a.kind == "other")}

    def ensures(self, cx, a, res):
        dur = Tok("isodate.parse_duration", a.v) if a.kind == "str" else a.v
        want = Tok("TargetCls(...)", (), (("seconds", Tok("total_seconds", dur)),))
        return [("rebuilt-from-total-seconds-in-both-forms", z3.BoolVal(isinstance(res, Tok) and res.eq(want)), "a Duration OBJECT is normalised exactly like the text it serialises to: both are rebuilt from the total number of seconds (so an instance equals what parsing its own serialisation gives)")]


class StringParse(FnSpec):
    file = "schema/types.py"
    qual = "StringParser.parse"
    props = ("C12",)

    def init(self):
        self.bindings["type"] = lambda cx, o: "<type>"

    def setup(self, cx):
        return _setup(cx)

    def raises(self, cx, a):
        return {"TypeError": z3.BoolVal(a.kind == "other")}

    def ensures(self, cx, a, res):
        if a.kind == "obj":
            return [("an-instance-is-kept", z3.BoolVal(res is a.v), "an instance of the target class is returned as it is")]
        want = Tok("TargetCls(...)", (a.v,), ())
        return [("text-goes-through-the-constructor", z3.BoolVal(isinstance(res, Tok) and res.eq(want)), "a text is handed to the target class's constructor unchanged (no stripping, no case folding)")]


# ---- schema/parser.py: the generic parser protocol ----------------------------------------------------------------------------------------------------------------
class BaseParse(FnSpec):
    file = "schema/parser.py"
    qual = "BaseParser.parse"
    props = ("C12",)

    def init(self):
        self.bindings["type"] = lambda cx, o: type("T", (SVal,), {"py_getattr": lambda s, cx2, n: "<type name>"})()

    def setup(self, cx):
        a = _setup(cx)
        a["target"] = a.pop("tcls")
        if cx.choose(2) == 1:
            a["target"] = None
            a.no_target = True
        else:
            a.no_target = False
        return a

    def raises(self, cx, a):
        return {"TypeError": z3.BoolVal(not a.no_target and a.kind != "obj")}

    def ensures(self, cx, a, res):
        return [("an-instance-of-the-target-passes-unchanged", z3.BoolVal(res is a.v), "the default parser hands an instance of the target class back as it is and refuses everything else (so what it produces it also accepts)")]


class RunParser(FnSpec):
    file = "schema/parser.py"
    qual = "run_parser"
    props = ("C12",)

    def init(self):
        self.bindings["type"] = lambda cx, o: type("T", (SVal,), {"py_getattr": lambda s, cx2, n: "<type name>"})()

    def setup(self, cx):
        strict = cx.choose(2) == 1
        out_kind = ["obj", "other"][cx.choose(2)]

        class ParserCls(SVal):
            def py_getattr(s, cx2, n):
                if n == "strict":
                    return strict
                raise Unsupported("parser attribute " + n)

            def meth_parse(s, cx2, target, value):
                cx2.effect("parse", target, value)
                return self.out

        self.out = Input(out_kind)
        a = A(cls=ParserCls(), target=TargetCls(), value=Input("str"))
        a.strict, a.out_kind = strict, out_kind
        return a

    def raises(self, cx, a):
        return {"RuntimeError": z3.BoolVal(a.strict and a.out_kind != "obj")}

    def ensures(self, cx, a, res):
        p = [e for e in cx.fx if e[0] == "parse"]
        return [("the-parser-s-result-for-that-target-and-value", z3.BoolVal(len(p) == 1 and p[0][1] is a.target and p[0][2] is a.value and res is self.out), "the value is parsed once, by the class's own parser, for the field's type; a strict parser (the default) must NORMALISE: a result that is not an instance of the target is an error, never passed on")]


class GetParser(FnSpec):
    file = "schema/parser.py"
    qual = "get_parser"
    props = ("C12",)

    def init(self):
        self.bindings["BaseParser"] = SClass("BaseParser")
        self.bindings["issubclass"] = lambda cx, c, b: c.is_parser if isinstance(c, InnerCls) and getattr(b, "name", None) == "BaseParser" else (_ for _ in ()).throw(Unsupported("issubclass of something else"))

    def setup(self, cx):
        kind = ["none", "parser", "other", "inherited"][cx.choose(4)]
        inner = None if kind in ("none", "inherited") else InnerCls(kind == "parser")
        inherited = InnerCls(True) if kind == "inherited" else None  # what attribute lookup on the class finds in a base class

        class ClsDict(SVal):
            def meth_get(s, cx2, k):
                if k != "Parser":
                    raise Unsupported("another key of the class dict")
                return inner

        class TheCls(SVal):
            def py_getattr(s, cx2, n):
                if n == "__dict__":
                    return ClsDict()
                if n == "Parser":
                    if inner is None and inherited is None:
                        cx2.py_raise("AttributeError", "Parser")
                    return inner if inner is not None else inherited
                raise Unsupported("class attribute " + n)

        a = A(cls=TheCls())
        a.kind, a.inner = kind, inner
        return a

    def raises(self, cx, a):
        return {"TypeError": z3.BoolVal(a.kind == "other")}

    def ensures(self, cx, a, res):
        return [("own-inner-parser-or-none", z3.BoolVal(res is a.inner), "only a Parser defined in the class ITSELF counts (looked up in its own __dict__, not inherited); one that is not a BaseParser is an error, not ignored")]


class InnerCls(SVal):
    def __init__(self, is_parser):
        self.is_parser = is_parser

    def py_truth(self, cx):
        return True

    def py_getattr(self, cx, n):
        if n == "__name__":
            return "Parser"
        raise Unsupported("inner class attribute " + n)


class PintParse(FnSpec):
    file = "schema/types.py"
    qual = "PintParser.parse"
    props = ("C12",)

    def setup(self, cx):
        a = _setup(cx)
        a.outcome = ["ok", "TypeError", "ValueError", "OtherError"][cx.choose(4)]
        cx.ghost["pint_outcome"] = a.outcome
        a.empty = z3.Not(z3.Bool("input_text_is_not_empty"))
        return a

    def raises(self, cx, a):
        is_empty_text = z3.And(z3.BoolVal(a.kind == "str"), a.empty)
        o = a.outcome
        return {"ValueError": z3.Or(is_empty_text, z3.BoolVal(o in ("ValueError", "OtherError"))), "TypeError": z3.And(z3.Not(is_empty_text), z3.BoolVal(o == "TypeError"))}

    def on_raise(self, cx, a, exc):
        called = [e for e in cx.fx if e[0] == "super-parse"]
        is_empty_text = z3.And(z3.BoolVal(a.kind == "str"), a.empty)
        return [("an-empty-text-is-refused-before-pint-sees-it", z3.Implies(is_empty_text, z3.BoolVal(not called)), "an empty string never reaches pint (which would read it as a dimensionless 1)")]

    def ensures(self, cx, a, res):
        called = [e for e in cx.fx if e[0] == "super-parse"]
        return [("otherwise-the-string-parser-s-result", z3.BoolVal(len(called) == 1 and called[0][1] is a.tcls and called[0][2] is a.v and res == "string-parser-result" and a.outcome == "ok"), "every other input goes through StringParser.parse unchanged; failures inside pint surface as ValueError (pydantic turns those into validation errors), TypeError / ValueError pass as they are")]


class GetValidators(FnSpec):
    file = "schema/parser.py"
    qual = "ParserMixin.__get_validators__"
    props = ("C12",)

    def init(self):
        self.bindings["BaseModel"] = SClass("BaseModel")
        self.bindings["NoParserDefined"] = "NoParserDefined-marker"
        self.bindings["issubclass"] = lambda cx, c, b: c.is_model if getattr(b, "name", None) == "BaseModel" else (_ for _ in ()).throw(Unsupported("issubclass of something else"))
        self.bindings["get_parser"] = lambda cx, c: (cx.effect("get_parser", c), c.parser)[1]
        self.bindings["run_parser"] = lambda cx, p, t, v: (cx.effect("run_parser", p, t, v), "parsed-value")[1]

    def setup(self, cx):
        cached = ["nothing", "a-func", "no-parser-marker"][cx.choose(3)]
        has_parser = cx.choose(2) == 1
        is_model = cx.choose(2) == 1
        store = {}
        if cached == "a-func":
            store["__parser_func__"] = "cached-parser-func"
        elif cached == "no-parser-marker":
            store["__parser_func__"] = "NoParserDefined-marker"

        class ClsDict(SVal):
            def meth_get(s, cx2, k):
                return store.get(k)

        class TheCls(SVal):
            parser = "the-inner-parser" if has_parser else None

            def __init__(s):
                s.is_model = is_model

            def py_getattr(s, cx2, n):
                if n == "__dict__":
                    return ClsDict()
                if n == "validate":
                    return "cls.validate"
                raise Unsupported("class attribute " + n)

            def py_setattr(s, cx2, n, v):
                cx2.effect("cache", n, v)
                store[n] = v

        a = A(cls=TheCls())
        a.cached, a.has_parser, a.is_model, a.store = cached, has_parser, is_model, store
        return a

    def raises(self, cx, a):
        return {}

    def ensures(self, cx, a, res):
        from pyvc.engine import Closure

        ys = [v for k, v in getattr(cx, "yielded", []) if k == "one"]
        want_model = ["cls.validate"] if a.is_model else []
        out = []
        if a.cached == "a-func":
            ok = ys == ["cached-parser-func"] + want_model and not [e for e in cx.fx if e[0] in ("get_parser", "cache")]
            out.append(("a-cached-parser-function-is-reused", z3.BoolVal(bool(ok)), "the validator built once for a class is reused"))
        elif a.cached == "no-parser-marker" or not a.has_parser:
            ok = ys == want_model
            out.append(("without-a-parser-only-the-model-s-own-validation", z3.BoolVal(bool(ok)), "a class without its own Parser contributes no parser validator; a model still validates as a model"))
            if a.cached == "nothing":
                out.append(("the-absence-is-cached-too", z3.BoolVal(a.store.get("__parser_func__") == "NoParserDefined-marker"), ""))
        else:
            ok = len(ys) == 1 + len(want_model) and isinstance(ys[0], Closure) and ys[1:] == want_model and a.store.get("__parser_func__") is ys[0]
            out.append(("with-a-parser-its-validator-comes-first-and-is-cached", z3.BoolVal(bool(ok)), "the parser validator runs BEFORE the model's own validation (so the parser can normalise the input first)"))
            if ok:
                class Field(SVal):
                    def py_getattr(s, cx2, n):
                        if n == "type_":
                            return "the-field-type"
                        raise Unsupported("field attribute " + n)

                before = len(cx.fx)
                r = cx.run.interp.call_closure(cx, ys[0], [a.cls, "the-value"], {"field": Field()})
                rp = [e for e in cx.fx[before:] if e[0] == "run_parser"]
                out.append(("the-validator-runs-the-class-s-own-parser-for-the-field-type", z3.BoolVal(len(rp) == 1 and rp[0][1] == "the-inner-parser" and rp[0][2] == "the-field-type" and rp[0][3] == "the-value" and r == "parsed-value"), "the validator handed to pydantic is run_parser(<the class's own Parser>, <the field's type>, value)"))
        return out


def add_parsers(reg):
    def super_parse(cx, obj, tcls, v):
        a = [x for x in [cx.ghost.get("pint")] if x is not None]
        cx.effect("super-parse", tcls, v)
        o = cx.ghost["pint_outcome"]
        if o == "ok":
            return "string-parser-result"
        cx.py_raise({"TypeError": "TypeError", "ValueError": "ValueError", "OtherError": "UndefinedUnitError"}[o], "failure inside pint")

    reg.method_bindings[("PintParser", "super.parse")] = super_parse
    return [BaseParse(), RunParser(), GetParser(), PintParse(), GetValidators()]


def add_valuetypes(reg):
    specs = [DurationParse(), StringParse()]
    for s in specs:
        reg.add(s)
    return specs
