"""schema/types.py value parsers as far as they are the repository's own code (C12: object form and string form of a value are normalised alike)."""
from __future__ import annotations

import z3

from pyvc.api import A, FnSpec
from pyvc.engine import SClass
from pyvc.values import SVal, Unsupported

T_VALUES = [
    "isodate.parse_duration / Duration.total_seconds / the target class constructors (pint, isodate) are external: uninterpreted here, exercised by the bounded tier",
]


class Tok(SVal):
    """an opaque python value identified by how it was obtained"""

    def __init__(self, *desc):
        self.desc = desc

    def py_truth(self, cx):
        return True

    def eq(self, o):
        return isinstance(o, Tok) and _eq(self.desc, o.desc)

    def meth_total_seconds(self, cx):
        return Tok("total_seconds", self)


def _eq(x, y):
    if isinstance(x, Tok):
        return x is y or x.eq(y)
    if isinstance(x, tuple):
        return isinstance(y, tuple) and len(x) == len(y) and all(_eq(a, b) for a, b in zip(x, y))
    return x is y or (not isinstance(x, SVal) and not isinstance(y, SVal) and x == y)


class Input(Tok):
    """the value handed to a parser: a str | an instance of the target class | something else"""

    def __init__(self, kind):
        Tok.__init__(self, "input", kind)
        self.kind = kind

    def py_isinstance(self, cx, c):
        names = c if isinstance(c, (tuple, list)) else [c]
        out = False
        for n in names:
            n = getattr(n, "name", n)
            if n == "str":
                out = out or self.kind == "str"
            elif n == "TargetCls":
                out = out or self.kind == "obj"
            elif n != "object":
                raise Unsupported(f"isinstance against {n!r}")
        return out

    def py_truth(self, cx):
        if self.kind == "str":
            return z3.Bool("input_text_is_not_empty")
        return True


class TargetCls(SVal):
    name = "TargetCls"

    def py_call(self, cx, *a, **kw):
        return Tok("TargetCls(...)", tuple(a), tuple(sorted(kw.items())))

    def py_getattr(self, cx, n):
        if n == "__name__":
            return "TargetCls"
        raise Unsupported("class attribute " + n)


class IsoMod(SVal):
    def meth_parse_duration(self, cx, v):
        return Tok("isodate.parse_duration", v)


def _setup(cx):
    kind = ["str", "obj", "other"][cx.choose(3)]
    a = A(cls=SClass("Parser"), tcls=TargetCls(), v=Input(kind))
    a.kind = kind
    return a


class DurationParse(FnSpec):
    file = "schema/types.py"
    qual = "Duration.Parser.parse"
    props = ("C12",)

    def init(self):
        self.bindings["isodate"] = IsoMod()
        self.bindings["type"] = lambda cx, o: "<type>"

    def setup(self, cx):
        return _setup(cx)

    def raises(self, cx, a):
        return {"TypeError": z3.BoolVal(a.kind == "other")}

    def ensures(self, cx, a, res):
        dur = Tok("isodate.parse_duration", a.v) if a.kind == "str" else a.v
        want = Tok("TargetCls(...)", (), (("seconds", Tok("total_seconds", dur)),))
        return [("rebuilt-from-total-seconds-in-both-forms", z3.BoolVal(isinstance(res, Tok) and res.eq(want)), "a Duration OBJECT is normalised exactly like the text it serialises to: both are rebuilt from the total number of seconds (so an instance equals what parsing its own serialisation gives)")]


class StringParse(FnSpec):
    file = "schema/types.py"
    qual = "StringParser.parse"
    props = ("C12",)

    def init(self):
        self.bindings["type"] = lambda cx, o: "<type>"

    def setup(self, cx):
        return _setup(cx)

    def raises(self, cx, a):
        return {"TypeError": z3.BoolVal(a.kind == "other")}

    def ensures(self, cx, a, res):
        if a.kind == "obj":
            return [("an-instance-is-kept", z3.BoolVal(res is a.v), "an instance of the target class is returned as it is")]
        want = Tok("TargetCls(...)", (a.v,), ())
        return [("text-goes-through-the-constructor", z3.BoolVal(isinstance(res, Tok) and res.eq(want)), "a text is handed to the target class's constructor unchanged (no stripping, no case folding)")]


def add_valuetypes(reg):
    specs = [DurationParse(), StringParse()]
    for s in specs:
        reg.add(s)
    return specs
