"""The small functions of the plugin system that C16 (and C13) rest on: PluginBase.parse_info / ref, is_pluginlike,
implements_method / check_implements_method / check_is_subclass, MarkerMixin._is_marked / _mark_class / _unwrap,
PluginGroup.provider / is_plugin / keys / _explicit_plugin_deps / _check_common / check_plugin / init_plugin."""
from __future__ import annotations

import z3

from pyvc.api import A, FnSpec
from pyvc.containers import SObj
from pyvc.engine import SClass
from pyvc.values import SBool, SStr, SVal, Unsupported

S, B = z3.StringSort(), z3.BoolSort()
SEMVER_STR = z3.Function("to_semver_str_of", z3.DeclareSort("VersionTuple"), S)
Ver = SEMVER_STR.domain(0)

T_MISC = [
    "T4 ChainMap(*(c.__dict__ for c in cls.__mro__)) maps every attribute name found along the mro to the value the nearest class gives it; issubclass / isinstance / type identity are CPython's",
    "to_semver_str / to_ep_name have their own contracts (C16)",
]


class VerV(SVal):
    def __init__(self, t):
        self.t = t

    def py_truth(self, cx):
        return True


# ---- PluginBase.parse_info ---------------------------------------------------------------------------------------------------------------------------------
class AttrsTok(SVal):
    """the public attributes collected from the info class (and its bases): handed to the model constructor as **kwargs"""

    as_kwargs = True

    def __init__(self, src):
        self.src = src


class MroDicts(SVal):
    """(c.__dict__ for c in info.__mro__): the attribute dicts along the mro, nearest class first"""

    elementwise = True


class ChainTok(SVal):
    def __init__(self, info):
        self.info = info

    def meth_items(self, cx):
        return ChainItems(self)


class ChainItems(SVal):
    def __init__(self, c):
        self.c = c


def public_filter_schema(interp, cx, fr, e):
    """{k: v for k, v in fields.items() if is_public_name(k)}"""
    import ast

    if not isinstance(e, ast.DictComp) or len(e.generators) != 1:
        return NotImplemented
    g = e.generators[0]
    src = interp.eval(cx, fr, g.iter)
    if not isinstance(src, ChainItems):
        return NotImplemented
    ok = isinstance(g.target, ast.Tuple) and [getattr(x, "id", None) for x in g.target.elts] == ["k", "v"] and isinstance(e.key, ast.Name) and e.key.id == "k" and isinstance(e.value, ast.Name) and e.value.id == "v" and len(g.ifs) == 1 and ast.unparse(g.ifs[0]) == "is_public_name(k)"
    cx.oblige("exactly-the-public-attributes-are-validated", "call-pre", z3.BoolVal(bool(ok)), clause="the plugin info model is built from all public attributes of the inner Plugin class (inherited ones included), private ones left out")
    return AttrsTok(src.c)


class ParseInfo(FnSpec):
    file = "schema/plugins.py"
    qual = "PluginBase.parse_info"
    props = ("C16",)

    def init(self):
        def mro_dicts(interp, cx, fr, e):
            import ast

            ok = isinstance(e, ast.GeneratorExp) and len(e.generators) == 1 and not e.generators[0].ifs and ast.unparse(e.generators[0].iter) == "info.__mro__" and ast.unparse(e.elt) == ast.unparse(e.generators[0].target) + ".__dict__"
            if not ok:
                return NotImplemented
            return MroDicts()

        self.comps[0] = mro_dicts
        self.comps[1] = public_filter_schema
        self.bindings["to_semver_str"] = lambda cx, v: SStr(SEMVER_STR(v.t))
        self.bindings["ChainMap"] = lambda cx, *a: ChainTok(a) if len(a) == 1 and isinstance(a[0], MroDicts) else (_ for _ in ()).throw(Unsupported("ChainMap of something else"))
        self.bindings["ValidationError"] = SClass("ValidationError")

    def setup(self, cx):
        already = cx.choose(2) == 1
        ep_given = cx.choose(2) == 1

        class Info(SVal):
            def py_isinstance(s, cx2, c):
                return already

            def py_getattr(s, cx2, n):
                if n == "name":
                    return SStr(z3.String("declared_name"))
                if n == "version":
                    return VerV(z3.Const("declared_version", Ver))
                if n == "__mro__":
                    return MroTok()
                raise Unsupported("info attribute " + n)

        class MroTok(SVal):
            elementwise = True

        class Cls(SVal):
            name = "PluginBaseSub"

            def py_call(s, cx2, **kw):
                k = kw.get("__symbolic_kwargs__")
                cx2.effect("construct", k)
                if cx2.decide(z3.Bool("plugin_section_is_invalid")):
                    cx2.py_raise("ValidationError", "invalid Plugin section")
                return ("info-model", k)

        a = A(cls=Cls(), info=Info(), ep_name=SStr(z3.String("ep_name")) if ep_given else "")
        a.already, a.ep_given = already, ep_given
        return a

    def expected(self):
        return z3.Concat(z3.String("declared_name"), z3.StringVal("__"), SEMVER_STR(z3.Const("declared_version", Ver)))

    def raises(self, cx, a):
        if a.already:
            return {}
        mismatch = z3.And(z3.String("ep_name") != z3.StringVal(""), z3.String("ep_name") != self.expected()) if a.ep_given else z3.BoolVal(False)
        return {"ValueError": mismatch, "TypeError": z3.And(z3.Not(mismatch), z3.Bool("plugin_section_is_invalid"))}

    def on_raise(self, cx, a, exc):
        if exc.cls == "ValueError":
            return [("a-wrong-entry-point-name-is-refused-before-validation", z3.BoolVal(not cx.fx), "")]
        return []

    def ensures(self, cx, a, res):
        if a.already:
            return [("an-already-parsed-info-is-kept", z3.BoolVal(res is a.info), "")]
        c = [e for e in cx.fx if e[0] == "construct"]
        ok = len(c) == 1 and isinstance(c[0][1], AttrsTok) and res == ("info-model", c[0][1])
        return [("entry-point-name-agrees-with-the-declared-name-and-version", z3.BoolVal(bool(ok)), "a plugin is only accepted under the entry point name <declared name>__<declared version> (C16: what is registered is what the class says it is); the info is then validated as the group's plugin info model")]


# ---- PluginBase.ref -------------------------------------------------------------------------------------------------------------------------------------------
class InfoRef(FnSpec):
    file = "schema/plugins.py"
    qual = "PluginBase.ref"
    props = ("C16",)

    def init(self):
        class Groups(SVal):
            def py_getitem(s, cx, k):
                cx.effect("group", k)
                return Grp(k)

        class Grp(SVal):
            def __init__(s, k):
                s.k = k

            def meth_PluginRef(s, cx, **kw):
                return ("ref", s.k, kw)

        self.bindings["plugingroups"] = Groups()

    def setup(self, cx):
        me = SObj("PluginBaseObj", name="self")
        has_group = cx.choose(2) == 1
        with_ver = cx.choose(2) == 1
        me.fields["group"] = "the-group" if has_group else ""
        me.fields["name"] = "the-name"
        me.fields["version"] = VerV(z3.Const("own_version", Ver))
        a = A(self=me, version=VerV(z3.Const("given_version", Ver)) if with_ver else None)
        a.has_group, a.with_ver = has_group, with_ver
        return a

    def raises(self, cx, a):
        return {"AssertionError": z3.BoolVal(not a.has_group)}

    def ensures(self, cx, a, res):
        ok = isinstance(res, tuple) and res[0] == "ref" and res[1] == "the-group" and set(res[2]) == {"name", "version"} and res[2]["name"] == "the-name"
        v = res[2]["version"] if ok else None
        return [("a-reference-of-the-plugin-s-own-group-name-and-version", z3.BoolVal(bool(ok) and (v is a.version if a.with_ver else v is a.self.fields["version"])), "info.ref() is the reference (in the info's OWN group's reference class) to exactly this name and version (or the version asked for)")]


# ---- is_pluginlike / implements_method / check_* -------------------------------------------------------------------------------------------------------------------
class ClassWithDict(SVal):
    def __init__(self, entries, name="TheClass"):
        self.entries, self.name = entries, name

    def py_truth(self, cx):
        return True

    def py_getattr(self, cx, n):
        if n == "__dict__":
            return DictOf(self.entries)
        if n == "__name__":
            return self.name
        raise Unsupported("class attribute " + n)


class DictOf(SVal):
    def __init__(self, entries):
        self.entries = entries

    def meth_get(self, cx, k, d=None):
        if isinstance(k, SVal):
            raise Unsupported("symbolic key")
        return self.entries.get(k, d)


class IsPluginLike(FnSpec):
    file = "plugin/types.py"
    qual = "is_pluginlike"
    props = ("C16",)

    def init(self):
        self.bindings["PluginInfoLike"] = SClass("PluginInfoLike")
        self.bindings["HasNameVersion"] = SClass("HasNameVersion")

    def setup(self, cx):
        own = cx.choose(2) == 1
        check_group = cx.choose(2) == 1

        class Pgi(SVal):
            def py_truth(s, cx2):
                return True

            def py_isinstance(s, cx2, c):
                return {"PluginInfoLike": z3.Bool("info_has_name_version_and_group"), "HasNameVersion": z3.Bool("info_has_name_and_version")}[c]

        a = A(cls=ClassWithDict({"Plugin": Pgi()} if own else {}), check_group=check_group)
        a.own, a.cg = own, check_group
        return a

    def raises(self, cx, a):
        return {}

    def ensures(self, cx, a, res):
        rt = res if isinstance(res, bool) else None
        if not a.own:
            return [("no-own-Plugin-section-no-plugin", z3.BoolVal(res is False), "an inherited Plugin section does not make a class plugin-like (looked up in the class's own __dict__)")]
        want = z3.Bool("info_has_name_version_and_group") if a.cg else z3.Bool("info_has_name_and_version")
        got = z3.BoolVal(rt) if rt is not None else (res if z3.is_expr(res) else getattr(res, "t", None))
        return [("own-section-of-the-required-shape", z3.BoolVal(False) if got is None else got == want, "with check_group the section must carry group, name and version; without, name and version")]


class ImplementsMethod(FnSpec):
    file = "plugin/util.py"
    qual = "implements_method"
    props = ("C16",)

    def setup(self, cx):
        kind = ["absent", "same", "different"][cx.choose(3)]

        class Meth(SVal):
            def __init__(s, tag):
                s.tag = tag

            def py_getattr(s, cx2, n):
                if n == "__name__":
                    return "the_method"
                raise Unsupported("method attribute " + n)

            def py_eq(s, cx2, o):
                return isinstance(o, Meth) and o.tag == s.tag

            def py_is_none(s, cx2):
                return False

        base = Meth("base")
        entries = {} if kind == "absent" else {"the_method": base if kind == "same" else Meth("override")}
        a = A(plugin=ClassWithDict(entries), base_method=base)
        a.kind = kind
        return a

    def raises(self, cx, a):
        return {}

    def ensures(self, cx, a, res):
        return [("implemented-iff-the-class-itself-defines-a-different-method-of-that-name", z3.BoolVal(res is (a.kind == "different")), "")]


class CheckHelpers(FnSpec):
    """check_implements_method / check_is_subclass: TypeError exactly when the tested relation fails"""

    file = "plugin/util.py"
    props = ("C16",)

    def __init__(self, which):
        self.which = which
        self.qual = which
        super().__init__()

    def init(self):
        self.bindings["implements_method"] = lambda cx, p, m: SBool(z3.Bool("relation_holds"))
        self.bindings["issubclass"] = lambda cx, p, b: SBool(z3.Bool("relation_holds"))

    def setup(self, cx):
        m = ClassWithDict({}, name="base_method")
        if self.which == "check_implements_method":
            return A(name="ep-name", plugin="the-plugin", base_method=m)
        return A(name="ep-name", plugin="the-plugin", base="the-base")

    def raises(self, cx, a):
        return {"TypeError": z3.Not(z3.Bool("relation_holds"))}


# ---- MarkerMixin ---------------------------------------------------------------------------------------------------------------------------------------------
class MarkerCls(SVal):
    name = "Marker"

    def py_getattr(self, cx, n):
        if n == "__name__":
            return "Marker"
        raise Unsupported("marker attribute " + n)


class Unwrap(FnSpec):
    file = "plugin/metaclass.py"
    qual = "MarkerMixin._unwrap"
    props = ("C16",)

    def init(self):
        self.bindings["issubclass"] = lambda cx, c, m: SBool(z3.Bool("class_derives_from_the_marker"))
        self.bindings["getattr"] = lambda cx, o, n: ("attr", o, n)

    def setup(self, cx):
        me = MarkerCls()

        class Cls(MarkerCls):
            def meth__fieldname(s, cx2):
                return "__Marker_unwrapped__"

        return A(cls=Cls(), c="the-class")

    def raises(self, cx, a):
        return {}

    def ensures(self, cx, a, res):
        m = z3.Bool("class_derives_from_the_marker")
        if res is None:
            return [("unmarked-gives-none", z3.Not(m), "")]
        return [("marked-gives-the-original-class-stored-on-it", z3.And(m, z3.BoolVal(res == ("attr", "the-class", "__Marker_unwrapped__"))), "the original class is read from the marker's own field of the marked class")]


class IsMarked(FnSpec):
    file = "plugin/metaclass.py"
    qual = "MarkerMixin._is_marked"
    props = ("C16",)

    def init(self):
        self.bindings["issubclass"] = lambda cx, c, m: SBool(z3.Bool("class_derives_from_the_marker"))

    def setup(self, cx):
        same = cx.choose(2) == 1
        m = MarkerCls()
        a = A(cls=m, c=m if same else "another-class")
        a.same = same
        return a

    def raises(self, cx, a):
        return {}

    def ensures(self, cx, a, res):
        rt = z3.BoolVal(res) if isinstance(res, bool) else getattr(res, "t", res)
        return [("proper-subclass-only", rt == z3.And(z3.BoolVal(not a.same), z3.Bool("class_derives_from_the_marker")), "the marker itself is not 'marked'")]


# ---- PluginGroup: provider / is_plugin / keys / _explicit_plugin_deps / _check_common / check_plugin / init_plugin ---------------------------------------------------
def pg_obj(cx, exact=True):
    me = SObj("PluginGroupMisc", name="self")
    return me


class Provider(FnSpec):
    file = "plugin/interface.py"
    qual = "PluginGroup.provider"
    props = ("C16", "C20")

    def init(self):
        self.bindings["PG_GROUP_NAME"] = "plugingroup"
        self.bindings["PluginGroup"] = SClass("PluginGroup")
        self.bindings["type"] = lambda cx, o: SClass("PluginGroup") if cx.ghost["pv"].is_root_group else SClass("SomeSubclass")

        class Util(SVal):
            def meth_to_ep_name(s, cx, n, v):
                return ("ep-name-of", n, v)

        self.bindings["util"] = Util()

    def setup(self, cx):
        is_root = cx.choose(2) == 1
        me = pg_obj(cx)

        class Eps(SVal):
            def py_getitem(s, cx2, k):
                cx2.effect("entry-point", k)
                return Ep(k)

        class Ep(SVal):
            def __init__(s, k):
                s.k = k

            def py_getattr(s, cx2, n):
                if n == "dist":
                    return type("D", (SVal,), {"py_getattr": lambda s2, cx3, n2: ("dist-name-of", s.k) if n2 == "name" else (_ for _ in ()).throw(Unsupported(n2))})()
                raise Unsupported("entry point attribute " + n)

        class Pk(SVal):
            def py_getitem(s, cx2, k):
                return ("pkg-meta-of", k)

        me.fields["_ENTRY_POINTS"], me.fields["_PKG_META"] = Eps(), Pk()
        me.fields["resolve"] = lambda cx2, n: (cx2.effect("resolve", n), RefV("schema-group-ref"))[1]
        a = A(self=me, ref=RefV("asked", name=SStr(z3.String("asked_name"))))
        a.is_root_group = is_root
        cx.ghost["pv"] = a
        # the recursive call self.provider(...) by contract
        me.fields["provider"] = lambda cx2, r: (cx2.effect("provider-of", r), ("provider-of", r))[1]
        return a

    def raises(self, cx, a):
        return {}

    def ensures(self, cx, a, res):
        special = z3.And(z3.BoolVal(a.is_root_group), z3.String("asked_name") == z3.StringVal("plugingroup"))
        rec = [e for e in cx.fx if e[0] == "provider-of"]
        if rec:
            ok = len(rec) == 1 and isinstance(rec[0][1], RefV) and rec[0][1].tag == "schema-group-ref" and res == ("provider-of", rec[0][1])
            return [("the-plugingroup-group-itself-is-provided-by-the-package-of-the-schema-group", z3.And(special, z3.BoolVal(bool(ok))), "")]
        eps = [e for e in cx.fx if e[0] == "entry-point"]
        ok = len(eps) == 1 and isinstance(eps[0][1], tuple) and eps[0][1][0] == "ep-name-of" and eps[0][1][1] is a.ref.name and eps[0][1][2] == "version-of-asked" and res == ("pkg-meta-of", ("dist-name-of", eps[0][1]))
        return [("package-of-the-entry-point-registered-for-exactly-that-name-and-version", z3.And(z3.Not(special), z3.BoolVal(bool(ok))), "the providing package is the distribution of the entry point named to_ep_name(ref.name, ref.version) — the exact release, not some other version of the plugin")]


class RefV(SVal):
    def __init__(self, tag, name=None):
        self.tag, self.name = tag, name

    def py_getattr(self, cx, n):
        if n == "name":
            return self.name if self.name is not None else "name-of-" + self.tag
        if n == "version":
            return "version-of-" + self.tag
        raise Unsupported("ref attribute " + n)

    def py_truth(self, cx):
        return True


class IsPlugin(FnSpec):
    file = "plugin/interface.py"
    qual = "PluginGroup.is_plugin"
    props = ("C16", "C13")

    def init(self):
        self.bindings["type"] = SClass("type")
        self.bindings["PluginBase"] = SClass("PluginBase")
        self.bindings["isinstance"] = self._isinstance
        self.bindings["issubclass"] = lambda cx, c, b: SBool(z3.Bool("derives_from_the_group_s_plugin_class"))

        class UV(SVal):
            def meth__unwrap(s, cx, c):
                a = cx.ghost["ip"]
                if cx.decide(z3.Bool("class_is_marked_version_unspecified")):
                    a.current = a.real
                    return a.real
                a.current = a.arg
                return None

        self.bindings["UndefVersion"] = UV()

    @staticmethod
    def _isinstance(cx, o, c):
        n = getattr(c, "name", c)
        if n == "type":
            return SBool(z3.Bool("argument_is_a_class"))
        if n == "PluginBase":
            return SBool(z3.Bool("its_Plugin_section_is_a_parsed_info"))
        raise Unsupported("isinstance against " + str(n))

    def setup(self, cx):
        has_section = cx.choose(2) == 1
        me = pg_obj(cx)

        class InfoTok(SVal):
            def py_truth(s, cx2):
                return True

            def py_getattr(s, cx2, n):
                return {"name": "declared-name", "version": "declared-version"}[n]

        class Real(ClassWithDict):
            pass

        real = Real({"Plugin": InfoTok()} if has_section else {}, name="real")
        arg = Real({"Plugin": InfoTok()} if has_section else {}, name="arg")

        class GP(SVal):
            def py_getattr(s, cx2, n):
                if n == "plugin_class":
                    return "group-plugin-class"
                raise Unsupported(n)

        me.fields["Plugin"] = GP()
        loaded_is_it = z3.Bool("the_loaded_plugin_for_that_name_and_version_is_this_very_class")

        class Loaded(SVal):
            pass

        def get_unsafe(cx2, n, v):
            cx2.effect("get_unsafe", n, v)
            if cx2.decide(z3.Bool("no_such_plugin_installed")):
                cx2.py_raise("KeyError", "not installed")
            if cx2.decide(loaded_is_it):
                return cx2.ghost["ip"].current
            return LoadedTok()

        class LoadedTok(SVal):
            pass

        me.fields["_get_unsafe"] = get_unsafe
        a = A(self=me, p_cls=arg)
        a.real, a.arg, a.has_section, a.current = real, arg, has_section, None
        cx.ghost["ip"] = a
        return a

    raises_exact = False

    def raises(self, cx, a):
        return {"KeyError": z3.And(z3.Bool("argument_is_a_class"), z3.Bool("derives_from_the_group_s_plugin_class"), z3.BoolVal(a.has_section), z3.Bool("its_Plugin_section_is_a_parsed_info"), z3.Bool("no_such_plugin_installed"))}

    def ensures(self, cx, a, res):
        pre = z3.And(z3.Bool("argument_is_a_class"), z3.Bool("derives_from_the_group_s_plugin_class"), z3.BoolVal(a.has_section), z3.Bool("its_Plugin_section_is_a_parsed_info"))
        g = [e for e in cx.fx if e[0] == "get_unsafe"]
        if res is False and not g:
            return [("no-without-the-shape-of-a-plugin", z3.Not(pre), "anything that is not a class of the group's plugin class with its OWN parsed Plugin section is no plugin")]
        asked = len(g) == 1 and g[0][1] == "declared-name" and g[0][2] == "declared-version"
        rt = z3.BoolVal(res) if isinstance(res, bool) else getattr(res, "t", None)
        same = z3.Bool("the_loaded_plugin_for_that_name_and_version_is_this_very_class")
        return [("compared-by-identity-with-what-is-loaded-for-its-own-name-and-version", z3.And(pre, z3.BoolVal(bool(asked)), z3.BoolVal(False) if rt is None else rt == same), "a class counts as an installed plugin only if the plugin LOADED for its declared name and version is this very class (identity, after unwrapping a version-unspecified marker) — a look-alike with the same Plugin section does not pass")]


class Keys(FnSpec):
    file = "plugin/interface.py"
    qual = "PluginGroup.keys"
    props = ("C16",)

    def init(self):
        from pyvc.api import LoopSpec

        def inv(cx, env, it):
            return []

        self.loops[0] = LoopSpec(inv, modifies=["pgs"])

    def on_yield(self, cx, v):
        a = cx.ghost["ks"]
        cx.oblige("yields-the-refs-of-one-name-s-version-list", "call-pre", z3.BoolVal(isinstance(v, tuple) and v[0] == "from" and isinstance(v[1], VersionList)), clause="")

    def setup(self, cx):
        from pyvc.containers import STR, SSet, SetIter

        me = pg_obj(cx)
        names = SSet.fresh(STR, "plugin_names")

        class Versions(SVal):
            def meth_values(s, cx2):
                class _It(SVal):
                    def py_iter_schema(s2, cx3):
                        return SetIter(STR, names.dom, lambda kt: VersionList(kt))

                return _It()

        me.fields["_VERSIONS"] = Versions()
        a = A(self=me)
        cx.ghost["ks"] = a
        return a

    def raises(self, cx, a):
        return {}

    def ensures(self, cx, a, res):
        return [("nothing-else-is-yielded", z3.BoolVal(not getattr(cx, "yielded", [])), "keys() yields, for every plugin name, all references of its version list (yield from) and nothing besides")]


class VersionList(SVal):
    def __init__(self, kt):
        self.kt = kt


class ExplicitDeps(FnSpec):
    file = "plugin/interface.py"
    qual = "PluginGroup._explicit_plugin_deps"
    props = ("C16",)

    def init(self):
        self.bindings["set"] = lambda cx, x=None: SetTok(x)

    def setup(self, cx):
        none = cx.choose(2) == 1
        me = pg_obj(cx)
        me.fields["plugin_deps"] = lambda cx2, p: None if none else "inferred-deps"

        class P(SVal):
            def py_getattr(s, cx2, n):
                if n == "Plugin":
                    return type("I", (SVal,), {"py_getattr": lambda s2, cx3, n2: "declared-requires" if n2 == "requires" else (_ for _ in ()).throw(Unsupported(n2))})()
                raise Unsupported(n)

        a = A(self=me, plugin=P())
        a.none = none
        return a

    def raises(self, cx, a):
        return {}

    def ensures(self, cx, a, res):
        ok = isinstance(res, tuple) and res[0] == "union" and res[1].src == "declared-requires" and (res[2].src == "inferred-deps" if not a.none else (isinstance(res[2].src, SetTok) and res[2].src.src is None))
        return [("declared-requirements-united-with-the-inferred-ones", z3.BoolVal(bool(ok)), "the dependencies loaded before a plugin are the union of what its Plugin section requires and what the group infers (for schemas: the parent schema); no inferred ones is the empty set")]


class SetTok(SVal):
    def __init__(self, src):
        self.src = src

    def py_truth(self, cx):
        return self.src is not None

    def meth_union(self, cx, o):
        return ("union", self, o)


class CheckCommon(FnSpec):
    file = "plugin/interface.py"
    qual = "PluginGroup._check_common"
    props = ("C16", "C13")

    def init(self):
        class Util(SVal):
            def meth_check_is_subclass(s, cx, n, p, b):
                cx.effect("check_is_subclass", n, p, b)

        self.bindings["util"] = Util()

    def setup(self, cx):
        stated = cx.choose(2) == 1
        me = pg_obj(cx)
        me.fields["Plugin"] = type("GP", (SVal,), {"py_getattr": lambda s, cx2, n: ("group-plugin-class" if stated else None) if n == "plugin_class" else (_ for _ in ()).throw(Unsupported(n))})()
        a = A(self=me, ep_name="ep-name", plugin="the-plugin")
        a.stated = stated
        return a

    def raises(self, cx, a):
        return {}

    def ensures(self, cx, a, res):
        c = [e[:-1] for e in cx.fx]
        return [("base-class-checked-iff-the-group-states-one", z3.BoolVal(c == ([("check_is_subclass", "ep-name", "the-plugin", "group-plugin-class")] if a.stated else [])), "every plugin of a group that states a plugin class must derive from it (for schemas: MetadataSchema)")]


class GroupCheckPlugin(FnSpec):
    file = "plugin/interface.py"
    qual = "PluginGroup.check_plugin"
    props = ("C16",)

    def init(self):
        class Util(SVal):
            def meth_check_is_subclass(s, cx, n, p, b):
                cx.effect("check_is_subclass", n, p, b)

            def meth_check_implements_method(s, cx, n, p, m):
                cx.effect("check_implements_method", n, p, m)

        self.bindings["util"] = Util()
        self.bindings["PluginBase"] = "PluginBase-class"

    def setup(self, cx):
        is_itself = cx.choose(2) == 1

        class PGCls(SVal):
            def py_getattr(s, cx2, n):
                if n == "check_plugin":
                    return "PluginGroup.check_plugin"
                raise Unsupported(n)

            def py_eq(s, cx2, o):
                return o is s

        pgc = PGCls()
        self.bindings["PluginGroup"] = pgc
        me = pg_obj(cx)
        me.fields["Plugin"] = type("GP", (SVal,), {"py_getattr": lambda s, cx2, n: "info-class" if n == "plugin_info_class" else (_ for _ in ()).throw(Unsupported(n))})()
        a = A(self=me, ep_name="ep-name", plugin=pgc if is_itself else "another-group-class")
        a.is_itself, a.pgc = is_itself, pgc
        return a

    def raises(self, cx, a):
        return {}

    def ensures(self, cx, a, res):
        c = [e[:-1] for e in cx.fx]
        want = [("check_is_subclass", "ep-name", a.plugin, a.pgc), ("check_is_subclass", "ep-name", "info-class", "PluginBase-class")]
        if not a.is_itself:
            want.append(("check_implements_method", "ep-name", "another-group-class", "PluginGroup.check_plugin"))
        return [("a-plugin-group-plugin-is-a-PluginGroup-with-its-own-check", z3.BoolVal(c == want), "a plugin GROUP must derive from PluginGroup, use a PluginBase info class and implement its own check_plugin (only PluginGroup itself is exempt)")]


class GroupInitPlugin(FnSpec):
    file = "plugin/interface.py"
    qual = "PluginGroup.init_plugin"
    props = ("C16",)

    def init(self):
        self.bindings["create_pg"] = lambda cx, p: cx.effect("create_pg", p)
        self.bindings["PluginGroup"] = SClass("PluginGroup")
        self.bindings["type"] = lambda cx, o: SClass("PluginGroup") if cx.ghost["gi"].exact else SClass("SomeSubclass")

    def setup(self, cx):
        a = A(self=pg_obj(cx), plugin="the-plugin")
        a.exact = cx.choose(2) == 1
        cx.ghost["gi"] = a
        return a

    def raises(self, cx, a):
        return {}

    def ensures(self, cx, a, res):
        c = [e[:-1] for e in cx.fx]
        return [("only-the-group-of-groups-instantiates-groups", z3.BoolVal(c == ([("create_pg", "the-plugin")] if a.exact else [])), "")]


def add_pluginmisc(reg):
    reg.set_class_home("PluginGroupMisc", "plugin/interface.py", "PluginGroup")
    reg.set_class_home("PluginBaseObj", "schema/plugins.py", "PluginBase")
    return add_markers(reg) + [ParseInfo(), InfoRef(), IsPluginLike(), ImplementsMethod(), CheckHelpers("check_implements_method"), CheckHelpers("check_is_subclass"), Unwrap(), IsMarked(), Provider(), IsPlugin(), Keys(), ExplicitDeps(), CheckCommon(), GroupCheckPlugin(), GroupInitPlugin()]


# ---- marking a class as 'obtained without a version' (C16: such handles can be told apart and cannot be subclassed) ---------------------------------------------
def add_markers(reg):
    from .oneliners import One, Tr, at, call, show

    c, cls = Tr(("arg", "c")), Tr(("arg", "cls"))
    marked = z3.Bool("class_is_already_marked")

    class MarkCls(Tr):
        def py_getattr(self, cx, n):
            if n == "_is_marked":
                return lambda cx2, x: SBool(marked)
            if n == "_fieldname":
                return lambda cx2: "__Marker_unwrapped__"
            return Tr.py_getattr(self, cx, n)

    mcls = MarkCls(("arg", "cls"))

    def _setattr(cx, o, n, v):
        cx.effect("setitem", show(o), show(n), show(v))

    new_cls = call(at(c, "__class__"), at(c, "__name__"), (mcls, c), {})
    m1 = One("plugin/metaclass.py", "MarkerMixin._mark_class", ("C16",), {"cls": mcls, "c": c}, bindings={"setattr": _setattr}, raises={"TypeError": marked}, result=new_cls, effects=[("setitem", show(new_cls), show("__Marker_unwrapped__"), show(c))], clause="marking creates a NEW class deriving from (marker, original) — the original is untouched — and records the original on it; a class that is already marked is refused")

    class RetCls(SVal):
        """what MarkerMixin._mark_class hands back: its own dict may or may not have a Plugin entry"""

        def __init__(self):
            self.assigned = None

        def py_getattr(self, cx, n):
            if n == "__dict__":
                return DictOf({"Plugin": "own-plugin-section"} if cx.ghost["mk_has"] else {})
            raise Unsupported("marked class attribute " + n)

        def py_setattr(self, cx, n, v):
            self.assigned = (n, v)

    class UV(FnSpec):
        file = "plugin/metaclass.py"
        qual = "UndefVersion._mark_class"
        props = ("C16",)

        def setup(self, cx):
            has = cx.choose(2) == 1
            cx.ghost["mk_has"] = has
            self.ret = RetCls()
            a = A(cls=Tr(("arg", "cls")), c=c)
            a.has = has
            return a

        def raises(self, cx, a):
            return {}

        def ensures(self, cx, a, res):
            want = None if a.has else ("Plugin", show(at(c, "Plugin")))
            got = None if self.ret.assigned is None else (self.ret.assigned[0], show(self.ret.assigned[1]))
            return [("the-marked-class-carries-the-original-s-Plugin-section", z3.BoolVal(res is self.ret and got == want), "the version-unspecified handle is the marked subclass; it gets the ORIGINAL's Plugin section (unless it has one of its own), so it can be used like the real class while staying distinguishable")]

    uv = UV()
    reg.method_bindings[("UndefVersion", "super._mark_class")] = lambda cx, obj, cc: uv.ret
    return [m1, uv]
