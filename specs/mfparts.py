"""ih5/manifest.py: the small parts the manifest life cycle is made of (C10, C02): IH5Manifest.from_userblock / save,
IH5UBExtManifest.get / update, IH5MFRecord._fresh_manifest / manifest / _manifest_filepath."""
from __future__ import annotations

import z3

from pyvc.api import A, FnSpec
from pyvc.containers import STR, SMap, SObj
from pyvc.values import SBool, SStr, SVal, Unsupported, fresh_name

S, B = z3.StringSort(), z3.BoolSort()
ExtV = z3.DeclareSort("UbExtensionValue")
EXT_NAME = "ih5mf_v01"

T_MFP = [
    "T5 pydantic: ub.copy() is a new object with the same field values; cls(**fields) builds the model from exactly these; self.dict() / parse_obj are inverse on the extension model; self.json(indent=2) is the model's JSON text",
    "T6 uuid1() is a new uuid; T2 open(path, 'wb') truncates or creates exactly that file, write/flush act on it",
]


class TExt:
    def sort(self):
        return ExtV

    def wrap(self, t):
        return ExtVal(t)

    def unwrap(self, cx, v):
        if isinstance(v, ExtVal):
            return v.t
        raise Unsupported("not an extension value")


class ExtVal(SVal):
    def __init__(self, t):
        self.t = t


class UbStub(SVal):
    """a user block: only ub_exts (a dict) matters here; copy() gives a new block with the same dict content"""

    def __init__(self, exts, origin=None):
        self.exts, self.origin = exts, origin

    def py_getattr(self, cx, n):
        if n == "ub_exts":
            return self.exts
        raise Unsupported("user block attribute " + n)

    def py_setattr(self, cx, n, v):
        if n != "ub_exts":
            raise Unsupported("assignment to user block attribute " + n)
        self.exts = v

    def meth_copy(self, cx):
        return UbStub(self.exts.snapshot(), origin=self)


class ExtCls(SVal):
    def meth_ext_name(self, cx):
        return EXT_NAME


class FromUserblock(FnSpec):
    file = "ih5/manifest.py"
    qual = "IH5Manifest.from_userblock"
    props = ("C10", "C02")

    def init(self):
        from pyvc.api import dict_items_filter

        self.bindings["IH5UBExtManifest"] = ExtCls()
        self.bindings["uuid1"] = lambda cx: (cx.effect("uuid1"), "fresh-uuid")[1]
        self.comps[0] = dict_items_filter

    def setup(self, cx):
        ub = UbStub(SMap.fresh(STR, TExt(), "ub_exts"))
        given = cx.choose(2) == 1

        class Cls(SVal):
            def py_call(s, cx2, *a_, **kw):
                return ("manifest", kw)

        skel, exts = ("skeleton-token" if given else None), ("exts-token" if given else None)
        a = A(cls=Cls(), ub=ub, skeleton=skel, exts=exts)
        a.given, a.ub0 = given, ub.exts.snapshot()
        return a

    def raises(self, cx, a):
        return {}

    def ensures(self, cx, a, res):
        ok = isinstance(res, tuple) and res[0] == "manifest" and set(res[1]) == {"manifest_uuid", "user_block", "skeleton", "manifest_exts"}
        if not ok:
            return [("a-manifest", z3.BoolVal(False), "")]
        kw = res[1]
        cp = kw["user_block"]
        k = z3.String(fresh_name("xk"))
        shape = isinstance(cp, UbStub) and cp.origin is a.ub and cp is not a.ub and isinstance(cp.exts, SMap)
        return [
            ("new-uuid-and-the-given-skeleton-and-extensions", z3.BoolVal(kw["manifest_uuid"] == "fresh-uuid" and (kw["skeleton"] == "skeleton-token" and kw["manifest_exts"] == "exts-token" if a.given else (kw["skeleton"] == {} and kw["manifest_exts"] == {}))), "every manifest gets a uuid of its own; skeleton and extensions are the ones given (empty if none)"),
            ("copy-of-the-block-without-the-manifest-extension", z3.BoolVal(False) if not shape else z3.ForAll([k], z3.And(cp.exts.has(k) == z3.And(a.ub0.has(k), k != z3.StringVal(EXT_NAME)), z3.Implies(cp.exts.has(k), cp.exts.get_term(k) == a.ub0.get_term(k)))), "the manifest embeds a COPY of the user block that keeps every other extension and drops only the manifest's own (which points back at the manifest)"),
            ("the-record-s-block-is-not-modified", a.ub.exts.same(cx, a.ub0), "the block handed in keeps its extensions"),
        ]


class ExtGet(FnSpec):
    file = "ih5/manifest.py"
    qual = "IH5UBExtManifest.get"
    props = ("C10", "C02")

    def setup(self, cx):
        class Cls(ExtCls):
            def meth_parse_obj(s, cx2, v):
                return ("parsed", v)

        ub = UbStub(SMap.fresh(STR, TExt(), "ub_exts"))
        return A(cls=Cls(), ub=ub)

    def raises(self, cx, a):
        return {}

    def ensures(self, cx, a, res):
        has = a.ub.exts.has(z3.StringVal(EXT_NAME))
        none = res is None
        return [
            ("none-iff-the-block-has-no-manifest-extension", z3.BoolVal(none) == z3.Not(has), "a block without the extension section is not a manifest-carrying one"),
            ("otherwise-parsed-from-that-section", z3.BoolVal(True) if none else z3.BoolVal(isinstance(res, tuple) and res[0] == "parsed" and isinstance(res[1], ExtVal)) if not (isinstance(res, tuple) and isinstance(res[1], ExtVal)) else res[1].t == a.ub.exts.get_term(z3.StringVal(EXT_NAME)), "the extension is parsed from the block's own section of that name"),
        ]


class ExtUpdate(FnSpec):
    file = "ih5/manifest.py"
    qual = "IH5UBExtManifest.update"
    props = ("C10", "C02")

    def setup(self, cx):
        me = SObj("IH5UBExtManifestObj", name="self")
        self.dict_t = z3.Const("dict_of_this_extension", ExtV)
        me.fields["ext_name"] = lambda cx2: EXT_NAME
        me.fields["dict"] = lambda cx2: ExtVal(self.dict_t)
        ub = UbStub(SMap.fresh(STR, TExt(), "ub_exts"))
        a = A(self=me, ub=ub)
        a.ub0 = ub.exts.snapshot()
        return a

    def raises(self, cx, a):
        return {}

    def ensures(self, cx, a, res):
        k = z3.String(fresh_name("uk"))
        e = a.ub.exts
        nm = z3.StringVal(EXT_NAME)
        return [("own-section-set-others-untouched", z3.ForAll([k], z3.And(e.has(k) == z3.Or(a.ub0.has(k), k == nm), e.get_term(k) == z3.If(k == nm, self.dict_t, a.ub0.get_term(k)))), "the block's manifest section becomes this extension's content; every other extension of the block stays")]


class FreshManifest(FnSpec):
    file = "ih5/manifest.py"
    qual = "IH5MFRecord._fresh_manifest"
    props = ("C10", "C02")

    def init(self):
        self.bindings["IH5Skeleton"] = type("SK", (SVal,), {"meth_for_record": lambda s, cx, r: ("skeleton-of", r)})()
        self.bindings["IH5Manifest"] = type("MF", (SVal,), {"meth_from_userblock": lambda s, cx, ub, **kw: ("from_userblock", ub, kw)})()

    def setup(self, cx):
        me = SObj("IH5MFRecordObj", name="self")
        me.fields["_ublock"] = lambda cx2, i: ("ublock", i)
        if cx.choose(2) == 1:  # a record that already has a loaded manifest with extensions: they are NOT taken over here

            class Loaded(SVal):
                def py_truth(s, cx2):
                    return True

                def py_getattr(s, cx2, n):
                    if n == "manifest_exts":
                        return "extensions-of-the-loaded-manifest"
                    raise Unsupported("manifest attribute " + n)

            me.fields["_manifest"] = Loaded()
        return A(self=me)

    def raises(self, cx, a):
        return {}

    def ensures(self, cx, a, res):
        ok = isinstance(res, tuple) and res[0] == "from_userblock" and res[1] == ("ublock", -1) and set(res[2]) == {"skeleton", "exts"} and res[2]["skeleton"] == ("skeleton-of", a.self) and res[2]["exts"] == {}
        return [("from-the-newest-block-and-the-current-skeleton-without-extensions", z3.BoolVal(bool(ok)), "a fresh manifest describes the record as it is now: the newest container's user block, the skeleton of the current view, no extensions (they are inherited or passed by commit_patch)")]


class ManifestProp(FnSpec):
    file = "ih5/manifest.py"
    qual = "IH5MFRecord.manifest"
    props = ("C10",)

    def setup(self, cx):
        me = SObj("IH5MFRecordObj", name="self")
        has = cx.choose(2) == 1
        me.fields["_manifest"] = "the-loaded-manifest" if has else None
        a = A(self=me)
        a.has = has
        return a

    def raises(self, cx, a):
        return {"ValueError": z3.BoolVal(not a.has)}

    def ensures(self, cx, a, res):
        return [("the-loaded-manifest", z3.BoolVal(res == "the-loaded-manifest"), "the manifest of the newest committed container, as loaded or written last")]


class ManifestPath(FnSpec):
    file = "ih5/manifest.py"
    qual = "IH5MFRecord._manifest_filepath"
    props = ("C10", "C02")

    def init(self):
        from .common_io import PathVal, path_term

        self.bindings["Path"] = lambda cx, p: PathVal(path_term(p))

    def setup(self, cx):
        from pyvc.engine import SClass

        return A(cls=SClass("IH5MFRecord"), record=SStr(z3.String("container_path")))

    def raises(self, cx, a):
        return {}

    def ensures(self, cx, a, res):
        from .common_io import PathVal

        return [("container-path-plus-mf-json", z3.BoolVal(False) if not isinstance(res, PathVal) else res.t == z3.Concat(a.record.t, z3.StringVal("mf.json")), "the sidecar of <container>.ih5 is <container>.ih5mf.json, next to it")]


class MfBytes(FnSpec):
    file = "ih5/manifest.py"
    qual = "IH5Manifest.__bytes__"
    props = ("C10",)

    def setup(self, cx):
        me = SObj("IH5ManifestObj", name="self")
        me.fields["json"] = lambda cx2, **kw: (cx2.effect("json", kw), SStr(z3.String("json_text_of_the_manifest")))[1]
        return A(self=me)

    def raises(self, cx, a):
        return {}

    def ensures(self, cx, a, res):
        from pyvc.values import SVal as _SV

        js = [e for e in cx.fx if e[0] == "json"]
        t = getattr(res, "t", None)
        enc = getattr(res, "encoding", None)
        return [("json-text-plus-newline-in-utf8", z3.BoolVal(False) if t is None or len(js) != 1 or js[0][1] != {"indent": 2} else z3.And(t == z3.Concat(z3.String("json_text_of_the_manifest"), z3.StringVal("\n")), z3.BoolVal(enc in (None, "utf-8"))), "the sidecar's bytes are the manifest's JSON text (indent 2) with one trailing newline, UTF-8 encoded")]


class MfSave(FnSpec):
    file = "ih5/manifest.py"
    qual = "IH5Manifest.save"
    props = ("C10", "C02")

    def init(self):
        def _open(cx, path, mode):
            cx.effect("open", path, mode)
            return FileTok(path)

        self.bindings["open"] = _open
        self.bindings["bytes"] = lambda cx, o: (cx.effect("bytes-of", o), "the-manifest-bytes")[1]

    def setup(self, cx):
        return A(self=SObj("IH5ManifestObj", name="self"), path="the-sidecar-path")

    def raises(self, cx, a):
        return {}

    def ensures(self, cx, a, res):
        fx = [e[:-1] for e in cx.fx]
        kinds = [e[0] for e in fx]
        ok = kinds == ["open", "enter", "bytes-of", "write", "flush", "exit"] and fx[0][1] == "the-sidecar-path" and fx[0][2] == "wb" and fx[2][1] is a.self and fx[3][1] == "the-sidecar-path" and fx[3][2] == "the-manifest-bytes" and fx[4][1] == "the-sidecar-path"
        return [("exactly-the-given-file-is-rewritten-with-the-manifest-bytes", z3.BoolVal(bool(ok)), "saving a manifest (re)writes exactly the file at the given path with bytes(manifest), flushes and closes it — no other file is opened")]


class FileTok(SVal):
    def __init__(self, path):
        self.path = path

    def meth___enter__(self, cx):
        cx.effect("enter", self.path)
        return self

    def meth___exit__(self, cx, *a):
        cx.effect("exit", self.path)
        return False

    def meth_write(self, cx, b):
        cx.effect("write", self.path, b)

    def meth_flush(self, cx):
        cx.effect("flush", self.path)


def add_mfparts(reg):
    reg.set_class_home("IH5UBExtManifestObj", "ih5/manifest.py", "IH5UBExtManifest")
    reg.set_class_home("IH5MFRecordObj", "ih5/manifest.py", "IH5MFRecord")
    if reg.class_homes.get("IH5MFRecord") is None:
        reg.set_class_home("IH5MFRecord", "ih5/manifest.py")
    reg.set_class_home("IH5ManifestObj", "ih5/manifest.py", "IH5Manifest")
    specs = [FromUserblock(), ExtGet(), ExtUpdate(), FreshManifest(), ManifestProp(), ManifestPath(), MfBytes(), MfSave()]
    return specs
