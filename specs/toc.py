"""Contracts for the in-memory schema index of a container (TOCSchemas._update_parents_children) — C06, C07, C20."""
from __future__ import annotations

import z3

from pyvc.api import A, FnSpec, LoopSpec
from pyvc.containers import ClassDecl, SMap, SObj, SRef, SSeq, SSet, TRef, TSeq, TSetT
from pyvc.values import SBool, SMaybe, SVal, fresh_name

Ref = z3.DeclareSort("Ref")
ClassDecl("SchemaRef", {})
RT = TRef("SchemaRef")
LST = TSeq(RT)
I, B = z3.IntSort(), z3.BoolSort()
PP = z3.Function("stored_parent_path", Ref, LST.sort())  # parent path of a schema as stored in the container ("compat")
ANC = z3.Function("is_ancestor_or_self", Ref, Ref, B)  # p occurs in PP(s)
IDX = z3.Function("position_in_parent_path", Ref, Ref, I)

W0 = z3.Function("used_descendant_witness_before", Ref, Ref)  # skolem witness of "every tracked schema is an ancestor of a used one" in the entry state

T_PLUGIN = "plugin system: the parent path of a schema is a duplicate-free list ending in the schema itself, and the parent path of each of its members is the corresponding prefix (single inheritance chain); PluginRef equality/hash are by key (C16), so dict/set lookups are lookups by value"


def pp_len(s):
    return SSeq(RT, PP(s)).n


def pp_at(s, i):
    return SSeq(RT, PP(s)).at_term(i)


def path_axioms():
    s, p, q = z3.Consts("ax_s ax_p ax_q", Ref)
    i, j = z3.Ints("ax_i ax_j")
    return [
        z3.ForAll([s], z3.And(pp_len(s) >= 1, pp_at(s, pp_len(s) - 1) == s)),
        z3.ForAll([s, i], z3.Implies(z3.And(0 <= i, i < pp_len(s)), z3.And(ANC(pp_at(s, i), s), IDX(pp_at(s, i), s) == i))),
        z3.ForAll([p, s], z3.Implies(ANC(p, s), z3.And(0 <= IDX(p, s), IDX(p, s) < pp_len(s), pp_at(s, IDX(p, s)) == p))),
        # the parent path of a member is the prefix up to it
        z3.ForAll([p, s], z3.Implies(ANC(p, s), z3.And(pp_len(p) == IDX(p, s) + 1, z3.ForAll([j], z3.Implies(z3.And(0 <= j, j <= IDX(p, s)), pp_at(p, j) == pp_at(s, j)))))),
        z3.ForAll([p, q, s], z3.Implies(z3.And(ANC(p, q), ANC(q, s)), ANC(p, s))),
    ]


def index_inv(S_has, parents: SMap, children: SMap, tag, witness):
    """The index maintained incrementally equals the one rebuilt from the stored parent paths of the used schemas `S`."""
    p, c, s = (z3.Const(fresh_name(tag + n), Ref) for n in "pcs")
    j = z3.Int(fresh_name(tag + "j"))
    par_p = SSeq(RT, parents.get_term(p))
    tracked = z3.ForAll([p], z3.Implies(parents.has(p), z3.And(S_has(witness(p)), ANC(p, witness(p))))) if witness is not None else z3.ForAll([p], z3.Implies(parents.has(p), z3.Exists([s], z3.And(S_has(s), ANC(p, s)))))
    return [
        ("tracked-are-ancestors-of-used", tracked),
        ("ancestors-of-used-are-tracked", z3.ForAll([p, s], z3.Implies(z3.And(S_has(s), ANC(p, s)), parents.has(p)))),
        ("parents-entry-is-the-parent-path", z3.ForAll([p], z3.Implies(parents.has(p), z3.And(par_p.n == pp_len(p), z3.ForAll([j], z3.Implies(z3.And(0 <= j, j < pp_len(p)), par_p.at_term(j) == pp_at(p, j))))))),
        ("same-keys", z3.ForAll([p], children.has(p) == parents.has(p))),
        ("children-are-the-used-descendants", z3.ForAll([p, c], z3.Implies(parents.has(p), z3.Select(children.get_term(p), c) == z3.And(S_has(c), c != p, ANC(p, c))))),
    ]


def index_inv_post(S_has, parents: SMap, children: SMap, tag):
    """index_inv with the witness existentially quantified (goal form)"""
    p, c, s = (z3.Const(fresh_name(tag + n), Ref) for n in "pcs")
    j = z3.Int(fresh_name(tag + "j"))
    par_p = SSeq(RT, parents.get_term(p))
    return [
        ("tracked-are-ancestors-of-used", z3.ForAll([p], z3.Implies(parents.has(p), z3.Exists([s], z3.And(S_has(s), ANC(p, s)))))),
        ("ancestors-of-used-are-tracked", z3.ForAll([p, s], z3.Implies(z3.And(S_has(s), ANC(p, s)), parents.has(p)))),
        ("parents-entry-is-the-parent-path", z3.ForAll([p], z3.Implies(parents.has(p), z3.And(par_p.n == pp_len(p), z3.ForAll([j], z3.Implies(z3.And(0 <= j, j < pp_len(p)), par_p.at_term(j) == pp_at(p, j))))))),
        ("same-keys", z3.ForAll([p], children.has(p) == parents.has(p))),
        ("children-are-the-used-descendants", z3.ForAll([p, c], z3.Implies(parents.has(p), z3.Select(children.get_term(p), c) == z3.And(S_has(c), c != p, ANC(p, c))))),
    ]


def toc_obj(cx, name="self"):
    o = SObj("TOCSchemas", name=name)
    o.fields["_schemas"] = SSet.fresh(RT, "schemas")
    o.fields["_parents"] = SMap.fresh(RT, LST, "parents")
    o.fields["_children"] = SMap.fresh(RT, TSetT(RT), "children")
    return o


class UpdatePC(FnSpec):
    file = "container/interface.py"
    qual = "TOCSchemas._update_parents_children"
    props = ("C06", "C07", "C20")

    def init(self):
        def inv_remove(cx, env, it):
            a = cx.ghost["upc"]
            o = a.self
            r = a.schema_ref.t
            S_has = lambda x: o.fields["_schemas"].has(x)  # noqa: E731  (r already removed)
            S_old = lambda x: z3.Or(S_has(x), x == r)  # noqa: E731
            P, C = o.fields["_parents"], o.fields["_children"]
            P0, C0 = a.parents0, a.children0
            p, c = z3.Const(fresh_name("lp"), Ref), z3.Const(fresh_name("lc"), Ref)
            j = z3.Int(fresh_name("lj"))
            done = lambda x: z3.And(ANC(x, r), IDX(x, r) < it.i)  # noqa: E731  ancestors already handled
            keep = lambda x: z3.Exists([c], z3.And(S_has(c), ANC(x, c)))  # noqa: E731
            par_p, par0_p = SSeq(RT, P.get_term(p)), SSeq(RT, P0.get_term(p))
            return [
                ("untouched-keys-as-before", z3.ForAll([p], z3.Implies(z3.Not(done(p)), z3.And(P.has(p) == P0.has(p), C.has(p) == C0.has(p), P.get_term(p) == P0.get_term(p), C.get_term(p) == C0.get_term(p))))),
                ("handled-ancestors-final", z3.ForAll([p], z3.Implies(done(p), z3.And(P.has(p) == keep(p), C.has(p) == keep(p), z3.Implies(keep(p), z3.And(P.get_term(p) == P0.get_term(p), z3.ForAll([c], z3.Select(C.get_term(p), c) == z3.And(S_has(c), c != p, ANC(p, c))))))))),
                ("schemas-unchanged", o.fields["_schemas"].same(cx, a.schemas0)),
            ]

        self.loops[0] = LoopSpec(inv_remove, modifies=["parent"], havoc_inplace=["self._parents", "self._children"])

        def inv_add(cx, env, it):
            a = cx.ghost["upc"]
            o = a.self
            r = a.schema_ref.t
            S_has = lambda x: o.fields["_schemas"].has(x)  # noqa: E731  (r already added)
            P, C = o.fields["_parents"], o.fields["_children"]
            P0, C0 = a.parents0, a.children0
            p, c = z3.Const(fresh_name("lp"), Ref), z3.Const(fresh_name("lc"), Ref)
            j = z3.Int(fresh_name("lj"))
            done = lambda x: z3.And(ANC(x, r), IDX(x, r) < it.i)  # noqa: E731
            par_p = SSeq(RT, P.get_term(p))
            return [
                ("untouched-keys-as-before", z3.ForAll([p], z3.Implies(z3.Not(done(p)), z3.And(P.has(p) == P0.has(p), C.has(p) == C0.has(p), P.get_term(p) == P0.get_term(p), C.get_term(p) == C0.get_term(p))))),
                ("handled-ancestors-tracked", z3.ForAll([p], z3.Implies(done(p), z3.And(P.has(p), C.has(p), par_p.n == pp_len(p), z3.ForAll([j], z3.Implies(z3.And(0 <= j, j < pp_len(p)), par_p.at_term(j) == pp_at(p, j))), z3.ForAll([c], z3.Select(C.get_term(p), c) == z3.And(S_has(c), c != p, ANC(p, c))))))),
                ("schemas-unchanged", o.fields["_schemas"].same(cx, a.schemas0)),
            ]

        self.loops[("iter", "enumerate(parents)")] = LoopSpec(inv_add, modifies=["i", "parent"], havoc_inplace=["self._parents", "self._children"])

    def setup(self, cx):
        for ax in path_axioms():
            cx.assume(ax)
        o = toc_obj(cx)
        r = SRef("SchemaRef", z3.Const("schema_ref", Ref))
        removing = cx.choose(2) == 0
        a = A(self=o, schema_ref=r, removing=removing)
        a.parents = None if removing else SSeq(RT, PP(r.t))  # _register passes schemas.parent_path(...) = the stored path
        a.parents0, a.children0, a.schemas0 = o.fields["_parents"].snapshot(), o.fields["_children"].snapshot(), o.fields["_schemas"].snapshot()
        a.w0 = W0
        cx.ghost["upc"] = a
        return a

    # callee side (TOCSchemas._register / _unregister): the caller proves the index invariant for the entry state
    def bind_call(self, interp, cx, f, args, kwargs):
        a = FnSpec.bind_call(self, interp, cx, f, args, kwargs)
        a.removing = a.parents is None
        o = a.self
        a.parents0, a.children0, a.schemas0 = o.fields["_parents"].snapshot(), o.fields["_children"].snapshot(), o.fields["_schemas"].snapshot()
        a.w0 = None  # call sites prove the existential form (they may hold the invariant without a named witness)
        if not a.removing:
            ps = a.parents
            if not (isinstance(ps, SSeq) and z3.eq(z3.simplify(ps.t), z3.simplify(PP(a.schema_ref.t)))):
                from pyvc.values import Unsupported

                raise Unsupported("_update_parents_children called with something else than the parent path of the schema")
        return a

    def effects(self, cx, a):
        o = a.self
        o.fields["_parents"].havoc_inplace(cx, "parents_after_upc")
        o.fields["_children"].havoc_inplace(cx, "children_after_upc")

    def requires(self, cx, a):
        o = a.self
        r = a.schema_ref.t
        S = o.fields["_schemas"]
        if a.removing:
            pre_S = lambda x: z3.Or(S.has(x), x == r)  # noqa: E731  index still reflects r, which was just removed from _schemas
            side = [("already-removed-from-schemas", z3.Not(S.has(r)))]
        else:
            pre_S = lambda x: z3.And(S.has(x), x != r)  # noqa: E731  index does not reflect r yet, which was just added to _schemas
            side = [("already-added-to-schemas", S.has(r))]
        return side + [(n, g) for n, g in index_inv(pre_S, o.fields["_parents"], o.fields["_children"], "pre", a.w0)]

    def ensures(self, cx, a, res):
        o = a.self
        S = o.fields["_schemas"]
        P, C = o.fields["_parents"], o.fields["_children"]
        p, c, s = (z3.Const(fresh_name("e" + n), Ref) for n in "pcs")
        j = z3.Int(fresh_name("ej"))
        par_p = SSeq(RT, P.get_term(p))
        cl = "the in-memory index maintained incrementally equals the one rebuilt from the stored parent paths of the schemas in use"
        return [
            ("tracked-are-ancestors-of-used", z3.ForAll([p], z3.Implies(P.has(p), z3.Exists([s], z3.And(S.has(s), ANC(p, s))))), cl),
            ("ancestors-of-used-are-tracked", z3.ForAll([p, s], z3.Implies(z3.And(S.has(s), ANC(p, s)), P.has(p))), cl),
            ("parents-entry-is-the-parent-path", z3.ForAll([p], z3.Implies(P.has(p), z3.And(par_p.n == pp_len(p), z3.ForAll([j], z3.Implies(z3.And(0 <= j, j < pp_len(p)), par_p.at_term(j) == pp_at(p, j)))))), cl),
            ("same-keys", z3.ForAll([p], C.has(p) == P.has(p)), cl),
            ("children-are-the-used-descendants", z3.ForAll([p, c], z3.Implies(P.has(p), z3.Select(C.get_term(p), c) == z3.And(S.has(c), c != p, ANC(p, c)))), cl + " (children = used descendant schemas: this is what makes queries by a parent schema exact)"),
            ("schemas-unchanged", S.same(cx, a.schemas0), "the set of used schemas is not touched here"),
        ]


def add_toc(reg):
    reg.set_class_home("TOCSchemas", "container/interface.py")
    specs = [UpdatePC()]
    for s in specs:
        reg.add(s)
    return specs
