"""Contracts for container/interface.py (MetadorMeta attach/detach guards) — C07, C15, C06."""
from __future__ import annotations

import z3

from pyvc.api import A, FnSpec
from pyvc.containers import SObj
from pyvc.engine import SClass
from pyvc.values import SBool, SMaybe, SStr, STuple, SVal, Unsupported, fresh_name

from .wrappers import MEMBERS, NodeAclEnum

S, B = z3.StringSort(), z3.BoolSort()
Key = z3.DeclareSort("SchemaKey")  # whatever the user passes as schema (str / (str, ver) / PluginRef / class)
KEY_NAME = z3.Function("schema_key_name", Key, S)
KEY_HAS_VER = z3.Function("schema_key_has_version", Key, B)
HAS_OBJ = z3.Function("node_has_object_of_schema_name", S, B)  # an object of that schema NAME is attached (any version)
HAS_COMPAT = z3.Function("node_has_compatible_object", S, Key, B)
INSTALLED = z3.Function("schema_installed_and_attachable", Key, B)
AUX = z3.Function("schema_is_auxiliary", Key, B)
VALID = z3.Function("value_valid_for_schema", Key, B)


class KeyVal(SVal):
    def __init__(self, t):
        self.t = t

    def py_truth(self, cx):
        return True


class VerVal(SVal):
    """version component of a schema key: None iff the key carries no version"""

    def __init__(self, k):
        self.k = k

    def py_is_none(self, cx):
        return z3.Not(KEY_HAS_VER(self.k))

    def py_truth(self, cx):
        return KEY_HAS_VER(self.k)


class Stored(SVal):
    def py_truth(self, cx):
        return True


def meta_obj(cx):
    m = SObj("MetadorMeta", name="self")
    m.read_only = z3.Bool("node_read_only")
    m.fields["_node"] = SObj("MetaNodeStub", name="node")
    m.fields["_node"].owner = m
    return m


def get_raw(cx, m, name, version=None):
    nt = name.t if isinstance(name, SStr) else z3.StringVal(name)
    if version is None:
        cond = HAS_OBJ(nt)
    elif isinstance(version, VerVal):
        # with a version only objects of a compatible release are returned (weaker than "any object of that name")
        cond = z3.If(KEY_HAS_VER(version.k), z3.And(HAS_OBJ(nt), HAS_COMPAT(nt, version.k)), HAS_OBJ(nt))
    else:
        raise Unsupported("_get_raw with this version argument")
    cx.effect("get_raw", nt, version)
    return Stored() if cx.decide(cond) else None


class MetaSetitem(FnSpec):
    file = "container/interface.py"
    qual = "MetadorMeta.__setitem__"
    props = ("C07", "C15")
    raises_exact = False

    def init(self):
        self.bindings["NodeAcl"] = NodeAclEnum()
        self.bindings["plugin_args"] = lambda cx, k, *a, **kw: (SStr(KEY_NAME(k.t)), VerVal(k.t))

    def setup(self, cx):
        return A(self=meta_obj(cx), schema=KeyVal(z3.Const("schema_key", Key)), value=Stored())

    def raises(self, cx, a):
        k = a.schema.t
        return {
            "UnsupportedOperationError": a.self.read_only,
            "ValueError": z3.And(z3.Not(a.self.read_only), HAS_OBJ(KEY_NAME(k))),
            "KeyError": z3.Not(INSTALLED(k)),
            "TypeError": AUX(k),
            "ValidationError": z3.Not(VALID(k)),
        }

    def on_raise(self, cx, a, exc):
        return [("refused-without-effect", z3.BoolVal(not [e for e in cx.fx if e[0] == "store"]), "a refused attach stores nothing")]

    def ensures(self, cx, a, res):
        k = a.schema.t
        stores = [e for e in cx.fx if e[0] == "store"]
        return [
            ("at-most-one-object-per-schema", z3.Not(HAS_OBJ(KEY_NAME(k))), "each node holds at most one object per schema name: a second attach is refused whatever version the key carries"),
            ("read-only-respected", z3.Not(a.self.read_only), "metadata of a read_only node cannot be changed"),
            ("only-installed-valid-non-auxiliary", z3.And(INSTALLED(k), z3.Not(AUX(k)), VALID(k)), "auxiliary or unknown schemas and invalid objects are refused"),
            ("stored-once", z3.BoolVal(len(stores) == 1), "exactly one object is stored"),
        ]


class MetaDelitem(FnSpec):
    file = "container/interface.py"
    qual = "MetadorMeta.__delitem__"
    props = ("C07", "C15")
    raises_exact = False

    def init(self):
        self.bindings["NodeAcl"] = NodeAclEnum()
        self.bindings["plugin_args"] = lambda cx, k, *a, **kw: (SStr(KEY_NAME(k.t)), VerVal(k.t))

    def setup(self, cx):
        return A(self=meta_obj(cx), schema=KeyVal(z3.Const("schema_key", Key)))

    def raises(self, cx, a):
        k = a.schema.t
        return {"UnsupportedOperationError": a.self.read_only, "KeyError": z3.And(z3.Not(a.self.read_only), z3.Not(HAS_OBJ(KEY_NAME(k))))}

    def on_raise(self, cx, a, exc):
        return [("refused-without-effect", z3.BoolVal(not [e for e in cx.fx if e[0] == "delete"]), "a refused delete removes nothing")]

    def ensures(self, cx, a, res):
        k = a.schema.t
        dels = [e for e in cx.fx if e[0] == "delete"]
        ok = len(dels) == 1
        return [
            ("deletes-the-object-of-that-schema-name", z3.And(HAS_OBJ(KEY_NAME(k)), z3.Not(a.self.read_only), (dels[0][1] == KEY_NAME(k)) if ok else z3.BoolVal(False)), "exactly the object explicitly stored for that schema name is deleted (its version is ignored)"),
        ]


def add_interface(reg):
    reg.set_class_home("MetadorMeta", "container/interface.py")
    reg.method_bindings[("MetaNodeStub", "_guard_acl")] = lambda cx, node, flag, *a: (cx.py_raise("UnsupportedOperationError", "node restricted") if (flag is MEMBERS["read_only"] and cx.decide(node.owner.read_only)) else None)
    reg.method_bindings[("MetadorMeta", "_get_raw")] = get_raw

    def require_schema(cx, m, name, ver):
        k = ver.k
        if not cx.decide(INSTALLED(k)):
            cx.py_raise("KeyError", "schema not installed")
        if cx.decide(AUX(k)):
            cx.py_raise("TypeError", "auxiliary schema")
        return SchemaCls(k)

    def parse_obj(cx, m, cls, value):
        if not cx.decide(VALID(cls.k)):
            cx.py_raise("ValidationError", "invalid object")
        return Stored()

    reg.method_bindings[("MetadorMeta", "_require_schema")] = require_schema
    reg.method_bindings[("MetadorMeta", "_parse_obj")] = parse_obj
    reg.method_bindings[("MetadorMeta", "_set_raw")] = lambda cx, m, ref, obj: cx.effect("store", ref)
    reg.method_bindings[("MetadorMeta", "_del_raw")] = lambda cx, m, name: cx.effect("delete", name.t if isinstance(name, SStr) else z3.StringVal(name))
    specs = [MetaSetitem(), MetaDelitem()]
    for s in specs:
        reg.add(s)
    return specs


class SchemaCls(SVal):
    def __init__(self, k):
        self.k = k

    def py_truth(self, cx):
        return True

    def attr_Plugin(self, cx):
        return self

    def meth_ref(self, cx):
        return Stored()


# ---- raw getters/setters of MetadorMeta: the per-node cache `_objs` and the raw container stay paired (C07, C06, C08) -----

from pyvc.containers import STR, ClassDecl, SMap, SRef, TRef  # noqa: E402

Ref = z3.DeclareSort("Ref")
ClassDecl("StoredMetadata", {"uuid": STR, "schema": TRef("PluginRefObj"), "node": TRef("RawNode")})
ClassDecl("PluginRefObj", {"name": STR})
ClassDecl("RawNode", {"name": STR}, bases=("H5DatasetLike",))  # what is found at a metadata path is a dataset (T1)
EPNAME = z3.Function("ep_name_of_ref", Ref, S)
SUPPORTS = z3.Function("ref_supports", S, Key, Ref, B)  # PluginRef(name, version-of-key).supports(stored ref)  (C16)
BYTES_OF = z3.Function("bytes_of_object", Ref, S)
FRESH_UUID = z3.String("fresh_uuid")


class RawCont(SVal):
    def py_setitem(self, cx, k, v):
        cx.effect("raw-set", k.t if isinstance(k, SStr) else z3.StringVal(k), v)
        cx.ghost["raw_last_set"] = k.t if isinstance(k, SStr) else z3.StringVal(k)

    def py_delitem(self, cx, k):
        cx.effect("raw-del", k.t if isinstance(k, SStr) else z3.StringVal(k))

    def py_getitem(self, cx, k):
        kt = k.t if isinstance(k, SStr) else z3.StringVal(k)
        n = SRef.fresh("RawNode", "raw_node")
        cx.assume(n.py_getattr(cx, "name").t == kt)  # the node found at a path has that path as its name
        return n

    def py_contains(self, cx, k):
        # T1: a path is in the raw container iff it was stored (and not deleted) -- asked only for the path just written
        kt = k.t if isinstance(k, SStr) else z3.StringVal(k)
        sets = [e for e in cx.fx if e[0] == "raw-set" and z3.eq(e[1], kt)]
        dels = [e for e in cx.fx if e[0] == "raw-del" and z3.eq(e[1], kt)]
        return bool(sets) and not dels

    def meth_require_group(self, cx, k):
        return MetaDirStub(k.t if isinstance(k, SStr) else z3.StringVal(k))


class MetaDirStub(SVal):
    """the node's metadata directory after the rolled-back object is gone: empty or not (other objects of the node)"""

    def __init__(self, path_t):
        self.path_t = path_t

    def meth_keys(self, cx):
        empty = cx.choose(2) == 1
        cx.ghost["metadir_empty"] = empty
        return [] if empty else ["another-object"]


class TocPathStub(SVal):
    def meth_pop(self, cx, k, *default):
        cx.effect("uuid-freed", k.t if isinstance(k, (SStr, UuidVal)) else k)
        return default[0] if default else None


class LinksStub(SVal):
    def meth_fresh_uuid(self, cx):
        cx.effect("fresh-uuid")
        return UuidVal(FRESH_UUID)

    def meth_register(self, cx, stored):
        cx.effect("links-register", stored)
        if cx.choose(2) == 1:  # TOCLinks.register -> TOCSchemas._register may fail (no provider for the schema; its contract: nothing written then)
            cx.ghost["register_failed"] = True
            cx.py_raise("AttributeError", "no provider")

    def attr__toc_path(self, cx):
        return TocPathStub()

    def meth_unregister(self, cx, uuid):
        cx.effect("links-unregister", uuid.t if isinstance(uuid, (SStr, UuidVal)) else uuid)


class UuidVal(SVal):
    def __init__(self, t):
        self.t = t

    def py_str(self, cx):
        return SStr(self.t)


def rawmeta_obj(cx):
    m = SObj("MetadorMetaRaw", name="self")
    m.fields["_objs"] = SMap.fresh(STR, TRef("StoredMetadata"), "objs")
    m.fields["_base_dir"] = SStr(z3.String("base_dir"))
    mc = SObj("ContainerStub", name="mc")
    mc.fields["__wrapped__"] = RawCont()
    toc = SObj("TocStub", name="toc")
    toc.fields["_links"] = LinksStub()
    mc.fields["metador"] = toc
    m.fields["_mc"] = mc
    return m


def objs_keyed_by_schema_name(cx, objs, tag="ok"):
    k = z3.String(fresh_name(tag))
    st = SRef("StoredMetadata", objs.get_term(k))
    return z3.ForAll([k], z3.Implies(objs.has(k), st.py_getattr(cx, "schema").py_getattr(cx, "name").t == k))


class SetRaw(FnSpec):
    file = "container/interface.py"
    qual = "MetadorMeta._set_raw"
    props = ("C07", "C06", "C08")

    def init(self):
        self.bindings["_ep_name_for"] = lambda cx, r: SStr(EPNAME(r.t))
        self.bindings["bytes"] = lambda cx, o: ObjBytes(o.t)
        self.bindings["H5DatasetLike"] = SClass("H5DatasetLike")
        self.bindings["StoredMetadata"] = stored_ctor
        self.bindings["str"] = lambda cx, v: v.py_str(cx) if hasattr(v, "py_str") else v

    def setup(self, cx):
        m = rawmeta_obj(cx)
        a = A(self=m, schema_ref=SRef.fresh("PluginRefObj", "schema_ref"), obj=SRef.fresh("SchemaInstance", "obj"))
        a.objs0 = m.fields["_objs"].snapshot()
        cx.ghost["objs0"] = a.objs0
        return a

    def requires(self, cx, a):
        return [("cache-keyed-by-schema-name", objs_keyed_by_schema_name(cx, a.self.fields["_objs"], "rk"))]

    raises_exact = False

    def raises(self, cx, a):
        return {"AttributeError": z3.BoolVal(True)}

    def on_raise(self, cx, a, exc):
        # C06 'successful or FAILED': when the TOC registration fails, the attach leaves nothing behind -- no object without link, no reserved
        # UUID, no cache entry, no empty metadata directory
        m = a.self
        objs = m.fields["_objs"]
        path = z3.Concat(m.fields["_base_dir"].t, z3.StringVal("/"), EPNAME(a.schema_ref.t), z3.StringVal("="), FRESH_UUID)
        kinds = [e[0] for e in cx.fx]
        empty = cx.ghost.get("metadir_empty")
        want = ["fresh-uuid", "raw-set", "links-register", "uuid-freed", "raw-del"] + (["raw-del"] if empty else [])
        ok = kinds == want
        k = z3.String(fresh_name("rk"))
        out = [("failed-attach-is-rolled-back", z3.BoolVal(ok), "the reserved UUID is freed and the stored object removed again (and its metadata directory, if that is empty now)")]
        if ok:
            fx = cx.fx
            out.append(("the-object-just-stored-is-what-is-removed", z3.And(fx[4][1] == path, fx[3][1] == FRESH_UUID, (fx[5][1] == m.fields["_base_dir"].t) if empty else z3.BoolVal(True)), "the roll-back removes exactly what this attach wrote"))
        name = a.schema_ref.py_getattr(cx, "name").t
        out.append(("cache-does-not-keep-the-failed-object", z3.And(z3.Not(z3.And(objs.has(name), z3.Not(a.objs0.has(name)))), z3.ForAll([k], z3.Implies(k != name, z3.And(objs.has(k) == a.objs0.has(k), objs.get_term(k) == a.objs0.get_term(k))))), "the node's cache does not list an object that is not stored"))
        return out

    def ensures(self, cx, a, res):
        m = a.self
        objs = m.fields["_objs"]
        name = a.schema_ref.py_getattr(cx, "name").t
        path = z3.Concat(m.fields["_base_dir"].t, z3.StringVal("/"), EPNAME(a.schema_ref.t), z3.StringVal("="), FRESH_UUID)
        fx = cx.fx
        kinds = [e[0] for e in fx]
        ok = kinds == ["fresh-uuid", "raw-set", "links-register"]
        k = z3.String(fresh_name("ek"))
        out = [("protocol", z3.BoolVal(ok), "reserve a fresh UUID, store the object in the raw container, register the link — in this order, nothing else")]
        if not ok:
            return out
        st = fx[2][1]
        cur = SRef("StoredMetadata", objs.get_term(name))
        out += [
            ("stored-at-the-canonical-path", z3.And(fx[1][1] == path, z3.BoolVal(isinstance(fx[1][2], ObjBytes)), (fx[1][2].t == a.obj.t) if isinstance(fx[1][2], ObjBytes) else False), "the object's bytes go to <meta dir>/<schema__version>=<uuid>"),
            ("registered-object-describes-it", z3.And(st.py_getattr(cx, "uuid").t == FRESH_UUID, st.py_getattr(cx, "schema").t == a.schema_ref.t, st.py_getattr(cx, "node").py_getattr(cx, "name").t == path), "the TOC link is registered for the same UUID, schema and stored node"),
            ("cache-updated-under-the-schema-name", z3.And(objs.has(name), cur.t == st.t, z3.ForAll([k], z3.Implies(k != name, z3.And(objs.has(k) == a.objs0.has(k), objs.get_term(k) == a.objs0.get_term(k))))), "the node's metadata cache maps the schema NAME to the new object (so the same handle sees it: get, in, delete, second-attach refusal)"),
            ("cache-still-keyed-by-schema-name", objs_keyed_by_schema_name(cx, objs, "pk"), "every cache entry sits under the name of its schema"),
        ]
        return out


class ObjBytes(SVal):
    def __init__(self, t):
        self.t = t


def stored_ctor(cx, uuid=None, schema=None, node=None):
    st = SRef.fresh("StoredMetadata", "stored")
    objs0 = cx.ghost.get("objs0")
    if objs0 is not None:  # a constructor returns a new object: different from every object the cache already holds
        k = z3.String(fresh_name("fk"))
        cx.assume(z3.ForAll([k], z3.Implies(objs0.has(k), objs0.get_term(k) != st.t)))
    st.py_setattr(cx, "uuid", SStr(uuid.t) if isinstance(uuid, UuidVal) else uuid)
    st.py_setattr(cx, "schema", schema)
    st.py_setattr(cx, "node", node)
    return st


class DelRaw(FnSpec):
    file = "container/interface.py"
    qual = "MetadorMeta._del_raw"
    props = ("C07", "C06", "C08")

    def setup(self, cx):
        m = rawmeta_obj(cx)
        unlink_shape = cx.choose(2)
        a = A(self=m, schema_name=SStr(z3.String("schema_name")), _unlink=(True if unlink_shape == 0 else False))
        a.objs0 = m.fields["_objs"].snapshot()
        return a

    def requires(self, cx, a):
        return [("cache-keyed-by-schema-name", objs_keyed_by_schema_name(cx, a.self.fields["_objs"], "rk"))]

    def raises(self, cx, a):
        return {"KeyError": z3.Not(a.objs0.has(a.schema_name.t))}

    def on_raise(self, cx, a, exc):
        return [("nothing-deleted", z3.BoolVal(not cx.fx), "deleting what is not attached changes nothing")]

    def ensures(self, cx, a, res):
        m = a.self
        objs = m.fields["_objs"]
        name = a.schema_name.t
        st0 = SRef("StoredMetadata", a.objs0.get_term(name))
        k = z3.String(fresh_name("ek"))
        fx = cx.fx
        kinds = [e[0] for e in fx]
        empty_after = z3.Not(z3.Exists([k], z3.And(a.objs0.has(k), k != name)))
        pre = ["links-unregister"] if a._unlink else []
        shape_ok = kinds in (pre + ["raw-del"], pre + ["raw-del", "raw-del"])
        out = [("protocol", z3.BoolVal(shape_ok), "unlink in the TOC (unless told not to), delete the object, then the metadata directory if it became empty — nothing else")]
        if not shape_ok:
            return out
        i = len(pre)
        if a._unlink:
            out.append(("unlinks-this-objects-uuid", fx[0][1] == st0.py_getattr(cx, "uuid").t, "the TOC link of exactly this object is removed"))
        out += [
            ("deletes-the-stored-node", fx[i][1] == st0.py_getattr(cx, "node").py_getattr(cx, "name").t, "the stored object's node is deleted"),
            ("cache-loses-exactly-this-entry", z3.ForAll([k], z3.And(objs.has(k) == z3.And(a.objs0.has(k), k != name), z3.Implies(k != name, objs.get_term(k) == a.objs0.get_term(k)))), "the cache loses exactly this schema name"),
            ("empty-metadata-directory-removed", z3.And(z3.BoolVal(len(kinds) == i + 2) == empty_after, (fx[i + 1][1] == m.fields["_base_dir"].t) if len(kinds) == i + 2 else True), "no empty bookkeeping group is left behind: the node's metadata directory is deleted exactly when its last object went away (judged AFTER removing this one)"),
        ]
        return out


class GetRaw(FnSpec):
    file = "container/interface.py"
    qual = "MetadorMeta._get_raw"
    props = ("C07",)

    def init(self):
        self.bindings["schemas"] = SchemasRefCtor()

    def setup(self, cx):
        m = rawmeta_obj(cx)
        k = z3.Const("version_key", Key)
        a = A(self=m, schema_name=SStr(z3.String("schema_name")), version=VerVal(k))
        a.k = k
        return a

    def ensures(self, cx, a, res):
        objs = a.self.fields["_objs"]
        name = a.schema_name.t
        st = SRef("StoredMetadata", objs.get_term(name))
        want = z3.And(objs.has(name), z3.Or(z3.Not(KEY_HAS_VER(a.k)), SUPPORTS(name, a.k, st.py_getattr(cx, "schema").t)))
        is_none = z3.BoolVal(res is None) if not isinstance(res, SMaybe) else res.isnone
        same = z3.BoolVal(True)
        if isinstance(res, SRef):
            same = res.t == st.t
        elif isinstance(res, SMaybe) and isinstance(res.val, SRef):
            same = z3.Implies(z3.Not(res.isnone), res.val.t == st.t)
        return [
            ("found-iff-attached-and-compatible", z3.Not(is_none) == want, "the object of that schema name is returned iff one is attached and, when a version is requested, the request supports the stored version"),
            ("returns-the-cached-object", same, "what is returned is the attached object itself"),
        ]


class SchemasRefCtor(SVal):
    def meth_PluginRef(self, cx, name=None, version=None):
        return ReqRef(name.t, version.k)


class ReqRef(SVal):
    def __init__(self, name_t, k):
        self.name_t, self.k = name_t, k

    def meth_supports(self, cx, other):
        return SBool(SUPPORTS(self.name_t, self.k, other.t))


def add_interface_raw(reg):
    reg.set_class_home("MetadorMetaRaw", "container/interface.py", "MetadorMeta")
    specs = [SetRaw(), DelRaw(), GetRaw()]
    for s in specs:
        reg.add(s)
    return specs


# ---- MetadorMeta.get: what is handed out is parsed NOW, from the stored bytes, with the REQUESTED schema's class (C07) -----

HAS_HIT = z3.Function("query_yields_a_compatible_object", Key, B)


class HitRef(SVal):
    """the first schema ref the query yields for the request"""

    def __init__(self, k):
        self.k = k

    def py_truth(self, cx):
        return True

    def py_getattr(self, cx, name):
        if name == "name":
            return SStr(z3.Function("hit_schema_name", Key, S)(self.k))
        if name == "version":
            return VerOfHit(self.k)
        raise Unsupported("ref attribute " + name)


class VerOfHit(SVal):
    def __init__(self, k):
        self.k = k


class StoredObj(SVal):
    def __init__(self, k):
        self.k = k

    def py_truth(self, cx):
        return True

    def py_getattr(self, cx, name):
        if name == "node":
            return StoredNode(self.k)
        raise Unsupported("stored object attribute " + name)


class StoredNode(SVal):
    def __init__(self, k):
        self.k = k

    def py_getitem(self, cx, idx):
        if idx != ():
            raise Unsupported("dataset read other than [()]")
        cx.effect("read-stored-bytes", self.k)
        return StoredBytes(self.k)


class StoredBytes(SVal):
    def __init__(self, k):
        self.k = k


class MetaGet(FnSpec):
    file = "container/interface.py"
    qual = "MetadorMeta.get"
    props = ("C07", "C15")
    raises_exact = False

    def init(self):
        self.bindings["NodeAcl"] = NodeAclEnum()
        self.bindings["plugin_args"] = lambda cx, k, v=None, **kw: (SStr(KEY_NAME(k.t)), VerVal(k.t))
        self.bindings["next"] = lambda cx, it, default=None: it.first(cx, default)
        self.bindings["cast"] = lambda cx, t, v: v

    def setup(self, cx):
        m = meta_obj(cx)
        m.skel_only = z3.Bool("node_skel_only")
        m.cls = "MetadorMetaGet"
        return A(self=m, schema=KeyVal(z3.Const("schema_key", Key)))

    def raises(self, cx, a):
        k = a.schema.t
        return {"UnsupportedOperationError": a.self.skel_only, "KeyError": z3.Not(INSTALLED(k)), "TypeError": AUX(k), "ValidationError": z3.BoolVal(True)}

    def on_raise(self, cx, a, exc):
        if exc.cls == "UnsupportedOperationError":
            return [("skeleton-only-node-hands-out-nothing", z3.BoolVal(not [e for e in cx.fx if e[0] in ("read-stored-bytes", "parse")]), "a skel_only node never reads or parses metadata")]
        return []

    def ensures(self, cx, a, res):
        k = a.schema.t
        parses = [e for e in cx.fx if e[0] == "parse"]
        reads = [e for e in cx.fx if e[0] == "read-stored-bytes"]
        hit = HAS_HIT(k)
        ok = len(parses) == 1 and len(reads) == 1 and isinstance(res, ParsedObj) and res is parses[0][3]
        return [
            ("not-for-skeleton-only-nodes", z3.Not(a.self.skel_only), "metadata objects are only handed out by nodes that are not skel_only"),
            ("none-iff-nothing-compatible", z3.BoolVal(res is None) == z3.Not(z3.And(hit, HIT_STORED(k))), "None exactly when no compatible object is attached"),
            ("parsed-now-from-the-stored-bytes-with-the-requested-class", z3.Implies(z3.And(hit, HIT_STORED(k)), z3.BoolVal(ok and parses[0][1].k is k if ok else False)), "the object handed out is parsed in this call from the bytes stored for the compatible schema, by the class of the REQUESTED schema (so a view through an ancestor schema is an instance of the ancestor, and a later request by the object's own schema gets the own class again)"),
        ]


HIT_STORED = z3.Function("object_of_the_yielded_schema_is_stored", Key, B)


class ParsedObj(SVal):
    def py_truth(self, cx):
        return True


class QueryIter(SVal):
    def __init__(self, k):
        self.k = k

    def first(self, cx, default=None):
        return SMaybe(z3.Not(HAS_HIT(self.k)), HitRef(self.k)) if default is None else None


def add_interface_get(reg):
    c = "MetadorMetaGet"
    reg.set_class_home(c, "container/interface.py", "MetadorMeta")
    reg.method_bindings[(c, "query")] = lambda cx, m, name, ver=None: QueryIter(ver.k)

    def require_schema(cx, m, name, ver):
        k = ver.k
        if not cx.decide(INSTALLED(k)):
            cx.py_raise("KeyError", "schema not installed")
        if cx.decide(AUX(k)):
            cx.py_raise("TypeError", "auxiliary schema")
        return SchemaCls(k)

    def get_raw2(cx, m, name, version=None):
        if not isinstance(version, VerOfHit):
            raise Unsupported("_get_raw with something else than the yielded ref")
        return SMaybe(z3.Not(HIT_STORED(version.k)), StoredObj(version.k))

    def parse_obj(cx, m, cls, value):
        o = ParsedObj()
        cx.effect("parse", cls, value, o)
        return o

    reg.method_bindings[(c, "_require_schema")] = require_schema
    reg.method_bindings[(c, "_get_raw")] = get_raw2
    reg.method_bindings[(c, "_parse_obj")] = parse_obj
    reg.method_bindings[("MetaNodeStub", "_guard_acl")] = lambda cx, node, flag, *a: (cx.py_raise("UnsupportedOperationError", "node restricted") if ((flag is MEMBERS["read_only"] and cx.decide(node.owner.read_only)) or (flag is MEMBERS["skel_only"] and cx.decide(getattr(node.owner, "skel_only", z3.BoolVal(False))))) else None)
    s = MetaGet()
    reg.add(s)
    return [s]
