"""Contracts for container/interface.py (MetadorMeta attach/detach guards) — C07, C15, C06."""
from __future__ import annotations

import z3

from pyvc.api import A, FnSpec
from pyvc.containers import SObj
from pyvc.values import SBool, SStr, STuple, SVal, Unsupported, fresh_name

from .wrappers import MEMBERS, NodeAclEnum

S, B = z3.StringSort(), z3.BoolSort()
Key = z3.DeclareSort("SchemaKey")  # whatever the user passes as schema (str / (str, ver) / PluginRef / class)
KEY_NAME = z3.Function("schema_key_name", Key, S)
KEY_HAS_VER = z3.Function("schema_key_has_version", Key, B)
HAS_OBJ = z3.Function("node_has_object_of_schema_name", S, B)  # an object of that schema NAME is attached (any version)
HAS_COMPAT = z3.Function("node_has_compatible_object", S, Key, B)
INSTALLED = z3.Function("schema_installed_and_attachable", Key, B)
AUX = z3.Function("schema_is_auxiliary", Key, B)
VALID = z3.Function("value_valid_for_schema", Key, B)


class KeyVal(SVal):
    def __init__(self, t):
        self.t = t

    def py_truth(self, cx):
        return True


class VerVal(SVal):
    """version component of a schema key: None iff the key carries no version"""

    def __init__(self, k):
        self.k = k

    def py_is_none(self, cx):
        return z3.Not(KEY_HAS_VER(self.k))

    def py_truth(self, cx):
        return KEY_HAS_VER(self.k)


class Stored(SVal):
    def py_truth(self, cx):
        return True


def meta_obj(cx):
    m = SObj("MetadorMeta", name="self")
    m.read_only = z3.Bool("node_read_only")
    m.fields["_node"] = SObj("MetaNodeStub", name="node")
    m.fields["_node"].owner = m
    return m


def get_raw(cx, m, name, version=None):
    nt = name.t if isinstance(name, SStr) else z3.StringVal(name)
    if version is None:
        cond = HAS_OBJ(nt)
    elif isinstance(version, VerVal):
        # with a version only objects of a compatible release are returned (weaker than "any object of that name")
        cond = z3.If(KEY_HAS_VER(version.k), z3.And(HAS_OBJ(nt), HAS_COMPAT(nt, version.k)), HAS_OBJ(nt))
    else:
        raise Unsupported("_get_raw with this version argument")
    cx.effect("get_raw", nt, version)
    return Stored() if cx.decide(cond) else None


class MetaSetitem(FnSpec):
    file = "container/interface.py"
    qual = "MetadorMeta.__setitem__"
    props = ("C07", "C15")
    raises_exact = False

    def init(self):
        self.bindings["NodeAcl"] = NodeAclEnum()
        self.bindings["plugin_args"] = lambda cx, k, *a, **kw: (SStr(KEY_NAME(k.t)), VerVal(k.t))

    def setup(self, cx):
        return A(self=meta_obj(cx), schema=KeyVal(z3.Const("schema_key", Key)), value=Stored())

    def raises(self, cx, a):
        k = a.schema.t
        return {
            "UnsupportedOperationError": a.self.read_only,
            "ValueError": z3.And(z3.Not(a.self.read_only), HAS_OBJ(KEY_NAME(k))),
            "KeyError": z3.Not(INSTALLED(k)),
            "TypeError": AUX(k),
            "ValidationError": z3.Not(VALID(k)),
        }

    def on_raise(self, cx, a, exc):
        return [("refused-without-effect", z3.BoolVal(not [e for e in cx.fx if e[0] == "store"]), "a refused attach stores nothing")]

    def ensures(self, cx, a, res):
        k = a.schema.t
        stores = [e for e in cx.fx if e[0] == "store"]
        return [
            ("at-most-one-object-per-schema", z3.Not(HAS_OBJ(KEY_NAME(k))), "each node holds at most one object per schema name: a second attach is refused whatever version the key carries"),
            ("read-only-respected", z3.Not(a.self.read_only), "metadata of a read_only node cannot be changed"),
            ("only-installed-valid-non-auxiliary", z3.And(INSTALLED(k), z3.Not(AUX(k)), VALID(k)), "auxiliary or unknown schemas and invalid objects are refused"),
            ("stored-once", z3.BoolVal(len(stores) == 1), "exactly one object is stored"),
        ]


class MetaDelitem(FnSpec):
    file = "container/interface.py"
    qual = "MetadorMeta.__delitem__"
    props = ("C07", "C15")
    raises_exact = False

    def init(self):
        self.bindings["NodeAcl"] = NodeAclEnum()
        self.bindings["plugin_args"] = lambda cx, k, *a, **kw: (SStr(KEY_NAME(k.t)), VerVal(k.t))

    def setup(self, cx):
        return A(self=meta_obj(cx), schema=KeyVal(z3.Const("schema_key", Key)))

    def raises(self, cx, a):
        k = a.schema.t
        return {"UnsupportedOperationError": a.self.read_only, "KeyError": z3.And(z3.Not(a.self.read_only), z3.Not(HAS_OBJ(KEY_NAME(k))))}

    def on_raise(self, cx, a, exc):
        return [("refused-without-effect", z3.BoolVal(not [e for e in cx.fx if e[0] == "delete"]), "a refused delete removes nothing")]

    def ensures(self, cx, a, res):
        k = a.schema.t
        dels = [e for e in cx.fx if e[0] == "delete"]
        ok = len(dels) == 1
        return [
            ("deletes-the-object-of-that-schema-name", z3.And(HAS_OBJ(KEY_NAME(k)), z3.Not(a.self.read_only), (dels[0][1] == KEY_NAME(k)) if ok else z3.BoolVal(False)), "exactly the object explicitly stored for that schema name is deleted (its version is ignored)"),
        ]


def add_interface(reg):
    reg.set_class_home("MetadorMeta", "container/interface.py")
    reg.method_bindings[("MetaNodeStub", "_guard_acl")] = lambda cx, node, flag, *a: (cx.py_raise("UnsupportedOperationError", "node restricted") if (flag is MEMBERS["read_only"] and cx.decide(node.owner.read_only)) else None)
    reg.method_bindings[("MetadorMeta", "_get_raw")] = get_raw

    def require_schema(cx, m, name, ver):
        k = ver.k
        if not cx.decide(INSTALLED(k)):
            cx.py_raise("KeyError", "schema not installed")
        if cx.decide(AUX(k)):
            cx.py_raise("TypeError", "auxiliary schema")
        return SchemaCls(k)

    def parse_obj(cx, m, cls, value):
        if not cx.decide(VALID(cls.k)):
            cx.py_raise("ValidationError", "invalid object")
        return Stored()

    reg.method_bindings[("MetadorMeta", "_require_schema")] = require_schema
    reg.method_bindings[("MetadorMeta", "_parse_obj")] = parse_obj
    reg.method_bindings[("MetadorMeta", "_set_raw")] = lambda cx, m, ref, obj: cx.effect("store", ref)
    reg.method_bindings[("MetadorMeta", "_del_raw")] = lambda cx, m, name: cx.effect("delete", name.t if isinstance(name, SStr) else z3.StringVal(name))
    specs = [MetaSetitem(), MetaDelitem()]
    for s in specs:
        reg.add(s)
    return specs


class SchemaCls(SVal):
    def __init__(self, k):
        self.k = k

    def py_truth(self, cx):
        return True

    def attr_Plugin(self, cx):
        return self

    def meth_ref(self, cx):
        return Stored()
