"""MetadorContainerTOC.query — C07 (a query yields exactly the matching nodes at or below the start node), C15 (results come from the start node's own wrapper)."""
from __future__ import annotations

import ast

import z3

from pyvc.api import A, ContractStale, FnSpec
from pyvc.containers import SObj
from pyvc.engine import Closure, Env, Frame
from pyvc.values import SBool, SStr, STuple, SVal, Unsupported, as_bool, fresh_name, truth

S, B, I = z3.StringSort(), z3.BoolSort(), z3.IntSort()
Node = z3.DeclareSort("WrappedNode")
Ver = z3.DeclareSort("VersionArg")
MATCH = z3.Function("node_meta_contains", Node, S, Ver, B)  # (name, version) in node.meta  — MetadorMeta.__contains__
IS_GROUP = z3.Function("node_is_group_like", Node, B)
NVIS = z3.Function("number_of_visited_nodes", Node, I)
VIS = z3.Function("visited_node", Node, I, Node)  # the i-th node handed to the callback by start.visititems (pre-order; T1 + C08 filtering)
NO_VERSION = z3.Const("no_version_given", Ver)
ROOT_NOW = z3.Const("container_root_wrapper_obtained_by_this_call", Node)

T_QUERY = [
    "plugin_args(schema, version) normalises the two arguments to (name, version or None)",
    "start.visititems(f) calls f(path, node) once for every user-visible node strictly below start, in pre-order, with nodes wrapped from start (flags inherited): that is the wrappers' contract (C08/C15); here it is the sequence visited_node(start, 0..n-1)",
    "(name, version) in node.meta is MetadorMeta.__contains__ (its own contract, specs/metaread.py: iff the node-level query yields something; the node-level query is under contract there too)",
]


class NodeVal(SVal):
    def __init__(self, t):
        self.t = t

    def py_truth(self, cx):
        return True  # a wrapper object

    def py_is_none(self, cx):
        return False

    def py_getattr(self, cx, name):
        if name == "meta":
            return MetaOf(self.t)
        raise Unsupported("node attribute " + name)

    def py_isinstance(self, cx, c):
        n = getattr(c, "name", c)
        if n == "H5GroupLike":
            return IS_GROUP(self.t)
        if n == "object":
            return True
        raise Unsupported(f"isinstance(node, {n})")

    def meth_visititems(self, cx, cb):
        """Reads the callback (pyvc.api.read_guarded_append_callback): the list grows by the visited nodes passing its condition, in visit order."""
        from pyvc.api import read_guarded_append_callback

        target, pred = read_guarded_append_callback(cx.run.interp, cx, cb, cx.run.spec, lambda t: NodeVal(t))
        if not isinstance(target, Collected):
            raise ContractStale("the visit callback appends to something else than the result list")
        target.parts.append(("visited-passing", self.t, pred))


class MetaOf(SVal):
    def __init__(self, t):
        self.t = t

    def py_contains(self, cx, key):
        if not (isinstance(key, (tuple, STuple))):
            raise Unsupported("`in node.meta` with a non-tuple")
        items = key.items if isinstance(key, STuple) else key
        name, ver = items
        if ver is None:
            vt = NO_VERSION
        elif isinstance(ver, VerVal):
            vt = ver.t
        else:
            raise Unsupported("version argument of another kind")
        return SBool(MATCH(self.t, name.t if isinstance(name, SStr) else z3.StringVal(name), vt))


class VerVal(SVal):
    def __init__(self, t):
        self.t = t


class Collected(SVal):
    """the list `ret`: a concatenation of filtered visit sequences"""

    def __init__(self):
        self.parts = []

    def meth_append(self, cx, x):
        raise Unsupported("append outside the visit callback")


class ContainerStub(SVal):
    def py_getitem(self, cx, k):
        if k != "/":
            raise Unsupported("container[...] other than the root")
        return NodeVal(ROOT_NOW)


class QuerySpec(FnSpec):
    file = "container/interface.py"
    qual = "MetadorContainerTOC.query"
    props = ("C07", "C15")

    def init(self):
        self.bindings["plugin_args"] = lambda cx, s, v: STuple((cx.run_args.name, cx.run_args.ver))
        self.bindings["H5GroupLike"] = type("C", (), {"name": "H5GroupLike"})()
        self.bindings["iter"] = lambda cx, x: x

    def empty_container(self, cx, name, ann):
        return Collected() if name == "ret" else None

    def setup(self, cx):
        class TocObj(SObj):
            """the TOC object may carry any private state from earlier calls (e.g. something cached): unknown private attributes
            read as 'None or some stale node'; the contract demands the root obtained by THIS call"""

            def py_getattr(s, cx2, n):
                if n in s.fields or not n.startswith("_") or n.startswith("__"):
                    return SObj.py_getattr(s, cx2, n)
                from pyvc.values import SMaybe

                return SMaybe(z3.Bool(f"earlier_state{n}_is_None"), NodeVal(z3.Const(f"node_remembered_in{n}", Node)))

        me = TocObj("MetadorContainerTOC", name="self")
        me.fields["_container"] = ContainerStub()
        given = cx.choose(2) == 1
        node = NodeVal(z3.Const("given_start_node", Node)) if given else None
        a = A(self=me, schema=SStr.fresh("schema_arg"), version=VerVal(z3.Const("version_arg", Ver)), node=node)
        a.name, a.ver = SStr.fresh("schema_name"), VerVal(z3.Const("schema_ver", Ver))
        a.start = node.t if given else ROOT_NOW
        cx.run_args = a
        return a

    def raises(self, cx, a):
        return {"ValueError": a.name.t == z3.StringVal("")}

    def ensures(self, cx, a, res):
        from pyvc.values import SMaybe

        ys = [(k, v.val if isinstance(v, SMaybe) and isinstance(v.val, NodeVal) else v) for k, v in getattr(cx, "yielded", [])]  # (a node that was tested for truth on the way)
        start, nm, ver = a.start, a.name.t, a.ver.t
        m0 = MATCH(start, nm, ver)
        # expected shape: [start if it matches] ++ (if start is a group) [visited nodes that match, in visit order]
        out = []
        first = [y for y in ys if y[0] == "one"]
        rest = [y for y in ys if y[0] == "from"]
        shape_ok = len(first) <= 1 and len(rest) <= 1 and (not first or ys[0] is first[0]) and all(isinstance(y[1], NodeVal) for y in first)
        out.append(("start-node-first-iff-it-matches", z3.And(z3.BoolVal(shape_ok), z3.BoolVal(bool(first)) == m0, z3.BoolVal(True) if not first else first[0][1].t == start), "the start node itself (the given one, or the container's root obtained by this very call — so with the container's current restrictions) is yielded first exactly when it carries a matching object"))
        below_ok = z3.BoolVal(False)
        if rest and isinstance(rest[0][1], Collected) and len(rest[0][1].parts) == 1:
            kind, st_t, pred = rest[0][1].parts[0]
            n = z3.Const(fresh_name("qn"), Node)
            below_ok = z3.And(st_t == start, z3.ForAll([n], pred(n) == MATCH(n, nm, ver)))
        out.append(("then-exactly-the-matching-nodes-below-a-group", z3.If(IS_GROUP(start), below_ok, z3.BoolVal(not rest)), "for a group-like start node the nodes visited below it follow, in visit order, filtered by exactly the same (schema, version) test — nothing else is yielded, and nothing below a dataset"))
        return out


def add_query(reg):
    reg.set_class_home("MetadorContainerTOC", "container/interface.py")
    s = QuerySpec()
    reg.add(s)
    return [s]
