"""Contracts for container/wrappers.py and container/utils.py — C08 (reserved namespace) and C15 (restrictions)."""
from __future__ import annotations

import ast

import z3

from pyvc.api import A, FnSpec, SRC
from pyvc.containers import SObj
from pyvc.engine import ExcVal, KwDict, ModuleInfo, SClass
from pyvc.values import SBool, SStr, SVal, Unsupported, as_bool, fresh_name

PREF = "metador_"
FLAGS = ("read_only", "local_only", "skel_only")


class EnumMember(SVal):
    """A member of the NodeAcl enum (singletons; identity semantics like real enum members)."""

    concrete_key = True

    def __init__(self, name):
        self.name = name

    def __repr__(self):
        return f"NodeAcl.{self.name}"

    def py_truth(self, cx):
        return True

    def attr_name(self, cx):
        return self.name

    def py_eq(self, cx, o):
        return o is self


MEMBERS = {n: EnumMember(n) for n in FLAGS}


class NodeAclEnum(SVal):
    def py_getattr(self, cx, name):
        if name in MEMBERS:
            return MEMBERS[name]
        raise Unsupported(f"NodeAcl.{name}")

    def py_truth(self, cx):
        return True


def iter_builtin(cx, x):
    if isinstance(x, NodeAclEnum):
        return [MEMBERS[n] for n in FLAGS]
    raise Unsupported("iter() of this value")


def internal_spec(p):
    """C08: `p` is or contains a '/'-segment starting with 'metador_' (written from the property statement)."""
    pref = z3.StringVal(PREF)
    i = z3.Int(fresh_name("seg_i"))
    n = z3.Length(p)
    return z3.Exists([i], z3.And(0 <= i, i <= n, z3.Or(i == 0, z3.SubString(p, i - 1, 1) == z3.StringVal("/")), z3.PrefixOf(pref, z3.SubString(p, i, n - i))))


def segment_at(p, i):
    """a '/'-segment starting with 'metador_' begins at position i of p (instance of internal_spec's body)"""
    n = z3.Length(p)
    return z3.And(0 <= i, i <= n, z3.Or(i == 0, z3.SubString(p, i - 1, 1) == z3.StringVal("/")), z3.PrefixOf(z3.StringVal(PREF), z3.SubString(p, i, n - i)))


def internal_code(p):
    """what utils.is_internal_path computes (used on the caller side after IsInternalPath is verified)"""
    return z3.Or(z3.PrefixOf(z3.StringVal(PREF), p), z3.Contains(p, z3.StringVal("/" + PREF)))


class BytesPath(SVal):
    """a path given as bytes (h5py accepts them): not text — str methods with a text argument raise TypeError (T4)"""

    def py_isinstance(self, cx, c):
        names = c if isinstance(c, (tuple, list)) else [c]
        return any(getattr(n, "name", n) in ("bytes", "object") for n in names)

    def meth_startswith(self, cx, x, *a):
        cx.py_raise("TypeError", "startswith first arg must be bytes or a tuple of bytes, not str")

    def meth_find(self, cx, x, *a):
        cx.py_raise("TypeError", "argument should be integer or bytes-like object, not 'str'")

    def py_getitem(self, cx, i):
        return 47  # an int (indexing bytes gives integers), never equal to the text "/"

    def py_truth(self, cx):
        return True


class IsInternalPath(FnSpec):
    file = "container/utils.py"
    qual = "is_internal_path"
    props = ("C08",)
    pure = True

    def setup(self, cx):
        if cx.choose(2) == 1:
            a = A(path=BytesPath(), pref=PREF)
            a.is_bytes = True
            return a
        a = A(path=SStr(z3.String("path")), pref=PREF)
        a.is_bytes = False
        return a

    def raises(self, cx, a):
        return {"TypeError": z3.BoolVal(bool(a.get("is_bytes")))}

    def ensures(self, cx, a, res):
        if a.get("is_bytes"):
            return [("a-path-that-is-not-text-is-never-judged", z3.BoolVal(False), "a bytes path is refused (TypeError), never answered 'not reserved'")]
        p = a.path.t
        r = as_bool(cx, res if not isinstance(res, bool) else z3.BoolVal(res)) if isinstance(res, (SBool, bool)) or z3.is_bool(res) else None
        if r is None:
            return [("result-shape", z3.BoolVal(False), "returns a bool")]
        return [
            ("reserved-segment-detected", z3.Implies(internal_spec(p), r), "every path that is or contains a segment starting with 'metador_' is recognised as reserved"),
            # hint: the segment witnessing the detection starts at 0 (prefix case) or right after the found "/metador_"
            ("only-reserved-segments-detected:prefix-case", z3.Implies(z3.And(r, z3.PrefixOf(z3.StringVal(PREF), p)), segment_at(p, z3.IntVal(0))), "no user path is mistaken for a reserved one"),
            ("only-reserved-segments-detected:inner-case", z3.Implies(z3.And(r, z3.Not(z3.PrefixOf(z3.StringVal(PREF), p))), segment_at(p, z3.IndexOf(p, z3.StringVal("/" + PREF), 0) + 1)), "no user path is mistaken for a reserved one"),
        ]

    def result(self, cx, a):
        p = a.path
        if isinstance(p, BytesPath):
            cx.py_raise("TypeError", "a bytes path is not judged")
        pt = p.t if isinstance(p, SStr) else z3.StringVal(p)
        return SBool(internal_code(pt))

    def native_plan(self, m, o):
        if not isinstance(m.get("path"), str):
            return None
        return {"fn": "is_internal_path", "args": [m["path"]]}


def node_obj(cx, cls="MetadorGroup", name="self"):
    o = SObj(cls, name=name)
    o.fields["_self_flags"] = {MEMBERS[f]: SBool(z3.Bool(f"{name}_{f}")) for f in FLAGS}
    o.fields["_self_local_parent"] = SObj("MetadorGroup", name=name + "_local_parent")
    o.fields["__wrapped__"] = RawObj(name + "_raw")
    o.fields["_self_container"] = SObj("MetadorContainer", name="container")
    return o


def flag(o, f):
    v = o.fields["_self_flags"][MEMBERS[f]]
    return v.t if isinstance(v, SBool) else z3.BoolVal(bool(v))


class RawObj(SVal):
    """The wrapped raw h5py/IH5 object: every method call on it is a RAW effect."""

    def __init__(self, name):
        self.name = name

    def py_truth(self, cx):
        return True

    def py_getattr(self, cx, meth):
        def call(cx2, *args, **kw):
            cx2.effect("RAW", meth, args)
            return RawResult(meth, args)

        return call

    def py_getitem(self, cx, k):  # raw[k]
        cx.effect("RAW", "__getitem__", (k,))
        return RawResult("__getitem__", (k,))

    def py_contains(self, cx, item):  # k in raw
        cx.effect("RAW", "__contains__", (item,))
        return SBool(z3.Bool(fresh_name("raw_contains")))


class RawResult(SVal):
    def __init__(self, meth, args):
        self.meth, self.args = meth, args

    def py_truth(self, cx):
        return True

    def py_contains(self, cx, item):  # `x in <something raw>`: a raw lookup again
        cx.effect("RAW", "__contains__", (self, item))
        return SBool(z3.Bool(fresh_name("raw_contains")))


class Wrapped(SVal):
    def __init__(self, raw, parent):
        self.raw, self.parent = raw, parent


class GuardPath(FnSpec):
    file = "container/wrappers.py"
    qual = "MetadorNode._guard_path"
    props = ("C08", "C15")

    def init(self):
        self.bindings["NodeAcl"] = NodeAclEnum()

    def setup(self, cx):
        if cx.choose(2) == 1:
            return A(self=node_obj(cx), path=BytesPath())
        return A(self=node_obj(cx), path=SStr(z3.String("path")))

    def requires(self, cx, a):
        p = a.path
        if isinstance(p, BytesPath):
            return []
        return [("non-empty-path", (z3.Length(p.t) > 0) if isinstance(p, SStr) else z3.BoolVal(len(p) > 0))]

    def cond(self, cx, a):
        p = a.path
        if isinstance(p, BytesPath):
            return z3.BoolVal(False)
        pt = p.t if isinstance(p, SStr) else z3.StringVal(p)
        return z3.Or(internal_code(pt), z3.And(flag(a.self, "local_only"), z3.PrefixOf(z3.StringVal("/"), pt)))

    def raises(self, cx, a):
        return {"ValueError": self.cond(cx, a), "TypeError": z3.BoolVal(isinstance(a.path, BytesPath))}

    def ensures(self, cx, a, res):
        return [("a-path-that-is-not-text-never-passes-the-guard", z3.BoolVal(not isinstance(a.path, BytesPath)), "a bytes path (which h5py would accept) is refused by the guard — it is never waved through unjudged")]

    def on_raise(self, cx, a, exc):
        return [("no-raw-call", z3.BoolVal(not [e for e in cx.fx[a.get("fx0", 0) :] if e[0] == "RAW"]), "rejected before anything is done")]

    def bind_call(self, interp, cx, f, args, kwargs):
        a = FnSpec.bind_call(self, interp, cx, f, args, kwargs)
        a.fx0 = len(cx.fx)
        return a


class GuardAcl(FnSpec):
    file = "container/wrappers.py"
    qual = "MetadorNode._guard_acl"
    props = ("C15",)

    def setup(self, cx):
        # verified once per flag (the flag argument is an enum member)
        return A(self=node_obj(cx), flag=MEMBERS[FLAGS[cx.choose(3)]], method="m")

    def raises(self, cx, a):
        return {"UnsupportedOperationError": flag(a.self, a.flag.name)}


class ChildKwargs(FnSpec):
    file = "container/wrappers.py"
    qual = "MetadorNode._child_node_kwargs"
    props = ("C15",)

    def init(self):
        self.bindings["NodeAcl"] = NodeAclEnum()
        self.inline.add("MetadorNode.acl")

    def setup(self, cx):
        return A(self=node_obj(cx))

    def ensures(self, cx, a, res):
        if not isinstance(res, dict):
            return [("result-shape", z3.BoolVal(False), "returns kwargs")]
        out = []
        for f in FLAGS:
            v = res.get(f, False)
            vt = v.t if isinstance(v, SBool) else z3.BoolVal(v is True)
            out.append((f"inherits:{f}", z3.Implies(flag(a.self, f), vt), "every node reached from a restricted node carries at least its restrictions"))
        lp = res.get("local_parent", "missing")
        out.append(("local-parent-is-self-iff-local-only", z3.If(flag(a.self, "local_only"), z3.BoolVal(lp is a.self), z3.BoolVal(lp is None)), "children of a local_only node may go up only as far as that node"))
        extra = set(res) - set(FLAGS) - {"local_parent"}
        out.append(("no-other-kwargs", z3.BoolVal(not extra), "only the access flags and the local parent are passed down"))
        return out

    def result(self, cx, a):
        d = {"local_parent": None}
        for f in FLAGS:
            d[f] = SBool(z3.Bool(fresh_name("child_" + f)))
        cx.assume(z3.And(*[z3.Implies(flag(a.self, f), d[f].t) for f in FLAGS]))
        return d


class Restrict(FnSpec):
    file = "container/wrappers.py"
    qual = "MetadorNode.restrict"
    props = ("C15",)
    raises_exact = False

    def init(self):
        self.bindings["NodeAcl"] = NodeAclEnum()
        self.bindings["iter"] = iter_builtin
        self.inline |= {"MetadorNode._parse_access_flags"}

    def setup(self, cx):
        o = node_obj(cx)
        kw = {f: SBool(z3.Bool("add_" + f)) for f in FLAGS}
        if cx.choose(2) == 1:
            kw["bogus"] = True
        a = A(self=o, __kwargs__=kw, kw=kw)
        a.old = {f: flag(o, f) for f in FLAGS}
        return a

    def raises(self, cx, a):
        return {"ValueError": z3.BoolVal("bogus" in a.kw)}

    def frame(self, cx, a):
        out = []
        for f in FLAGS:
            out.append((f"never-removes:{f}", z3.Implies(a.old[f], flag(a.self, f)), "restrictions can be added but never removed"))
            out.append((f"adds-exactly-requested:{f}", flag(a.self, f) == z3.Or(a.old[f], a.kw[f].t), "a flag is set afterwards iff it was set before or requested"))
        return out

    def on_raise(self, cx, a, exc):
        return self.frame(cx, a)

    def ensures(self, cx, a, res):
        lp = a.self.fields["_self_local_parent"]
        return self.frame(cx, a) + [
            ("returns-self", z3.BoolVal(res is a.self), "restrict returns the same node"),
            ("explicit-local-only-becomes-local-root", z3.Implies(a.kw["local_only"].t, z3.BoolVal(lp is None)), "a node explicitly made local_only cannot go up any more"),
        ]


class AclCopy(FnSpec):
    file = "container/wrappers.py"
    qual = "MetadorNode.acl"
    props = ("C15",)

    def setup(self, cx):
        return A(self=node_obj(cx))

    def ensures(self, cx, a, res):
        same = isinstance(res, dict) and res is not a.self.fields["_self_flags"]
        vals = z3.And(*[(res[MEMBERS[f]].t if isinstance(res[MEMBERS[f]], SBool) else z3.BoolVal(bool(res[MEMBERS[f]]))) == flag(a.self, f) for f in FLAGS]) if isinstance(res, dict) and all(MEMBERS[f] in res for f in FLAGS) else z3.BoolVal(False)
        return [("returns-a-copy", z3.BoolVal(same), "the flags handed out are a copy (mutating them has no effect)"), ("same-values", vals, "acl reports the node's flags")]

    def result(self, cx, a):
        return dict(a.self.fields["_self_flags"])


class WrapIfNode(FnSpec):
    """_wrap_if_node as seen by callers (its own body is verified below through ChildKwargs)."""

    file = "container/wrappers.py"
    qual = "MetadorNode._wrap_if_node"
    props = ("C15",)

    def result(self, cx, a):
        return Wrapped(a.val, a.self)


class WrappedMethod(FnSpec):
    """One instance per `X = _wrap_method("name", is_read_only_method=...)` found in the class bodies."""

    file = "container/wrappers.py"
    qual = "_wrap_method.<locals>.wrapped_method"
    props = ("C08", "C15")

    def __init__(self, method, ro):
        self.method, self.ro = method, ro
        self.label = f"{method},read_only_method={ro}"
        super().__init__()

    def init(self):
        self.bindings["NodeAcl"] = NodeAclEnum()
        self.bindings["method"] = self.method
        self.bindings["is_read_only_method"] = self.ro

    def setup(self, cx):
        return A(obj=node_obj(cx, name="obj"), name=SStr(z3.String("name")), __varargs__=(), __kwargs__={})

    def requires(self, cx, a):
        return [("non-empty-path", z3.Length(a.name.t) > 0)]

    def raises(self, cx, a):
        gp = z3.Or(internal_code(a.name.t), z3.And(flag(a.obj, "local_only"), z3.PrefixOf(z3.StringVal("/"), a.name.t)))
        d = {"ValueError": gp}
        if not self.ro:
            d["UnsupportedOperationError"] = z3.And(z3.Not(gp), flag(a.obj, "read_only"))
        return d

    def on_raise(self, cx, a, exc):
        return [("rejected-without-effect", z3.BoolVal(not [e for e in cx.fx if e[0] == "RAW"]), "reserved paths / forbidden operations are rejected before the raw object is touched")]

    def ensures(self, cx, a, res):
        raw = [e for e in cx.fx if e[0] == "RAW"]
        ok = len(raw) == 1 and raw[0][1] == self.method and len(raw[0][2]) >= 1 and raw[0][2][0] is a.name
        return [
            ("exactly-one-raw-call-with-the-guarded-path", z3.BoolVal(ok), "the raw method is called once, with the path that passed the guards"),
            ("result-wrapped-by-this-node", z3.BoolVal(isinstance(res, Wrapped) and res.parent is a.obj), "results are wrapped so that they inherit this node's restrictions"),
        ]


def wrap_method_instances():
    """Enumerate `_wrap_method(...)` uses in container/wrappers.py from the current source."""
    mi = ModuleInfo.load(SRC / "container/wrappers.py")
    found = set()
    for node in ast.walk(mi.tree):
        if isinstance(node, ast.Call) and isinstance(node.func, ast.Name) and node.func.id == "_wrap_method" and node.args and isinstance(node.args[0], ast.Constant):
            ro = False
            if len(node.args) > 1 and isinstance(node.args[1], ast.Constant):
                ro = bool(node.args[1].value)
            for kw in node.keywords:
                if kw.arg == "is_read_only_method" and isinstance(kw.value, ast.Constant):
                    ro = bool(kw.value.value)
            found.add((node.args[0].value, ro))
    return sorted(found)


def add_wrappers(reg):
    for c in ("MetadorNode", "MetadorGroup", "MetadorDataset", "MetadorContainer"):
        reg.set_class_home(c, "container/wrappers.py")
    reg.globals[("container/wrappers.py", "NodeAcl")] = NodeAclEnum()
    base = [IsInternalPath(), GuardPath(), GuardAcl(), AclCopy(), ChildKwargs(), Restrict(), WrapIfNode()]
    for s in base:
        reg.add(s)
    inst = [WrappedMethod(m, ro) for m, ro in wrap_method_instances()]
    if inst:
        reg.specs[(inst[0].file, inst[0].qual)] = inst[0]
    return [s for s in base if not isinstance(s, WrapIfNode)] + inst


# ---- MetadorGroup._destroy_meta: the unlink flag reaches every node below (C06) -------------------------------

from pyvc.api import LoopSpec  # noqa: E402
from pyvc.containers import BOOL, ClassDecl, SMap, SRef, SSeq, TRef  # noqa: E402

ClassDecl("ChildNodeRef", {})


class DestroyMetaGroup(FnSpec):
    file = "container/wrappers.py"
    qual = "MetadorGroup._destroy_meta"
    props = ("C06",)

    def init(self):
        def inv(cx, env, it):
            a = cx.ghost["dm"]
            log = a.self.fields["destroyed_with_flag"]
            ch = a.children
            j = z3.Int(fresh_name("dj"))
            c = z3.Const(fresh_name("dc"), z3.DeclareSort("Ref"))
            return [
                ("children-so-far-destroyed-with-the-same-flag", z3.ForAll([j], z3.Implies(z3.And(0 <= j, j < it.i), z3.And(log.has(ch.at_term(j)), log.get_term(ch.at_term(j)) == a.flag)))),
                ("nothing-else-destroyed", z3.ForAll([c], z3.Implies(log.has(c), z3.Exists([j], z3.And(0 <= j, j < it.i, ch.at_term(j) == c))))),
                ("never-with-another-flag", z3.ForAll([c], z3.Implies(log.has(c), log.get_term(c) == a.flag))),
            ]

        self.loops[0] = LoopSpec(inv, modifies=["child"], havoc_inplace=["self.destroyed_with_flag"])

    def setup(self, cx):
        o = SObj("MetadorGroupForDestroy", name="self")
        o.fields["destroyed_with_flag"] = SMap(TRef("ChildNodeRef"), BOOL, name="destroyed")  # ghost: child -> flag it was destroyed with
        children = SSeq.fresh(TRef("ChildNodeRef"), "children")
        o.children = children
        unl = z3.Bool("unlink")
        shape = cx.choose(2)  # called with the flag / with the default
        a = A(self=o) if shape == 1 else A(self=o, _unlink=SBool(unl))
        a.flag = z3.BoolVal(True) if shape == 1 else unl
        a.children = children
        cx.ghost["dm"] = a
        return a

    def ensures(self, cx, a, res):
        log = a.self.fields["destroyed_with_flag"]
        ch = a.children
        j = z3.Int(fresh_name("ej"))
        own = [e for e in cx.fx if e[0] == "destroy-own-meta"]
        flag_ok = z3.BoolVal(False)
        if len(own) == 1:
            f = own[0][1]
            flag_ok = (f.t == a.flag) if isinstance(f, SBool) else z3.BoolVal(f) == a.flag
        return [
            ("own-metadata-destroyed-with-the-flag", z3.And(z3.BoolVal(len(own) == 1), flag_ok), "the node's own metadata is destroyed once, with the requested unlink flag"),
            ("every-child-destroyed-with-the-same-flag", z3.ForAll([j], z3.Implies(z3.And(0 <= j, j < ch.n), z3.And(log.has(ch.at_term(j)), log.get_term(ch.at_term(j)) == a.flag))), "the flag is passed on to EVERY child (and by recursion to every node below): a copy made without metadata never unlinks the originals' TOC entries, a delete always does"),
        ]


def add_destroy(reg):
    reg.set_class_home("MetadorGroupForDestroy", "container/wrappers.py", "MetadorGroup")
    reg.method_bindings[("MetadorGroup", "super._destroy_meta")] = lambda cx, o, _unlink=True: cx.effect("destroy-own-meta", _unlink)
    reg.method_bindings[("MetadorGroupForDestroy", "values")] = lambda cx, o: o.children

    def child_destroy(cx, child, _unlink=True):
        o = cx.ghost["dm"].self
        log = o.fields["destroyed_with_flag"]
        log.py_setitem(cx, child, _unlink)

    reg.method_bindings[("ChildNodeRef", "_destroy_meta")] = child_destroy
    s = DestroyMetaGroup()
    reg.add(s)
    return [s]


# ---- going up: MetadorNode.parent / .file (C15) -------------------------------------------------------------------


class RawWithParent(RawObj):
    def py_getattr(self, cx, name):
        if name == "parent":
            return RawResult("parent", ())
        return RawObj.py_getattr(self, cx, name)


class NewWrapper(SVal):
    def __init__(self, cls, container, raw, kw):
        self.cls, self.container, self.raw, self.kw = cls, container, raw, kw


class ParentProp(FnSpec):
    file = "container/wrappers.py"
    qual = "MetadorNode.parent"
    props = ("C15",)

    def init(self):
        self.bindings["NodeAcl"] = NodeAclEnum()
        self.bindings["MetadorGroup"] = lambda cx, cont, raw, **kw: NewWrapper("MetadorGroup", cont, raw, kw)
        self.inline.add("MetadorNode.acl")

    def setup(self, cx):
        o = node_obj(cx)
        o.fields["__wrapped__"] = RawWithParent("self_raw")
        a = A(self=o)
        a.has_lp = cx.choose(2) == 1
        if not a.has_lp:
            o.fields["_self_local_parent"] = None
        a.lp = o.fields["_self_local_parent"]
        return a

    def raises(self, cx, a):
        return {"UnsupportedOperationError": z3.And(flag(a.self, "local_only"), z3.BoolVal(not a.has_lp))}

    def ensures(self, cx, a, res):
        o = a.self
        lo = flag(o, "local_only")
        out = [("local-only-yields-only-the-marked-parent", z3.Implies(lo, z3.BoolVal(a.has_lp and res is a.lp)), "a local_only node hands out, as its parent, only the marked local parent (an existing wrapper with its own restrictions) — never a wrapper built from the raw parent, so nothing above the start node is reachable")]
        built = isinstance(res, NewWrapper)
        out.append(("otherwise-a-wrapper-of-the-raw-parent", z3.Implies(z3.Not(lo), z3.BoolVal(built and res.container is o.fields["_self_container"] and isinstance(res.raw, RawResult) and res.raw.meth == "parent")), "an unrestricted-upwards node gets a new wrapper of its raw parent"))
        if built:
            for f in FLAGS:
                v = res.kw.get(f, False)
                vt = v.t if isinstance(v, SBool) else z3.BoolVal(v is True)
                out.append((f"parent-inherits:{f}", z3.Implies(flag(o, f), vt), "the parent wrapper carries at least this node's restrictions"))
        return out


class FileProp(FnSpec):
    file = "container/wrappers.py"
    qual = "MetadorNode.file"
    props = ("C15",)

    def init(self):
        self.bindings["NodeAcl"] = NodeAclEnum()
        self.inline.add("MetadorNode.acl")

    def setup(self, cx):
        return A(self=node_obj(cx))

    def raises(self, cx, a):
        return {"UnsupportedOperationError": flag(a.self, "local_only")}

    def ensures(self, cx, a, res):
        return [("container-only-for-non-local-nodes", z3.Not(flag(a.self, "local_only")), "a local_only node never hands out the container")]


def add_upwards(reg):
    specs = [ParentProp(), FileProp()]
    for s in specs:
        reg.add(s)
    return specs
