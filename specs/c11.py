"""C11 — a crash while patching never damages what was committed (P-tier: statement-boundary effect order)."""
from . import hashing, record


def build(reg):
    record.add_record_bindings(reg)
    record.add_open_bindings(reg)
    specs = record.add_lifecycle(reg)
    return {
        "verify": specs,
        "lemmas": [],
        "trusted": hashing.TRUSTED + [record.T1_OPEN, record.T1_X, record.T2_UNLINK, record.T3_HEX, record.T6_UUID],
        "assumptions": ["crash points are statement boundaries between external effects: the proved effect order (exclusive create -> close -> user block -> reopen; close -> hash -> user block -> read-only reopen) bounds what a crash can leave behind; kills inside libhdf5 writes are not modelled"],
    }
