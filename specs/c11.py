"""C11 — a crash while patching never damages what was committed (P-tier: statement-boundary effect order)."""
from . import findfiles, hashing, manifest, naming, record, ublock


def build(reg):
    record.add_record_bindings(reg)
    record.add_open_bindings(reg)
    specs = record.add_lifecycle(reg)
    specs = specs + [x for x in manifest.add_manifest(reg) if x.qual in ("IH5MFRecord.create_stub", "IH5MFRecord.commit_patch")]  # entry points that create / finish containers next to committed ones
    specs = specs + ublock.add_ublock(reg)  # the single sequential write of text + NUL that the torn-write enumeration relies on; a new block is uncommitted
    specs = specs + [record.OpenRecord()]  # what merely LOOKING at a file set does: an uncommitted newest container stays read-only unless asked for (also with the defaults)
    specs = specs + findfiles.add_findfiles(reg)  # 'the complete file set' after a crash is what find_files assembles by name: every container of the record, however many
    return {
        "verify": specs,
        "lemmas": [("next-patch-file-is-found-by-name", naming.lemma_next_patch_is_found)],
        "trusted": hashing.TRUSTED + [record.T1_OPEN, record.T1_X, record.T2_UNLINK, record.T3_HEX, record.T6_UUID] + findfiles.T_FIND + ublock.T_UB,
        "assumptions": ["crash points are statement boundaries between external effects: the proved effect order (exclusive create -> close -> user block -> reopen; close -> hash -> user block -> read-only reopen) bounds what a crash can leave behind; kills inside libhdf5 writes are not modelled"],
    }
