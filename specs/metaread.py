"""MetadorMeta read side: values/items/keys (C15: a skel_only node hands out no contents), __getitem__/__contains__ (C07), _destroy (C06/C07)."""
from __future__ import annotations

import z3

from pyvc.api import A, FnSpec, LoopSpec
from pyvc.containers import STR, SObj, SSet
from pyvc.values import SBool, SMaybe, SStr, STuple, SVal, Unsupported, fresh_name

B, S = z3.BoolSort(), z3.StringSort()
SKEL = z3.Bool("node_is_skel_only")

T_READ = [
    "dict.keys()/values()/items() are views of the per-node object table; MetadorNode._guard_acl(flag) raises UnsupportedOperationError exactly when the node has that flag (its own contract, C15)",
]


class View(SVal):
    def __init__(self, kind):
        self.kind = kind


class ObjTable(SVal):
    """self._objs as far as the read side cares: which view was handed out"""

    def meth_keys(self, cx):
        cx.effect("view", "keys")
        return View("keys")

    def meth_values(self, cx):
        cx.effect("view", "values")
        return View("values")

    def meth_items(self, cx):
        cx.effect("view", "items")
        return View("items")


class NodeStub(SVal):
    def meth__guard_acl(self, cx, flag, *a):
        nm = getattr(flag, "name", flag)
        if nm == "skel_only" and cx.decide(SKEL):
            cx.py_raise("UnsupportedOperationError", "skel_only")
        cx.effect("guard", nm)


class AclNS(SVal):
    def py_getattr(self, cx, name):
        return type("Flag", (), {"name": name})()


def _me():
    me = SObj("MetadorMetaRead", name="self")
    me.fields["_objs"] = ObjTable()
    me.fields["_node"] = NodeStub()
    return me


class ViewSpec(FnSpec):
    file = "container/interface.py"
    props = ("C15",)

    def __init__(self, which, guarded):
        self.which, self.guarded = which, guarded
        self.qual = f"MetadorMeta.{which}"
        FnSpec.__init__(self)

    def init(self):
        self.bindings["NodeAcl"] = AclNS()

    def setup(self, cx):
        return A(self=_me())

    def raises(self, cx, a):
        return {"UnsupportedOperationError": SKEL} if self.guarded else {}

    def on_raise(self, cx, a, exc):
        return [("nothing-handed-out-when-refused", z3.BoolVal(not [e for e in cx.fx if e[0] == "view"]), "a skel_only node hands out no view of its metadata objects")]

    def ensures(self, cx, a, res):
        ok = isinstance(res, View) and res.kind == self.which
        out = [("the-view-of-the-object-table", z3.BoolVal(ok), f"{self.which}() is the {self.which} view of the node's object table")]
        if self.guarded:
            fx = [e for e in cx.fx if e[0] in ("guard", "view")]
            out.append(("guard-before-view", z3.BoolVal(bool(fx) and tuple(fx[0][:2]) == ("guard", "skel_only")), "the skel_only check comes before anything is handed out (stored objects give access to the stored bytes)"))
        return out


# ---- __getitem__ / __contains__ -------------------------------------------------------------------------------------------------
GET_HIT = z3.Bool("get_finds_a_compatible_object")
QUERY_HIT = z3.Bool("query_yields_something")
ARG_EMPTY = z3.Bool("schema_argument_is_the_empty_query")


class Parsed(SVal):
    def py_truth(self, cx):
        return True  # pydantic models are truthy (T5)


class SchemaArg(SVal):
    """the schema argument of __contains__: '' | ('', v) | anything else"""

    def __init__(self, shape):
        self.shape = shape
        self.name = SStr.fresh("schema_name_in_tuple")

    def py_eq(self, cx, o):
        if o == "":
            return self.shape == "empty-str"
        raise Unsupported("comparison of the schema argument")

    def py_isinstance(self, cx, c):
        n = getattr(c, "name", c)
        if n == "tuple":
            return self.shape in ("empty-tuple", "tuple")
        raise Unsupported(f"isinstance(schema, {n})")

    def py_getitem(self, cx, i):
        if i == 0 and self.shape in ("empty-tuple", "tuple"):
            return "" if self.shape == "empty-tuple" else self.name
        raise Unsupported("schema[...]")


class GetItem(FnSpec):
    file = "container/interface.py"
    qual = "MetadorMeta.__getitem__"
    props = ("C07",)

    def setup(self, cx):
        me = SObj("MetadorMetaRead", name="self")
        a = A(self=me, schema=SchemaArg("other"))
        a.obj = Parsed()

        def get(cx2, s, *r):
            cx2.effect("get", s)
            return SMaybe(z3.Not(GET_HIT), a.obj)

        me.fields["get"] = get
        return a

    def raises(self, cx, a):
        return {"KeyError": z3.Not(GET_HIT)}

    def ensures(self, cx, a, res):
        r = res.val if isinstance(res, SMaybe) else res
        gets = [e for e in cx.fx if e[0] == "get"]
        return [("what-get-returns-for-the-same-argument", z3.BoolVal(r is a.obj and len(gets) == 1 and gets[0][1] is a.schema), "[] is get() for the same argument, with KeyError instead of None")]


class Contains(FnSpec):
    file = "container/interface.py"
    qual = "MetadorMeta.__contains__"
    props = ("C07",)

    def init(self):
        self.bindings["next"] = lambda cx, it, default=None: it.first(cx, default)

    def setup(self, cx):
        shape = ["empty-str", "empty-tuple", "tuple", "other"][cx.choose(4)]
        me = SObj("MetadorMetaRead", name="self")
        a = A(self=me, schema=SchemaArg(shape))
        a.shape = shape

        class It(SVal):
            def first(self2, cx2, default=None):
                if default is not None:
                    raise Unsupported("next with another default")
                return SMaybe(z3.Not(QUERY_HIT), Parsed())

        def query(cx2, s, *r):
            cx2.effect("query", s, r)
            return It()

        me.fields["query"] = query
        cx.assume(a.schema.name.t != z3.StringVal(""))  # shape "tuple": a tuple whose name is not empty
        return a

    def raises(self, cx, a):
        return {}

    def ensures(self, cx, a, res):
        from .c16 import is_bool_eq

        qs = [e for e in cx.fx if e[0] == "query"]
        if a.shape in ("empty-str", "empty-tuple"):
            return [("the-empty-query-is-contained-nowhere", z3.BoolVal(res is False and not qs), "'' (which lists everything when queried) is never 'contained'")]
        return [
            ("contained-iff-the-node-level-query-yields-something", z3.And(z3.BoolVal(len(qs) == 1 and qs[0][1] is a.schema and tuple(qs[0][2]) == ()), is_bool_eq(res, QUERY_HIT)), "`schema in node.meta` holds exactly when the node-level query for that very argument yields a schema (own or compatible descendant)"),
        ]


# ---- _destroy ----------------------------------------------------------------------------------------------------------------------
class Destroy(FnSpec):
    file = "container/interface.py"
    qual = "MetadorMeta._destroy"
    props = ("C06", "C07")

    def init(self):
        def inv(cx, env, it):
            a = cx.ghost["md"]
            k = z3.String(fresh_name("dk"))
            return [("deleted-so-far-with-the-callers-flag", z3.ForAll([k], z3.And(a.deleted.has(k) == z3.Select(it.processed, k), z3.Not(a.wrong.has(k)))))]

        self.loops[0] = LoopSpec(inv, modifies=["schema_name"], havoc_inplace=["self.deleted_log", "self.wrong_log"])
        self.bindings["list"] = lambda cx, x: x

    def setup(self, cx):
        me = SObj("MetadorMetaRead", name="self")
        keys = SSet.fresh(STR, "attached_schema_names")
        deleted, wrong = SSet(STR), SSet(STR)
        unlink = SBool(z3.Bool("unlink_flag"))
        me.fields["keys"] = lambda cx2: keys
        me.fields["deleted_log"], me.fields["wrong_log"] = deleted, wrong

        def del_raw(cx2, name, _unlink=True):
            deleted.py_call_method(cx2, "add", [name], {})
            same = (_unlink.t if isinstance(_unlink, SBool) else z3.BoolVal(bool(_unlink))) == unlink.t
            if not cx2.decide(same):
                wrong.py_call_method(cx2, "add", [name], {})

        me.fields["_del_raw"] = del_raw
        a = A(self=me, __kwargs__={}, _unlink=unlink)
        a.kset, a.deleted, a.wrong = keys, deleted, wrong
        cx.ghost["md"] = a
        return a

    def raises(self, cx, a):
        return {}

    def ensures(self, cx, a, res):
        k = z3.String(fresh_name("ek"))
        return [("every-attached-object-deleted-with-the-callers-flag", z3.ForAll([k], z3.And(a.deleted.has(k) == a.kset.has(k), z3.Not(a.wrong.has(k)))), "every metadata object of the node is deleted, each with the unlink flag the caller gave (a meta-less copy must not unregister the originals' links), nothing else")]


def add_metaread(reg):
    reg.set_class_home("MetadorMetaRead", "container/interface.py", "MetadorMeta")
    specs = [ViewSpec("values", True), ViewSpec("items", True), ViewSpec("keys", False), GetItem(), Contains(), Destroy(), MetaInit(), RequireSchema(), ParseObj(), NodeQuery()]
    for s in specs:
        reg.add(s)
    return specs


# ---- MetadorMeta.__init__: the per-node object table rebuilt from the stored object nodes -------------------------------------------
from pyvc.containers import SMap, SetIter  # noqa: E402

ObjNode = z3.DeclareSort("StoredObjectNode")
SCHEMA_NAME_OF = z3.Function("schema_name_encoded_in_node_name", ObjNode, S)  # StoredMetadata.from_node(n).schema.name (its own contract)
STORED_OF = z3.Function("StoredMetadata_from_node", ObjNode, ObjNode)  # identity on nodes: the record made for that node
IS_DS = z3.Bool("node_is_dataset")
BASE_DIR = z3.Function("to_meta_base_path", S, B, S)
HAS_DIR = z3.Bool("metadata_directory_exists")


class TObjNode:
    def sort(self):
        return ObjNode

    def wrap(self, t):
        return ObjNodeV(t)

    def unwrap(self, cx, v):
        if isinstance(v, (ObjNodeV, StoredV)):
            return v.t
        raise Unsupported("not a stored object node")


class ObjNodeV(SVal):
    def __init__(self, t):
        self.t = t

    def py_isinstance(self, cx, c):
        n = getattr(c, "name", c)
        if n == "H5DatasetLike":
            return True  # members of a metadata directory are datasets (TocInv; the code asserts it)
        raise Unsupported(f"isinstance(obj_node, {n})")


class StoredV(SVal):
    def __init__(self, t):
        self.t = t

    def py_getattr(self, cx, n):
        if n == "schema":
            return SchemaOf(self.t)
        raise Unsupported("stored metadata attribute " + n)


class SchemaOf(SVal):
    def __init__(self, t):
        self.t = t

    def py_getattr(self, cx, n):
        if n == "name":
            return SStr(SCHEMA_NAME_OF(self.t))
        raise Unsupported("ref attribute " + n)


class MetaGrp(SVal):
    def __init__(self, members):
        self.members = members

    def meth_values(self, cx):
        me = self

        class _It(SVal):
            def py_iter_schema(s, cx2):
                return SetIter(TObjNode(), me.members.dom, lambda t: ObjNodeV(t))

        return _It()


class UserNode(SVal):
    def py_getattr(self, cx, n):
        if n == "name":
            return SStr(z3.String("node_name"))
        if n == "_self_container":
            return self.mc
        raise Unsupported("node attribute " + n)

    def py_isinstance(self, cx, c):
        n = getattr(c, "name", c)
        if n == "H5DatasetLike":
            return IS_DS
        raise Unsupported(f"isinstance(node, {n})")


class RawGet(SVal):
    def __init__(self, members):
        self.members = members

    def meth_get(self, cx, path, default=None):
        cx.effect("raw-get", path)
        if cx.decide(HAS_DIR):
            return MetaGrp(self.members)
        if isinstance(default, dict) and not default:
            return MetaGrp(SSet(TObjNode()))  # the empty dict given as default: nothing to iterate
        raise Unsupported("another default for the missing metadata directory")


class InitObjs(SObj):
    def py_setattr(self, cx, name, val):
        if name == "_objs" and isinstance(val, dict) and not val:
            val = SMap(STR, TObjNode(), name="objs")
        SObj.py_setattr(self, cx, name, val)


class MetaInit(FnSpec):
    file = "container/interface.py"
    qual = "MetadorMeta.__init__"
    props = ("C07", "C06")

    def init(self):
        self.bindings["H5DatasetLike"] = type("C", (), {"name": "H5DatasetLike"})()
        self.bindings["H5GroupLike"] = type("C", (), {"name": "H5GroupLike"})()
        self.bindings["cast"] = lambda cx, t, v: v
        self.bindings["M"] = type("MNS", (SVal,), {"py_getattr": lambda s, cx, n: (lambda cx2, p, ds: SStr(BASE_DIR(p.t, ds.t if isinstance(ds, SBool) else (ds if z3.is_expr(ds) else z3.BoolVal(bool(ds)))))) if n == "to_meta_base_path" else (_ for _ in ()).throw(Unsupported("M." + n))})()
        self.bindings["StoredMetadata"] = type("SMNS", (SVal,), {"meth_from_node": lambda s, cx, n: StoredV(n.t)})()

        def inv(cx, env, it):
            a = cx.ghost["mi"]
            O = a.self.fields["_objs"]
            k = z3.String(fresh_name("ik"))
            n = z3.Const(fresh_name("in"), ObjNode)
            return [
                ("every-node-read-so-far-is-in-the-table-under-its-schema-name", z3.ForAll([n], z3.Implies(z3.Select(it.processed, n), z3.And(O.has(SCHEMA_NAME_OF(n)), O.get_term(SCHEMA_NAME_OF(n)) == n)))),
                ("nothing-else-is", z3.ForAll([k], z3.Implies(O.has(k), z3.And(z3.Select(it.processed, O.get_term(k)), SCHEMA_NAME_OF(O.get_term(k)) == k)))),
            ]

        self.loops[0] = LoopSpec(inv, modifies=["obj_node", "obj"], havoc_inplace=["self._objs"])

    def setup(self, cx):
        members = SSet.fresh(TObjNode(), "object_nodes_in_the_metadata_directory")
        n1, n2 = z3.Consts("n1 n2", ObjNode)
        cx.assume(z3.ForAll([n1, n2], z3.Implies(z3.And(members.has(n1), members.has(n2), SCHEMA_NAME_OF(n1) == SCHEMA_NAME_OF(n2)), n1 == n2)))  # at most one object per schema name per node (MetadorMeta.__setitem__, C07)
        me = InitObjs("MetadorMetaRead", name="self")
        node = UserNode()
        mc = SObj("ContainerStub", name="mc")
        mc.fields["__wrapped__"] = RawGet(members)
        node.mc = mc
        a = A(self=me, node=node)
        a.members = members
        cx.ghost["mi"] = a
        return a

    def raises(self, cx, a):
        return {}

    def ensures(self, cx, a, res):
        O = a.self.fields.get("_objs")
        if not isinstance(O, SMap):
            return [("table-initialised", z3.BoolVal(False), "")]
        n = z3.Const(fresh_name("en"), ObjNode)
        k = z3.String(fresh_name("ek"))
        bd = a.self.fields.get("_base_dir")
        gets = [e for e in cx.fx if e[0] == "raw-get"]
        return [
            ("metadata-directory-of-this-node", z3.BoolVal(isinstance(bd, SStr) and len(gets) == 1 and gets[0][1] is bd) if not isinstance(bd, SStr) else z3.And(z3.BoolVal(len(gets) == 1 and gets[0][1] is bd), bd.t == BASE_DIR(z3.String("node_name"), IS_DS)), "the objects are looked up in the metadata directory of THIS node (path of the node, dataset or group form)"),
            ("every-stored-object-is-in-the-table", z3.ForAll([n], z3.Implies(z3.And(HAS_DIR, a.members.has(n)), z3.And(O.has(SCHEMA_NAME_OF(n)), O.get_term(SCHEMA_NAME_OF(n)) == n))), "after (re)opening, every object stored for the node is found under its schema name — all of them, not only the last one read"),
            ("and-nothing-else", z3.ForAll([k], z3.Implies(O.has(k), z3.And(HAS_DIR, a.members.has(O.get_term(k)), SCHEMA_NAME_OF(O.get_term(k)) == k))), "the table holds nothing but the stored objects (empty when the node has no metadata directory)"),
        ]


# ---- _require_schema / _parse_obj: which class parses what ------------------------------------------------------------------------------
NOT_INSTALLED = z3.Bool("no_installed_schema_supports_the_request")
AUXILIARY = z3.Bool("resolved_schema_class_is_auxiliary")


class SchemaClassTok(SVal):
    name = "TheRequestedSchema"

    def py_getattr(self, cx, n):
        if n == "Plugin":
            return type("P", (SVal,), {"py_getattr": lambda s, cx2, m: SBool(AUXILIARY) if m == "auxiliary" else (_ for _ in ()).throw(Unsupported("Plugin." + m))})()
        raise Unsupported("schema class attribute " + n)

    def meth_parse_raw(self, cx, o):
        return ("parse_raw", o)

    def meth_parse_obj(self, cx, o):
        return ("parse_obj", o)


class RequireSchema(FnSpec):
    file = "container/interface.py"
    qual = "MetadorMeta._require_schema"
    props = ("C07",)

    def init(self):
        me = self

        class PG(SVal):
            def meth__get_unsafe(s, cx, name, ver):
                cx.effect("get_unsafe", name, ver)
                if cx.decide(NOT_INSTALLED):
                    cx.py_raise("KeyError", "no compatible schema installed")
                return me.cls_tok

        self.bindings["schemas"] = PG()

    def setup(self, cx):
        self.cls_tok = SchemaClassTok()
        a = A(schema_name=SStr.fresh("schema_name"), schema_ver=VerArg())
        return a

    def raises(self, cx, a):
        return {"KeyError": NOT_INSTALLED, "TypeError": z3.And(z3.Not(NOT_INSTALLED), AUXILIARY)}

    def ensures(self, cx, a, res):
        g = [e for e in cx.fx if e[0] == "get_unsafe"]
        return [("the-class-the-plugin-group-resolves-for-exactly-this-request", z3.BoolVal(res is self.cls_tok and len(g) == 1 and g[0][1] is a.schema_name and g[0][2] is a.schema_ver), "the schema class is the one the plugin group resolves for the given name AND version (newest compatible), unknown ones are a KeyError, auxiliary ones a TypeError")]


class VerArg(SVal):
    pass


class ObjArg(SVal):
    """the object handed to _parse_obj: an instance of the schema | str/bytes | another MetadataSchema instance | anything else (a dict)"""

    def __init__(self, kind):
        self.kind = kind

    def py_isinstance(self, cx, c):
        names = c if isinstance(c, (tuple, list)) else [c]
        out = False
        for n in names:
            n = getattr(n, "name", n)
            if n == "TheRequestedSchema":
                out = out or self.kind == "instance"
            elif n in ("str", "bytes"):
                out = out or self.kind == "text"
            elif n == "MetadataSchema":
                out = out or self.kind in ("instance", "other-model")
            elif n != "object":
                raise Unsupported(f"isinstance against {n!r}")
        return out

    def meth_dict(self, cx, **kw):
        if kw:
            raise Unsupported("dict() with arguments")
        return ("dict-of", self)


class ParseObj(FnSpec):
    file = "container/interface.py"
    qual = "MetadorMeta._parse_obj"
    props = ("C07",)

    def init(self):
        self.bindings["MetadataSchema"] = type("C", (), {"name": "MetadataSchema"})()

    def setup(self, cx):
        kind = ["instance", "text", "other-model", "dict"][cx.choose(4)]
        a = A(schema=SchemaClassTok(), obj=ObjArg(kind))
        a.kind = kind
        return a

    def raises(self, cx, a):
        return {}

    def ensures(self, cx, a, res):
        if a.kind == "instance":
            ok = res is a.obj
            cl = "an instance of the schema is stored as it is"
        elif a.kind == "text":
            ok = isinstance(res, tuple) and res[0] == "parse_raw" and res[1] is a.obj
            cl = "text or bytes are parsed by the schema's parse_raw"
        elif a.kind == "other-model":
            ok = isinstance(res, tuple) and res[0] == "parse_obj" and isinstance(res[1], tuple) and res[1][0] == "dict-of" and res[1][1] is a.obj
            cl = "an instance of another schema is re-validated from ALL its fields (plain .dict()) by the requested schema"
        else:
            ok = isinstance(res, tuple) and res[0] == "parse_obj" and res[1] is a.obj
            cl = "a dict is validated by the requested schema"
        return [("parsed-by-the-requested-schema", z3.BoolVal(bool(ok)), cl + " — always by the class that was asked for, never stored unvalidated")]


# ---- MetadorMeta.query (node level): which schemas of this node answer a request ------------------------------------------------------------
SRefS = z3.DeclareSort("SchemaRefValue")
IS_CHILD = z3.Function("toc_children_lists", SRefS, SRefS, B)  # c in schemas.children(ref)   (TOCSchemas.children; the children map is C06/C20's)
IS_VERSION = z3.Function("toc_versions_lists", SRefS, B)  # ref in schemas.versions(name, ver)  (TOCSchemas.versions, its own contract)
OWN_HIT = z3.Bool("get_raw_finds_an_object_of_the_requested_schema")
OWN_REF = z3.Const("schema_of_the_object_get_raw_found", SRefS)
STORED_REF = z3.Function("schema_ref_of_the_object_stored_under_name", S, SRefS)  # self._get_raw(name).schema
NAME_EMPTY = z3.Bool("no_schema_name_given")


class TSRef:
    def sort(self):
        return SRefS

    def wrap(self, t):
        return SRefV(t)

    def unwrap(self, cx, v):
        if isinstance(v, SRefV):
            return v.t
        raise Unsupported("not a schema reference")


class SRefV(SVal):
    def __init__(self, t):
        self.t = t

    def py_hash(self, cx):
        raise Unsupported("hash")


class StoredO(SVal):
    def __init__(self, ref_t):
        self.ref_t = ref_t

    def py_truth(self, cx):
        return True

    def py_getattr(self, cx, n):
        if n == "schema":
            return SRefV(self.ref_t)
        raise Unsupported("stored metadata attribute " + n)


class EmptySet(SVal):
    """set() in `set().union(*(...))`"""

    def meth_union(self, cx, *args):
        from pyvc.engine import StarOf

        if len(args) != 1 or not isinstance(args[0], StarOf):
            raise Unsupported("set().union of something else than *(generator)")
        bound, rng, val = args[0].elementwise(cx.run.interp, cx)
        if not isinstance(val, SSet):
            raise Unsupported("the united things are not sets")
        x = z3.Const(fresh_name("ux"), val.kt.sort())
        res = SSet.fresh(val.kt, "big_union")
        cx.assume(z3.ForAll([x], res.has(x) == z3.Exists([bound], z3.And(rng, val.has(x)))))
        return res


def stored_schemas_schema(interp, cx, fr, e):
    """{self._get_raw(s).schema for s in self.keys()}: the set of schemas of the attached objects"""
    import ast

    from pyvc.api import ContractStale
    from pyvc.engine import Env, Frame

    if not isinstance(e, ast.SetComp) or len(e.generators) != 1 or e.generators[0].ifs:
        return NotImplemented
    g = e.generators[0]
    src = interp.eval(cx, fr, g.iter)
    if not isinstance(src, SSet):
        return NotImplemented
    kk = z3.Const(fresh_name("nk"), src.kt.sort())
    sub = Frame(fr.modinfo, fr.qual, Env(fr.env), spec=fr.spec, cls=fr.cls)
    vals, fails, axioms = interp.eval_exprs_on_element(cx, sub, g.target, src.kt.wrap(kk), [e.elt], kk)
    if fails or axioms or not isinstance(vals[0], SRefV):
        raise ContractStale("the set of available schemas is no longer {stored object's schema for each attached name}")
    x = z3.Const(fresh_name("ax"), SRefS)
    res = SSet.fresh(TSRef(), "available")
    cx.assume(z3.ForAll([x], res.has(x) == z3.Exists([kk], z3.And(src.has(kk), vals[0].t == x))))
    return res


class NodeQuery(FnSpec):
    file = "container/interface.py"
    qual = "MetadorMeta.query"
    props = ("C07",)

    def init(self):
        self.bindings["plugin_args"] = lambda cx, s, v: STuple((cx.ghost["nq"].name, cx.ghost["nq"].ver))
        self.bindings["set"] = lambda cx, *a: EmptySet() if not a else (_ for _ in ()).throw(Unsupported("set(x)"))
        self.comps[0] = stored_schemas_schema

        def inv_all(cx, env, it):
            a = cx.ghost["nq"]
            x = z3.Const(fresh_name("qx"), SRefS)
            return [("yielded-so-far-are-the-schemas-of-the-objects-so-far", z3.ForAll([x], a.yielded.has(x) == z3.Select(it.processed, x)))]

        def inv_compat(cx, env, it):
            a = cx.ghost["nq"]
            x = z3.Const(fresh_name("qy"), SRefS)
            return [("yielded-so-far", z3.ForAll([x], a.yielded.has(x) == z3.Or(z3.And(a.own_done, x == OWN_REF), z3.Select(it.processed, x))))]

        self.loops[("iter", "self.values()")] = LoopSpec(inv_all, modifies=["obj"], havoc_inplace=["self.yielded_log"])
        self.loops[("iter", "avail.intersection(compat)")] = LoopSpec(inv_compat, modifies=["s_ref"], havoc_inplace=["self.yielded_log"])

    def on_yield(self, cx, v):
        a = cx.ghost["nq"]
        if not isinstance(v, SRefV):
            cx.oblige("yields-schema-references", "call-pre", z3.BoolVal(False), clause="only schema references are yielded")
            return
        a.yielded.py_call_method(cx, "add", [v], {})

    def setup(self, cx):
        me = SObj("MetadorMetaRead", name="self")
        names = SSet.fresh(STR, "attached_schema_names")
        stored_refs = SSet.fresh(TSRef(), "schemas_of_all_attached_objects")
        yl = SSet(TSRef())
        me.fields["yielded_log"] = yl

        class Vals(SVal):
            def py_iter_schema(s, cx2):
                return SetIter(TSRef(), stored_refs.dom, lambda t: StoredO(t))

        me.fields["values"] = lambda cx2: Vals()
        me.fields["keys"] = lambda cx2: names
        a = A(self=me, schema="schema-arg", version="version-arg")
        a.name = NameTok()
        a.ver = "version-token"

        def get_raw(cx2, n, *ver):
            if isinstance(n, NameTok):  # the requested schema, with the requested version
                if len(ver) != 1 or ver[0] != "version-token":
                    raise Unsupported("_get_raw for the request without its version")
                return SMaybe(z3.Not(OWN_HIT), StoredO(OWN_REF))
            if isinstance(n, SStr) and not ver:  # an attached name, any version
                return StoredO(STORED_REF(n.t))
            raise Unsupported("_get_raw of something else")

        me.fields["_get_raw"] = get_raw

        class Schemas(SVal):
            def meth_versions(s, cx2, n, v):
                if not isinstance(n, NameTok) or v != "version-token":
                    raise Unsupported("versions of another request")
                x = z3.Const(fresh_name("vx"), SRefS)
                return SSet(TSRef(), z3.Lambda([x], IS_VERSION(x)))

            def meth_children(s, cx2, ref):
                x = z3.Const(fresh_name("cx"), SRefS)
                return SSet(TSRef(), z3.Lambda([x], IS_CHILD(ref.t, x)))

        toc = SObj("TocStub", name="toc")
        toc.fields["schemas"] = Schemas()
        mc = SObj("ContainerStub", name="mc")
        mc.fields["metador"] = toc
        me.fields["_mc"] = mc
        a.names, a.stored_refs, a.yielded = names, stored_refs, yl
        a.own_done = z3.BoolVal(False)
        cx.ghost["nq"] = a
        # the objects of the node: their schemas are the schemas stored under the attached names
        x, k = z3.Const("sx", SRefS), z3.String("sk")
        cx.assume(z3.ForAll([x], stored_refs.has(x) == z3.Exists([k], z3.And(names.has(k), STORED_REF(k) == x))))
        return a

    def raises(self, cx, a):
        return {}

    def ensures(self, cx, a, res):
        x, r, k = z3.Const("ex", SRefS), z3.Const("er", SRefS), z3.String("ek")
        first = [y for y in getattr(cx, "yielded", []) if y[0] == "one"]
        own_first = len(first) <= 1 and all(isinstance(y[1], SRefV) for y in first)
        own_t = first[0][1].t if first else None
        compat = z3.Exists([r], z3.And(IS_VERSION(r), IS_CHILD(r, x)))
        avail = z3.Exists([k], z3.And(a.names.has(k), STORED_REF(k) == x))
        in_loop = a.yielded.has(x)
        return [
            ("without-a-name-every-attached-schema", z3.Implies(NAME_EMPTY, z3.And(z3.BoolVal(not first), z3.ForAll([x], in_loop == a.stored_refs.has(x)))), "an empty request lists the schema of every object attached to the node"),
            ("own-schema-first-iff-a-compatible-object-is-attached", z3.Implies(z3.Not(NAME_EMPTY), z3.And(z3.BoolVal(own_first), z3.BoolVal(bool(first)) == OWN_HIT, z3.BoolVal(True) if own_t is None else own_t == OWN_REF)), "the requested schema itself comes first, exactly when an object of it in a compatible version is attached"),
            ("then-exactly-the-attached-schemas-that-are-children-of-a-compatible-release", z3.Implies(z3.Not(NAME_EMPTY), z3.ForAll([x], in_loop == z3.And(avail, compat))), "after that: exactly the schemas of attached objects that the container lists as children (descendants) of some release of the requested schema that the request supports — so an object answers to every ancestor schema, and nothing else is listed"),
        ]


class NameTok(SVal):
    def py_truth(self, cx):
        return z3.Not(NAME_EMPTY)
