"""MetadorMeta read side: values/items/keys (C15: a skel_only node hands out no contents), __getitem__/__contains__ (C07), _destroy (C06/C07)."""
from __future__ import annotations

import z3

from pyvc.api import A, FnSpec, LoopSpec
from pyvc.containers import STR, SObj, SSet
from pyvc.values import SBool, SMaybe, SStr, STuple, SVal, Unsupported, fresh_name

B, S = z3.BoolSort(), z3.StringSort()
SKEL = z3.Bool("node_is_skel_only")

T_READ = [
    "dict.keys()/values()/items() are views of the per-node object table; MetadorNode._guard_acl(flag) raises UnsupportedOperationError exactly when the node has that flag (its own contract, C15)",
]


class View(SVal):
    def __init__(self, kind):
        self.kind = kind


class ObjTable(SVal):
    """self._objs as far as the read side cares: which view was handed out"""

    def meth_keys(self, cx):
        cx.effect("view", "keys")
        return View("keys")

    def meth_values(self, cx):
        cx.effect("view", "values")
        return View("values")

    def meth_items(self, cx):
        cx.effect("view", "items")
        return View("items")


class NodeStub(SVal):
    def meth__guard_acl(self, cx, flag, *a):
        nm = getattr(flag, "name", flag)
        if nm == "skel_only" and cx.decide(SKEL):
            cx.py_raise("UnsupportedOperationError", "skel_only")
        cx.effect("guard", nm)


class AclNS(SVal):
    def py_getattr(self, cx, name):
        return type("Flag", (), {"name": name})()


def _me():
    me = SObj("MetadorMetaRead", name="self")
    me.fields["_objs"] = ObjTable()
    me.fields["_node"] = NodeStub()
    return me


class ViewSpec(FnSpec):
    file = "container/interface.py"
    props = ("C15",)

    def __init__(self, which, guarded):
        self.which, self.guarded = which, guarded
        self.qual = f"MetadorMeta.{which}"
        FnSpec.__init__(self)

    def init(self):
        self.bindings["NodeAcl"] = AclNS()

    def setup(self, cx):
        return A(self=_me())

    def raises(self, cx, a):
        return {"UnsupportedOperationError": SKEL} if self.guarded else {}

    def on_raise(self, cx, a, exc):
        return [("nothing-handed-out-when-refused", z3.BoolVal(not [e for e in cx.fx if e[0] == "view"]), "a skel_only node hands out no view of its metadata objects")]

    def ensures(self, cx, a, res):
        ok = isinstance(res, View) and res.kind == self.which
        out = [("the-view-of-the-object-table", z3.BoolVal(ok), f"{self.which}() is the {self.which} view of the node's object table")]
        if self.guarded:
            fx = [e for e in cx.fx if e[0] in ("guard", "view")]
            out.append(("guard-before-view", z3.BoolVal(bool(fx) and tuple(fx[0][:2]) == ("guard", "skel_only")), "the skel_only check comes before anything is handed out (stored objects give access to the stored bytes)"))
        return out


# ---- __getitem__ / __contains__ -------------------------------------------------------------------------------------------------
GET_HIT = z3.Bool("get_finds_a_compatible_object")
QUERY_HIT = z3.Bool("query_yields_something")
ARG_EMPTY = z3.Bool("schema_argument_is_the_empty_query")


class Parsed(SVal):
    def py_truth(self, cx):
        return True  # pydantic models are truthy (T5)


class SchemaArg(SVal):
    """the schema argument of __contains__: '' | ('', v) | anything else"""

    def __init__(self, shape):
        self.shape = shape
        self.name = SStr.fresh("schema_name_in_tuple")

    def py_eq(self, cx, o):
        if o == "":
            return self.shape == "empty-str"
        raise Unsupported("comparison of the schema argument")

    def py_isinstance(self, cx, c):
        n = getattr(c, "name", c)
        if n == "tuple":
            return self.shape in ("empty-tuple", "tuple")
        raise Unsupported(f"isinstance(schema, {n})")

    def py_getitem(self, cx, i):
        if i == 0 and self.shape in ("empty-tuple", "tuple"):
            return "" if self.shape == "empty-tuple" else self.name
        raise Unsupported("schema[...]")


class GetItem(FnSpec):
    file = "container/interface.py"
    qual = "MetadorMeta.__getitem__"
    props = ("C07",)

    def setup(self, cx):
        me = SObj("MetadorMetaRead", name="self")
        a = A(self=me, schema=SchemaArg("other"))
        a.obj = Parsed()

        def get(cx2, s, *r):
            cx2.effect("get", s)
            return SMaybe(z3.Not(GET_HIT), a.obj)

        me.fields["get"] = get
        return a

    def raises(self, cx, a):
        return {"KeyError": z3.Not(GET_HIT)}

    def ensures(self, cx, a, res):
        r = res.val if isinstance(res, SMaybe) else res
        gets = [e for e in cx.fx if e[0] == "get"]
        return [("what-get-returns-for-the-same-argument", z3.BoolVal(r is a.obj and len(gets) == 1 and gets[0][1] is a.schema), "[] is get() for the same argument, with KeyError instead of None")]


class Contains(FnSpec):
    file = "container/interface.py"
    qual = "MetadorMeta.__contains__"
    props = ("C07",)

    def init(self):
        self.bindings["next"] = lambda cx, it, default=None: it.first(cx, default)

    def setup(self, cx):
        shape = ["empty-str", "empty-tuple", "tuple", "other"][cx.choose(4)]
        me = SObj("MetadorMetaRead", name="self")
        a = A(self=me, schema=SchemaArg(shape))
        a.shape = shape

        class It(SVal):
            def first(self2, cx2, default=None):
                if default is not None:
                    raise Unsupported("next with another default")
                return SMaybe(z3.Not(QUERY_HIT), Parsed())

        def query(cx2, s, *r):
            cx2.effect("query", s, r)
            return It()

        me.fields["query"] = query
        cx.assume(a.schema.name.t != z3.StringVal(""))  # shape "tuple": a tuple whose name is not empty
        return a

    def raises(self, cx, a):
        return {}

    def ensures(self, cx, a, res):
        from .c16 import is_bool_eq

        qs = [e for e in cx.fx if e[0] == "query"]
        if a.shape in ("empty-str", "empty-tuple"):
            return [("the-empty-query-is-contained-nowhere", z3.BoolVal(res is False and not qs), "'' (which lists everything when queried) is never 'contained'")]
        return [
            ("contained-iff-the-node-level-query-yields-something", z3.And(z3.BoolVal(len(qs) == 1 and qs[0][1] is a.schema and tuple(qs[0][2]) == ()), is_bool_eq(res, QUERY_HIT)), "`schema in node.meta` holds exactly when the node-level query for that very argument yields a schema (own or compatible descendant)"),
        ]


# ---- _destroy ----------------------------------------------------------------------------------------------------------------------
class Destroy(FnSpec):
    file = "container/interface.py"
    qual = "MetadorMeta._destroy"
    props = ("C06", "C07")

    def init(self):
        def inv(cx, env, it):
            a = cx.ghost["md"]
            k = z3.String(fresh_name("dk"))
            return [("deleted-so-far-with-the-callers-flag", z3.ForAll([k], z3.And(a.deleted.has(k) == z3.Select(it.processed, k), z3.Not(a.wrong.has(k)))))]

        self.loops[0] = LoopSpec(inv, modifies=["schema_name"], havoc_inplace=["self.deleted_log", "self.wrong_log"])
        self.bindings["list"] = lambda cx, x: x

    def setup(self, cx):
        me = SObj("MetadorMetaRead", name="self")
        keys = SSet.fresh(STR, "attached_schema_names")
        deleted, wrong = SSet(STR), SSet(STR)
        unlink = SBool(z3.Bool("unlink_flag"))
        me.fields["keys"] = lambda cx2: keys
        me.fields["deleted_log"], me.fields["wrong_log"] = deleted, wrong

        def del_raw(cx2, name, _unlink=True):
            deleted.py_call_method(cx2, "add", [name], {})
            same = (_unlink.t if isinstance(_unlink, SBool) else z3.BoolVal(bool(_unlink))) == unlink.t
            if not cx2.decide(same):
                wrong.py_call_method(cx2, "add", [name], {})

        me.fields["_del_raw"] = del_raw
        a = A(self=me, __kwargs__={}, _unlink=unlink)
        a.kset, a.deleted, a.wrong = keys, deleted, wrong
        cx.ghost["md"] = a
        return a

    def raises(self, cx, a):
        return {}

    def ensures(self, cx, a, res):
        k = z3.String(fresh_name("ek"))
        return [("every-attached-object-deleted-with-the-callers-flag", z3.ForAll([k], z3.And(a.deleted.has(k) == a.kset.has(k), z3.Not(a.wrong.has(k)))), "every metadata object of the node is deleted, each with the unlink flag the caller gave (a meta-less copy must not unregister the originals' links), nothing else")]


def add_metaread(reg):
    reg.set_class_home("MetadorMetaRead", "container/interface.py", "MetadorMeta")
    specs = [ViewSpec("values", True), ViewSpec("items", True), ViewSpec("keys", False), GetItem(), Contains(), Destroy()]
    for s in specs:
        reg.add(s)
    return specs
