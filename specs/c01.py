"""C01 — IH5 overlay is transparent (P-tier: child-resolution kernel; whole-history refinement is bounded)."""
from . import findfiles, h5copy, overlay, ovlgroup, ovlguards, ovlread


def build(reg):
    specs = overlay.add_overlay(reg) + overlay.add_overlay_strings(reg)
    from pyvc.api import SpecRegistry

    specs += overlay.add_writers(reg)
    specs += overlay.add_copy_move(reg)
    specs += ovlread.add_ovlread2(reg)
    specs += ovlgroup.add_ovlgroup(reg)
    specs += h5copy.add_h5copy(reg)  # the copy underneath IH5Group.copy / move
    specs += ovlread.add_ovlread(reg)  # from the kernel to node[key] / in / get
    specs += [x for x in ovlguards.add_ovlguards(reg) if 'C01' in x.props]  # dataset nodes: read from the resolved container, write only into the newest
    specs += findfiles.add_findfiles(reg)  # reopening by name sees every container of the chain
    from . import oneliners

    specs = specs + oneliners.add_oneliners(reg, props=("C01",))  # one- and two-line delegations, verified against what other contracts bind them to
    return {"verify": specs, "lemmas": [("visit-in-listing-order", ovlgroup.lemma_listing_order)], "trusted": oneliners.T_ONE + [overlay.T1_READ, overlay.T1_WRITE, overlay.T_NUMPY] + findfiles.T_FIND + ovlread.T_READ + ovlread.T_WALK + ovlguards.T_GUARDS + ovlgroup.T_VISIT + h5copy.T_COPY, "assumptions": ["iteration order of the result dict (alphabetical) is not modelled"]}
