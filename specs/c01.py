"""C01 — IH5 overlay is transparent (P-tier: child-resolution kernel; whole-history refinement is bounded)."""
from . import overlay


def build(reg):
    specs = overlay.add_overlay(reg) + overlay.add_overlay_strings(reg)
    return {"verify": specs, "lemmas": [], "trusted": [overlay.T1_READ], "assumptions": ["iteration order of the result dict (alphabetical) is not modelled"]}
