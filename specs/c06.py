"""C06 — container TOC and attached metadata stay in sync (P-tier: incremental schema index == rebuilt index)."""
from . import toc


def build(reg):
    specs = toc.add_toc(reg)
    return {"verify": specs, "lemmas": [], "trusted": [toc.T_PLUGIN], "assumptions": ["only the in-memory parents/children index of TOCSchemas is under contract; links, package records and the raw tree are checked bounded"]}
