"""C06 — container TOC and attached metadata stay in sync (P-tier: incremental schema index == rebuilt index)."""
from . import contops, epnames, interface, metapaths, metaread, overlay, toc, tocinit, tocreg, wrappers


def build(reg):
    specs = toc.add_toc(reg) + tocreg.add_tocreg(reg) + overlay.add_writers(reg) + [x for x in interface.add_interface_raw(reg) if "C06" in x.props] + wrappers.add_destroy(reg) + [x for x in metaread.add_metaread(reg) if 'C06' in x.props] + epnames.add_stored(reg) + metapaths.add_metapaths(reg) + contops.add_contops(reg) + tocinit.add_tocinit(reg)
    from . import oneliners

    specs = specs + oneliners.add_oneliners(reg, props=("C06",))  # one- and two-line delegations, verified against what other contracts bind them to
    return {"verify": specs, "lemmas": [], "trusted": oneliners.T_ONE + [toc.T_PLUGIN] + tocreg.T_TOCREG + tocreg.T_PLUGINSYS + [overlay.T1_WRITE] + contops.T_OPS + tocinit.T_TOCINIT, "assumptions": ["under contract: the in-memory schema index and the schema/package reference counting of TOCSchemas/TOCPackages paired with their raw writes and deletes; TOCLinks (register / unregister / update / __init__ / find_missing / find_broken / repair_missing), the container-level copy / move / delete and MetadorContainerTOC.__init__ are under contract against call-logging stubs; that the three indices rebuilt on reopen equal the ones before closing, and the raw tree itself, are checked bounded"]}
