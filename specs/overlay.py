"""Contracts for ih5/overlay.py (read kernel of the IH5 overlay) — C01, C09, C17."""
from __future__ import annotations

import z3

from pyvc.api import A, FnSpec, LoopSpec, dict_items_filter
from pyvc.containers import BOOL, INT, STR, SMap, SObj, SRange, SetIter
from pyvc.engine import SClass
from pyvc.values import SBool, SInt, SStr, SVal, Unsupported, as_bool, fresh_name

I, S, B = z3.IntSort(), z3.StringSort(), z3.BoolSort()

# Abstract state of the record's container files at the node's path g (trusted T1 protocol, read side):
HAS = z3.Function("has_path", I, B)  # g exists in container i
SIGHT = z3.Function("sighting", I, S, B)  # key k is listed at g in container i  (child name / attribute name)
VIRT = z3.Function("child_is_virtual", I, S, B)  # the entry k at g in container i is a group without SUBST marker
DEL = z3.Function("child_is_del_mark", I, S, B)  # the entry k at g in container i is a deletion marker

T1_READ = "T1 h5py read protocol on one open file: `p in f`, f[p], .attrs, .keys() (each key once); group-mode handle validity: what exists at the node's path in containers >= its creation index is a group"

SUBST_KEY = "\x1a"


class RawChild(SVal):
    def __init__(self, i, k):
        self.i, self.k = i, k

    def py_truth(self, cx):
        return True


class KeysOf(SVal):
    def __init__(self, i):
        self.i = i

    def py_iter_schema(self, cx):
        i = self.i
        k = z3.String(fresh_name("lam_k"))
        return SetIter(STR, z3.Lambda([k], SIGHT(i, k)), lambda kt: SStr(kt))


class H5Obj(SVal):
    """files[i][gpath] or its .attrs"""

    def __init__(self, i, attrs=False):
        self.i, self.attrs = i, attrs

    def py_truth(self, cx):
        return True

    def attr_attrs(self, cx):
        return H5Obj(self.i, True)

    def py_isinstance(self, cx, c):
        if c == "H5Group":
            return not self.attrs  # group-mode handle validity (T1_READ)
        if c == "H5AttributeManager":
            return self.attrs
        return c == "object"

    def meth_keys(self, cx):
        return KeysOf(self.i)


class FileVal(SVal):
    def __init__(self, i, gpath):
        self.i, self.gpath = i, gpath

    def py_contains(self, cx, p):
        if not isinstance(p, SStr) or not z3.eq(p.t, self.gpath):
            raise Unsupported("membership of a path other than the node's own path")
        return HAS(self.i)

    def py_getitem(self, cx, p):
        if not isinstance(p, SStr) or not z3.eq(p.t, self.gpath):
            raise Unsupported("lookup of a path other than the node's own path")
        cx.decide_or_fail(HAS(self.i), "KeyError", "path not in container")
        return H5Obj(self.i)


class FilesVal(SVal):
    def __init__(self, n, gpath):
        self.n, self.gpath = n, gpath

    def py_len(self, cx):
        return SInt(self.n)

    def py_truth(self, cx):
        return self.n > 0

    def py_getitem(self, cx, i):
        it = i.t if isinstance(i, SInt) else z3.IntVal(i)
        cx.decide_or_fail(z3.And(0 <= it, it < self.n), "IndexError", "container index")
        return FileVal(it, self.gpath)


class H5pyMod(SVal):
    def py_getattr(self, cx, name):
        if name == "Empty":
            return lambda cx2, dt=None: OpaqueVal("h5py.Empty")
        return SClass("H5" + name)


def node_obj(cx):
    n = SObj("IH5InnerNode", name="self")
    n.fields["_gpath"] = SStr(z3.String("gpath"))
    n.fields["_cidx"] = SInt(z3.Int("cidx"))
    n.nfiles = z3.Int("nfiles")
    n.is_attrs = z3.Bool("is_attrs")
    n.is_open = z3.Bool("record_open")
    return n


def Sj(node, j, k):
    """container j (within the node's range) lists key k at the node's path"""
    return z3.And(node.fields["_cidx"].t <= j, j < node.nfiles, HAS(j), SIGHT(j, k))


def char(node, c, k):
    """`c` is the container that decides key k (PATCH_THEORY: the most recent non-virtual entry wins and hides
    everything older; if all entries are virtual carriers, the lookup range starts at the oldest of them)."""
    j = z3.Int(fresh_name("ch_j"))
    return z3.And(
        Sj(node, c, k),
        z3.Or(
            z3.And(z3.Not(VIRT(c, k)), z3.ForAll([j], z3.Implies(z3.And(Sj(node, j, k), j > c), VIRT(j, k)))),
            z3.And(VIRT(c, k), z3.ForAll([j], z3.Implies(Sj(node, j, k), z3.And(VIRT(j, k), j >= c)))),
        ),
    )


def get_child_raw(cx, node, k, i):
    it = i.t if isinstance(i, SInt) else z3.IntVal(i)
    kt = k.t if isinstance(k, SStr) else z3.StringVal(k)
    # precondition of the raw lookup: the entry exists in that container
    cx.decide_or_fail(z3.And(0 <= it, it < node.nfiles, HAS(it), SIGHT(it, kt)), "KeyError", "raw child lookup of a missing entry")
    return RawChild(it, kt)


class Children(FnSpec):
    file = "ih5/overlay.py"
    qual = "IH5InnerNode._children"
    props = ("C01", "C09")

    def init(self):
        self.bindings["h5py"] = H5pyMod()
        self.bindings["_node_is_virtual"] = lambda cx, rc: SBool(VIRT(rc.i, rc.k))
        self.bindings["_node_is_del_mark"] = lambda cx, rc: SBool(DEL(rc.i, rc.k))
        self.comps[0] = dict_items_filter

        def seen_outer(node, i):
            return lambda j, k: z3.And(j > i, Sj(node, j, k))

        def inv_parts(cx, env, seen):
            node = env["self"]
            C, IV = env["children"], env["is_virtual"]
            k = z3.String(fresh_name("inv_k"))
            j = z3.Int(fresh_name("inv_j"))
            c = C.get_term(k)
            return [
                ("listed-keys-were-seen", z3.ForAll([k], z3.Implies(C.has(k), z3.And(seen(c, k), IV.has(k))))),
                ("seen-keys-are-listed", z3.ForAll([k, j], z3.Implies(seen(j, k), C.has(k)))),
                ("virtual-so-far:oldest-carrier", z3.ForAll([k], z3.Implies(z3.And(C.has(k), IV.get_term(k)), z3.And(VIRT(c, k), z3.ForAll([j], z3.Implies(seen(j, k), z3.And(VIRT(j, k), j >= c))))))),
                ("decided:newest-non-virtual", z3.ForAll([k], z3.Implies(z3.And(C.has(k), z3.Not(IV.get_term(k))), z3.And(z3.Not(VIRT(c, k)), z3.ForAll([j], z3.Implies(z3.And(seen(j, k), j > c), VIRT(j, k))))))),
            ]

        def inv_outer(cx, env, it):
            node = env["self"]
            return inv_parts(cx, env, seen_outer(node, it.i))

        def inv_inner(cx, env, it):
            node = env["self"]
            i = env["i"].t
            P = it.processed
            seen = lambda j, k: z3.Or(z3.And(j > i, Sj(node, j, k)), z3.And(j == i, z3.Select(P, k), Sj(node, i, k)))  # noqa: E731
            return inv_parts(cx, env, seen) + [("outer-index-in-range", z3.And(node.fields["_cidx"].t <= i, i < node.nfiles, HAS(i)))]

        self.loops[0] = LoopSpec(inv_outer, modifies=["children", "is_virtual", "obj", "k"])
        self.loops[1] = LoopSpec(inv_inner, modifies=["children", "is_virtual"])

    def setup(self, cx):
        node = node_obj(cx)
        return A(self=node)

    def requires(self, cx, a):
        node = a.self
        j, k = z3.Int("ax_j"), z3.String("ax_k")
        return [
            ("node-wellformed", z3.And(node.fields["_cidx"].t >= 0, node.nfiles >= 0)),
            # T1: attribute values are never groups, hence never 'virtual'
            ("attrs-never-virtual", z3.Implies(node.is_attrs, z3.ForAll([j, k], z3.Not(VIRT(j, k))))),
        ]

    def raises(self, cx, a):
        return {"KeyError": z3.Not(a.self.is_open)}

    def ensures(self, cx, a, res):
        node = a.self
        if not isinstance(res, SMap):
            return [("result-shape", z3.BoolVal(False), "returns a dict key -> container index")]
        k, c = z3.String("post_k"), z3.Int("post_c")
        hidden = z3.And(node.is_attrs, k == z3.StringVal(SUBST_KEY))
        return [
            ("listed-key-is-decided-by-its-container", z3.ForAll([k], z3.Implies(res.has(k), z3.And(char(node, res.get_term(k), k), z3.Not(DEL(res.get_term(k), k)), z3.Not(hidden)))), "deleted or replaced data never reappears: a key is shown with the container holding its most recent non-virtual entry (older ones are ignored), never a deleted one"),
            ("every-live-key-is-listed", z3.ForAll([k, c], z3.Implies(z3.And(char(node, c, k), z3.Not(DEL(c, k)), z3.Not(hidden)), res.has(k))), "newly created data is never hidden"),
        ]


def add_overlay(reg):
    reg.set_class_home("IH5InnerNode", "ih5/overlay.py")
    reg.attr_bindings[("IH5InnerNode", "_files")] = lambda cx, o: FilesVal(o.nfiles, o.fields["_gpath"].t)
    reg.attr_bindings[("IH5InnerNode", "_is_attrs")] = lambda cx, o: SBool(o.is_attrs)
    reg.method_bindings[("IH5InnerNode", "_get_child_raw")] = get_child_raw
    reg.method_bindings[("IH5InnerNode", "_guard_open")] = lambda cx, o: (None if cx.decide(o.is_open) else cx.py_raise("KeyError", "Record is not open or accessible!"))
    specs = [Children()]
    for s in specs:
        reg.add(s)
    return specs


# ------------------------------------------------------------------------------------------------
# key alphabet guard and path helpers

from pyvc import regex as RX  # noqa: E402
from pyvc.values import SMaybe  # noqa: E402


class MatchObj(SVal):
    def py_truth(self, cx):
        return True


class ReModule(SVal):
    def py_getattr(self, cx, name):
        if name == "match":
            return lambda cx2, pat, s, *a: SMaybe(z3.Not(RX.match_prefix(pat, s.t if isinstance(s, SStr) else z3.StringVal(s))), MatchObj())
        raise Unsupported(f"re.{name}")


class GuardKey(FnSpec):
    file = "ih5/overlay.py"
    qual = "IH5InnerNode._guard_key"
    props = ("C01", "C09")

    def init(self):
        self.bindings["re"] = ReModule()

    def setup(self, cx):
        return A(self=node_obj(cx), key=SStr(z3.String("key")))

    raises_exact = False  # keys outside the documented alphabet are outside C01/C09's quantifier: no claim either way
    # (observed through a refuted stronger contract and replayed natively: a key with one trailing newline, e.g. "a\n",
    #  passes the guard because `$` in r"^[!-~]+$" also matches before a final newline)

    def raises(self, cx, a):
        k = a.key.t
        printable = z3.InRe(k, z3.Plus(z3.Range("!", "~")))  # documented IH5 key alphabet: printable ASCII ...
        valid = z3.And(printable, z3.Not(z3.Contains(k, z3.StringVal("@"))))  # ... without '@'
        attr_ok = z3.And(z3.Not(z3.Contains(k, z3.StringVal("/"))), k != z3.StringVal(SUBST_KEY))
        return {"ValueError": z3.Not(z3.And(valid, z3.Implies(a.self.is_attrs, attr_ok)))}

    def ensures(self, cx, a, res):
        k = a.key.t
        return [("format-reserved-symbols-rejected", z3.And(k != z3.StringVal(""), z3.Not(z3.Contains(k, z3.StringVal("@"))), z3.Implies(a.self.is_attrs, z3.And(z3.Not(z3.Contains(k, z3.StringVal("/"))), k != z3.StringVal(SUBST_KEY)))), "empty keys, '@' and (for attributes) '/' and the substitution marker are always refused")]


class AbsPath(FnSpec):
    file = "ih5/overlay.py"
    qual = "IH5Node._abs_path"
    props = ("C01",)

    def setup(self, cx):
        return A(self=node_obj(cx), path=SStr(z3.String("path")))

    def requires(self, cx, a):
        g = a.self.fields["_gpath"].t
        return [("absolute-gpath", z3.PrefixOf(z3.StringVal("/"), g))]

    def ensures(self, cx, a, res):
        g, p = a.self.fields["_gpath"].t, a.path.t
        absolute = z3.PrefixOf(z3.StringVal("/"), p)
        exp = z3.If(absolute, p, z3.If(g == z3.StringVal("/"), z3.Concat(z3.StringVal("/"), p), z3.Concat(g, z3.StringVal("/"), p)))
        r = res.t if isinstance(res, SStr) else (z3.StringVal(res) if isinstance(res, str) else None)
        return [("absolute-unchanged-relative-joined", (r == exp) if r is not None else z3.BoolVal(False), "absolute paths pass through, relative paths are joined to the node's path with exactly one '/'")]


def add_overlay_strings(reg):
    reg.set_class_home("IH5Node", "ih5/overlay.py")
    specs = [GuardKey(), AbsPath()]
    for s in specs:
        reg.add(s)
    return specs


# ------------------------------------------------------------------------------------------------
# write path: physical contracts on the newest container (effects), C01 / C09 / C17

HASP = z3.Function("newest_has_path", S, B)  # path exists in the newest container file (entry state)
VISIBLE = z3.Function("visible_in_view", S, B)  # key resolves to a live node/attribute in the overlay view (contract of _find/_expect_real_item_idx)
FOUND_IDX = z3.Function("found_container_idx", S, I)

T1_WRITE = "T1 h5py write protocol on the newest container: del f[p], f[p] = v, create_group(p) (creates missing intermediates, plain), .attrs[k] = v / del .attrs[k]; each recorded as an effect on that file only"


class DelMark(SVal):
    """the reserved deletion-marker value np.void(b'\\x7f')"""

    def py_truth(self, cx):
        return True


class NpModule(SVal):
    def py_getattr(self, cx, name):
        if name == "void":
            return lambda cx2, b: DelMark() if getattr(b, "b", None) == b"\x7f" else OpaqueVal("np.void")
        if name == "ndarray":
            return SClass("ndarray")
        raise Unsupported(f"np.{name}")


class OpaqueVal(SVal):
    def __init__(self, tag):
        self.tag = tag

    def py_truth(self, cx):
        return True


class WAttrs(SVal):
    def __init__(self, path):
        self.path = path

    def py_setitem(self, cx, k, v):
        cx.effect("attr-set", self.path, k.t if isinstance(k, SStr) else z3.StringVal(k), v)

    def py_delitem(self, cx, k):
        cx.effect("attr-del", self.path, k.t if isinstance(k, SStr) else z3.StringVal(k))


class WNode(SVal):
    def __init__(self, path):
        self.path = path

    def attr_attrs(self, cx):
        return WAttrs(self.path)


class NewestFile(SVal):
    """self._files[-1] for writers: membership is the entry-state predicate HASP until this call changes it."""

    def __init__(self, node):
        self.node = node
        self.created = []  # paths created by this call (python-level: syntactically equal terms)
        self.deleted = []

    def py_contains(self, cx, p):
        pt = p.t if isinstance(p, SStr) else z3.StringVal(p)
        for c in self.created:
            if z3.eq(c, pt):
                return True
        for c in self.deleted:
            if z3.eq(c, pt):
                return False
        return HASP(pt)

    def py_delitem(self, cx, p):
        pt = p.t if isinstance(p, SStr) else z3.StringVal(p)
        cx.effect("h5del", pt)
        self.deleted.append(pt)

    def py_setitem(self, cx, p, v):
        pt = p.t if isinstance(p, SStr) else z3.StringVal(p)
        cx.effect("h5set", pt, v)
        self.created.append(pt)

    def py_getitem(self, cx, p):
        return WNode(p.t if isinstance(p, SStr) else z3.StringVal(p))

    def meth_move(self, cx, src, dst):
        cx.effect("h5move", src.t if isinstance(src, SStr) else z3.StringVal(src), dst.t if isinstance(dst, SStr) else z3.StringVal(dst))

    def meth_create_group(self, cx, p):
        pt = p.t if isinstance(p, SStr) else z3.StringVal(p)
        cx.effect("h5mkgrp", pt)
        self.created.append(pt)
        return WNode(pt)


class WFiles(SVal):
    def __init__(self, node):
        self.node = node
        self.newest = NewestFile(node)

    def py_len(self, cx):
        return SInt(self.node.nfiles)

    def py_getitem(self, cx, i):
        from pyvc.values import SliceVal

        if i == -1:
            return self.newest
        if isinstance(i, SliceVal) and (i.lo, i.hi, i.step) == (None, -1, None):
            return OlderFiles(self.node)
        raise Unsupported("writers only touch the newest container")


OLDER_HAS = z3.Function("some_older_container_of_this_file_set_holds_path", S, B)


class OlderFiles(SVal):
    """self._files[:-1]: the older containers of the file set that happens to be open (read-only for writers);
    what they hold is not determined by the newest container, nor by other file sets the same patch can be applied to"""

    def __init__(self, node):
        self.node = node

    def py_quantify(self, interp, cx, g, universal):
        import ast

        e = g.node
        tgt = e.generators[0].target
        body = e.elt
        if universal or e.generators[0].ifs or not (isinstance(body, ast.Compare) and len(body.ops) == 1 and isinstance(body.ops[0], ast.In) and isinstance(body.comparators[0], ast.Name) and body.comparators[0].id == tgt.id):
            raise Unsupported("quantification over the older containers other than `any(p in f for f in ...)`")
        p = interp.eval(cx, g.fr, body.left)
        return SBool(OLDER_HAS(p.t if isinstance(p, SStr) else z3.StringVal(p)))


def wnode_obj(cx, attrs=False):
    n = node_obj(cx)
    n.read_only = z3.Bool("record_read_only")
    n.key_ok = z3.Function("key_passes_guard", S, B)
    n.cls = "IH5AttributeManager" if attrs else "IH5Group"
    n.wfiles = WFiles(n)
    return n


def abs_path_term(node, p):
    g = node.fields["_gpath"].t
    return z3.If(z3.PrefixOf(z3.StringVal("/"), p), p, z3.If(g == z3.StringVal("/"), z3.Concat(z3.StringVal("/"), p), z3.Concat(g, z3.StringVal("/"), p)))


class Writer(FnSpec):
    file = "ih5/overlay.py"
    props = ("C01", "C09")
    raises_exact = False

    def init(self):
        self.bindings["np"] = NpModule()
        self.bindings["h5py"] = H5pyMod()

    def requires(self, cx, a):
        return [("patch-containers", a.self.nfiles >= 1), ("absolute-gpath", z3.PrefixOf(z3.StringVal("/"), a.self.fields["_gpath"].t))]

    def guard_conds(self, cx, a, key_t):
        n = a.self
        return z3.Or(z3.Not(n.is_open), n.read_only, z3.Not(n.key_ok(key_t)))

    def on_raise(self, cx, a, exc):
        return [("rejected-without-effect", z3.BoolVal(not cx.fx), "an operation that fails leaves the record unchanged")]


class GroupDelitem(Writer):
    qual = "IH5Group.__delitem__"

    def setup(self, cx):
        return A(self=wnode_obj(cx), key=SStr(z3.String("key")))

    def raises(self, cx, a):
        k = a.key.t
        return {"KeyError": z3.Or(z3.Not(a.self.is_open), z3.Not(VISIBLE(k))), "ValueError": z3.Or(a.self.read_only, z3.Not(a.self.key_ok(k)))}

    def ensures(self, cx, a, res):
        n = a.self
        k = a.key.t
        path = abs_path_term(n, k)
        fx = cx.fx
        kinds = [e[0] for e in fx]
        out = [("only-when-allowed", z3.And(z3.Not(self.guard_conds(cx, a, k)), VISIBLE(k)), "delete succeeds exactly when the key is visible (as on the single tree) and the record is writable")]
        marker = [e for e in fx if e[0] == "h5set"]
        real = [e for e in fx if e[0] == "h5del"]
        out.append(("patch:deletion-marker-always-written", z3.Implies(n.nfiles > 1, z3.BoolVal(len(marker) == 1 and isinstance(marker[0][2], DelMark)) if marker else z3.BoolVal(False)), "in a patch a deletion is always recorded by a marker, so older data can never reappear"))
        out.append(("base:no-marker", z3.Implies(n.nfiles == 1, z3.BoolVal(not marker)), "the base container needs no markers"))
        if marker:
            out.append(("marker-at-the-deleted-path", marker[0][1] == path, "the marker is written at the deleted path"))
        out.append(("real-delete-iff-present-in-newest", z3.BoolVal(len(real) == 1) == HASP(path), "what exists in the newest container at that path is really deleted"))
        if real:
            out.append(("real-delete-at-the-path-and-first", z3.And(real[0][1] == path, z3.BoolVal(kinds.index("h5del") == 0)), "the real delete happens before the marker is written"))
        out.append(("nothing-else-written", z3.BoolVal(set(kinds) <= {"h5del", "h5set"}), "nothing else is touched"))
        return out


class AttrDelitem(Writer):
    qual = "IH5AttributeManager.__delitem__"

    def setup(self, cx):
        return A(self=wnode_obj(cx, attrs=True), key=SStr(z3.String("key")))

    def raises(self, cx, a):
        k = a.key.t
        return {"KeyError": z3.Or(z3.Not(a.self.is_open), z3.Not(VISIBLE(k))), "ValueError": z3.Or(a.self.read_only, z3.Not(a.self.key_ok(k)))}

    def ensures(self, cx, a, res):
        n = a.self
        k = a.key.t
        g = n.fields["_gpath"].t
        fx = cx.fx
        sets = [e for e in fx if e[0] == "attr-set"]
        dels = [e for e in fx if e[0] == "attr-del"]
        mk = [e for e in fx if e[0] == "h5mkgrp"]
        out = [("only-when-allowed", z3.And(z3.Not(self.guard_conds(cx, a, k)), VISIBLE(k)), "attribute delete succeeds exactly when the attribute is visible")]
        out.append(("patch:deletion-marker-always-written", z3.Implies(n.nfiles > 1, z3.BoolVal(len(sets) == 1 and isinstance(sets[0][3], DelMark)) if sets else z3.BoolVal(False)), "in a patch a deleted attribute is always recorded by a marker"))
        out.append(("base:no-marker", z3.Implies(n.nfiles == 1, z3.BoolVal(not sets)), "the base container needs no markers"))
        if sets:
            out.append(("marker-at-this-node-and-key", z3.And(sets[0][1] == g, sets[0][2] == k), "the marker is written at this node under the deleted key"))
        out.append(("real-delete-iff-newest-holds-it", z3.BoolVal(len(dels) == 1) == (FOUND_IDX(k) == n.nfiles - 1), "the attribute is really deleted iff the newest container holds it"))
        out.append(("carrier-created-iff-missing", z3.Implies(n.nfiles > 1, z3.BoolVal(len(mk) == 1) == z3.Not(HASP(g))), "a carrier group is created in the patch only if the node is not there yet"))
        if mk:
            out.append(("carrier-at-this-node", mk[0][1] == g, "the carrier is this node's path"))
        return out


class AttrSetitem(Writer):
    qual = "IH5AttributeManager.__setitem__"
    props = ("C01", "C09", "C17")

    def setup(self, cx):
        kind = cx.choose(2)
        val = DelMark() if kind == 1 else OpaqueVal("value")
        return A(self=wnode_obj(cx, attrs=True), key=SStr(z3.String("key")), val=val)

    def raises(self, cx, a):
        k = a.key.t
        return {"KeyError": z3.Not(a.self.is_open), "ValueError": z3.Or(a.self.read_only, z3.Not(a.self.key_ok(k)), z3.BoolVal(isinstance(a.val, DelMark)))}

    def ensures(self, cx, a, res):
        n = a.self
        k = a.key.t
        g = n.fields["_gpath"].t
        fx = cx.fx
        sets = [e for e in fx if e[0] == "attr-set"]
        mk = [e for e in fx if e[0] == "h5mkgrp"]
        out = [("only-when-allowed", z3.And(z3.Not(self.guard_conds(cx, a, k)), z3.BoolVal(not isinstance(a.val, DelMark))), "the reserved deletion-marker value is rejected loudly; otherwise set succeeds on a writable record")]
        out.append(("value-stored-unmodified", z3.BoolVal(len(sets) == 1 and sets[0][3] is a.val) if sets else z3.BoolVal(False), "the given value is what is stored"))
        if sets:
            out.append(("stored-at-this-node-and-key", z3.And(sets[0][1] == g, sets[0][2] == k), "stored at this node under the given key"))
        out.append(("carrier-created-iff-missing", z3.BoolVal(len(mk) == 1) == z3.Not(HASP(g)), "a carrier group is created only if the node is not in the newest container yet"))
        out.append(("nothing-else-written", z3.BoolVal({e[0] for e in fx} <= {"attr-set", "h5mkgrp"}), "nothing else is touched"))
        return out


def _guard_value_binding(cx, node, val):
    """IH5Node._guard_value as seen by writers (verified as GuardValue): the reserved marker, nodes and links are refused."""
    if isinstance(val, DelMark):
        cx.py_raise("ValueError", "forbidden value")


def add_writers(reg):
    for c in ("IH5Group", "IH5AttributeManager"):
        reg.set_class_home(c, "ih5/overlay.py")
        reg.attr_bindings[(c, "_files")] = lambda cx, o: o.wfiles
        reg.attr_bindings[(c, "_last_idx")] = lambda cx, o: SInt(o.nfiles - 1)
        reg.attr_bindings[(c, "_is_attrs")] = lambda cx, o: SBool(o.is_attrs)
        reg.method_bindings[(c, "_guard_open")] = lambda cx, o: (None if cx.decide(o.is_open) else cx.py_raise("KeyError", "Record is not open or accessible!"))
        reg.method_bindings[(c, "_guard_read_only")] = lambda cx, o: (cx.py_raise("ValueError", "Create a patch") if cx.decide(o.read_only) else None)
        reg.method_bindings[(c, "_guard_key")] = lambda cx, o, k: (None if cx.decide(o.key_ok(k.t)) else cx.py_raise("ValueError", "invalid key"))
        reg.method_bindings[(c, "_guard_value")] = _guard_value_binding
        reg.method_bindings[(c, "_expect_real_item_idx")] = lambda cx, o, k: (SInt(FOUND_IDX(k.t)) if cx.decide(VISIBLE(k.t)) else cx.py_raise("KeyError", "does not exist"))
        reg.method_bindings[(c, "_abs_path")] = lambda cx, o, p: SStr(abs_path_term(o, p.t if isinstance(p, SStr) else z3.StringVal(p)))
    reg.method_bindings[("IH5Group", "_node_seq")] = lambda cx, o, p: NodeSeq(p.t)
    reg.attr_bindings[("IH5Group", "_record")] = lambda cx, o: OpaqueVal("record")
    c = "IH5GroupForCreate"
    reg.set_class_home(c, "ih5/overlay.py", "IH5Group")
    reg.attr_bindings[(c, "_files")] = lambda cx, o: o.wfiles
    reg.attr_bindings[(c, "_last_idx")] = lambda cx, o: SInt(o.nfiles - 1)
    reg.attr_bindings[(c, "_record")] = lambda cx, o: OpaqueVal("record")
    reg.method_bindings[(c, "_guard_open")] = lambda cx, o: (None if cx.decide(o.is_open) else cx.py_raise("KeyError", "Record is not open or accessible!"))
    reg.method_bindings[(c, "_guard_read_only")] = lambda cx, o: (cx.py_raise("ValueError", "Create a patch") if cx.decide(o.read_only) else None)
    reg.method_bindings[(c, "_guard_key")] = lambda cx, o, k: (None if cx.decide(o.key_ok(k.t)) else cx.py_raise("ValueError", "invalid key"))
    reg.method_bindings[(c, "_guard_value")] = _guard_value_binding
    reg.method_bindings[(c, "_abs_path")] = lambda cx, o, p: SStr(abs_path_term(o, p.t if isinstance(p, SStr) else z3.StringVal(p)))
    reg.method_bindings[(c, "_find")] = lambda cx, o, p: SMaybe(z3.Not(VISIBLE(p.t)), SInt(FOUND_IDX(p.t)))
    reg.method_bindings[(c, "_get_child")] = lambda cx, o, p, i: ExistingNode()
    reg.method_bindings[(c, "_get_child_raw")] = lambda cx, o, p, i: WNode(p.t if isinstance(p, SStr) else z3.StringVal(p))

    def create_virtual(cx, o, p):
        pt = p.t if isinstance(p, SStr) else z3.StringVal(p)
        cx.effect("create-virtual", pt)
        o.wfiles.newest.created.append(pt)
        return True

    reg.method_bindings[(c, "_create_virtual")] = create_virtual
    specs = [GroupDelitem(), AttrDelitem(), AttrSetitem(), GroupCreateGroup(), IsDelMark(), NodeIsDelMark(), GroupCreateDataset()]
    for s in specs:
        reg.add(s)
    return specs


# ------------------------------------------------------------------------------------------------
# what counts as a deletion marker (C01, C09, C17): only np.void(b"\x7f"), never user data that merely has the same byte

I_ = z3.IntSort()
NV = z3.DeclareSort("NumpyValue")
NV_IS_ARRAY = z3.Function("np_is_ndarray", NV, B)
NV_NDIM = z3.Function("np_ndim", NV, I_)
NV_ITEM = z3.Function("np_item_of_0d_array", NV, NV)  # arr[()] of a 0-dim array: the scalar
NV_IS_VOID = z3.Function("np_is_void_scalar", NV, B)  # isinstance(v, np.void)
NV_BYTES = z3.Function("np_tobytes", NV, S)
NV_SCALAR_SHAPE = z3.Function("np_shape_is_scalar", NV, B)
NV_DTYPE_IS_VOID = z3.Function("np_dtype_kind_is_void", NV, B)
NV_ITEMSIZE = z3.Function("np_itemsize", NV, I_)
DS_VALUE = z3.Function("h5_dataset_value", NV, NV)  # node[()] of an h5py dataset (keyed by an id of the dataset)
DEL_BYTES = z3.StringVal("\x7f")

T_NUMPY = "T8 numpy/h5py value protocol: isinstance(v, np.ndarray/np.void), v.ndim, arr[()] of a 0-d array is its scalar with the same bytes, v.tobytes(); reading a dataset gives its stored value; np.void scalars are not ndarrays"


def is_marker_value(v):
    """specification: the value is np.void(b'\\x7f'), possibly wrapped as a 0-dim array"""
    item = z3.If(z3.And(NV_IS_ARRAY(v), NV_NDIM(v) == 0), NV_ITEM(v), v)
    return z3.And(NV_IS_VOID(item), NV_BYTES(item) == DEL_BYTES)


class NumVal(SVal):
    def __init__(self, t):
        self.t = t

    def py_isinstance(self, cx, c):
        if c == "ndarray":
            return NV_IS_ARRAY(self.t)
        if c == "void":
            return NV_IS_VOID(self.t)
        if c in ("H5Dataset",):
            return False
        raise Unsupported("isinstance of a numpy value with " + str(c))

    def py_getattr(self, cx, name):
        if name == "ndim":
            return SInt(NV_NDIM(self.t))
        if name == "shape":
            return ShapeVal(self.t)
        if name == "dtype":
            return DTypeVal(self.t)
        raise Unsupported("numpy attribute " + name)

    def py_getitem(self, cx, idx):
        if idx != ():
            raise Unsupported("numpy indexing other than [()]")
        return NumVal(NV_ITEM(self.t))

    def meth_tobytes(self, cx):
        return SStr(NV_BYTES(self.t))


class ShapeVal(SVal):
    def __init__(self, t):
        self.t = t

    def py_eq(self, cx, o):
        if o == ():
            return NV_SCALAR_SHAPE(self.t)
        raise Unsupported("shape comparison")


class DTypeVal(SVal):
    def __init__(self, t):
        self.t = t

    def py_eq(self, cx, o):
        if isinstance(o, MarkerDType):
            return z3.And(NV_DTYPE_IS_VOID(self.t), NV_ITEMSIZE(self.t) == 1)  # dtype('V1')
        raise Unsupported("dtype comparison")

    def py_getattr(self, cx, name):
        if name == "itemsize":
            return SInt(NV_ITEMSIZE(self.t))
        raise Unsupported("dtype." + name)


class DatasetVal(NumVal):
    """an h5py.Dataset node: reading it gives the stored value"""

    def py_isinstance(self, cx, c):
        if c == "H5Dataset":
            return True
        return False

    def py_getitem(self, cx, idx):
        if idx != ():
            raise Unsupported("dataset read other than [()]")
        return NumVal(DS_VALUE(self.t))

    def py_getattr(self, cx, name):
        if name == "shape":
            return ShapeVal(DS_VALUE(self.t))
        if name == "dtype":
            return DTypeVal(DS_VALUE(self.t))
        raise Unsupported("dataset attribute " + name)


class NpClasses(SVal):
    def py_getattr(self, cx, name):
        if name in ("ndarray", "void"):
            return SClass(name)
        raise Unsupported(f"np.{name}")


class MarkerDType(SVal):
    """DEL_VALUE.dtype = dtype('V1')"""


class DelValueConst(SVal):
    def meth_tobytes(self, cx):
        return SStr(DEL_BYTES)

    def py_getattr(self, cx, name):
        if name == "dtype":
            return MarkerDType()
        raise Unsupported("DEL_VALUE." + name)


def _axioms(cx):
    v = z3.Const("nv_ax", NV)
    cx.assume(z3.ForAll([v], z3.Implies(NV_IS_VOID(v), z3.Not(NV_IS_ARRAY(v)))))  # a void scalar is not an ndarray
    cx.assume(z3.ForAll([v], z3.Implies(z3.And(NV_IS_ARRAY(v), NV_NDIM(v) == 0), z3.Not(NV_IS_ARRAY(NV_ITEM(v))))))  # the item of a 0-d array is a scalar


class IsDelMark(FnSpec):
    file = "ih5/overlay.py"
    qual = "_is_del_mark"
    props = ("C01", "C09", "C17")

    def init(self):
        self.bindings["np"] = NpClasses()
        self.bindings["DEL_VALUE"] = DelValueConst()

    def setup(self, cx):
        _axioms(cx)
        return A(val=NumVal(z3.Const("val", NV)))

    def result(self, cx, a):
        return SBool(is_marker_value(a.val.t))

    pure = True

    def ensures(self, cx, a, res):
        from .c16 import is_bool_eq

        return [("marker-iff-void-0x7f", is_bool_eq(res, is_marker_value(a.val.t)), "a value is a deletion marker exactly if it is np.void(b'\\x7f') (also as 0-dim array); user data with the same byte (uint8 127, b'\\x7f' strings, ...) never is")]


class NodeIsDelMark(FnSpec):
    file = "ih5/overlay.py"
    qual = "_node_is_del_mark"
    props = ("C01", "C09", "C17")

    def init(self):
        self.bindings["np"] = NpClasses()
        self.bindings["h5py"] = H5pyMod()
        self.bindings["DEL_VALUE"] = DelValueConst()

    def setup(self, cx):
        _axioms(cx)
        t = z3.Const("node", NV)
        node = DatasetVal(t) if cx.choose(2) == 0 else NumVal(t)
        return A(node=node)

    def ensures(self, cx, a, res):
        from .c16 import is_bool_eq

        v = DS_VALUE(a.node.t) if isinstance(a.node, DatasetVal) else a.node.t
        return [("marker-iff-stored-value-is-void-0x7f", is_bool_eq(res, is_marker_value(v)), "a dataset (or attribute value) marks a deletion exactly if its stored value is np.void(b'\\x7f'): user data is never mistaken for a marker and thus never vanishes from the view")]


# ------------------------------------------------------------------------------------------------
# IH5Group.create_group: the leaf step and the level-by-level recursion (C01, C09, C10)

DEEPEST = z3.Function("deepest_existing_node_path", S, S)  # _gpath of the last node _node_seq(path) finds in the overlay view
DEEPEST_IS_GROUP = z3.Function("deepest_existing_node_is_group", S, B)
NSEG = z3.Function("missing_segments", S, z3.IntSort())  # number of path segments below the deepest existing node
SEG0 = z3.Function("first_missing_segment", S, S)
REST = z3.Function("remaining_missing_segments_joined", S, S)
ISDELP = z3.Function("newest_container_holds_deletion_marker_at", S, B)


class DeepNode(SVal):
    def __init__(self, path_t):
        self.path_t = path_t

    def py_isinstance(self, cx, c):
        if c == "IH5Group":
            return DEEPEST_IS_GROUP(self.path_t)
        raise Unsupported("isinstance of the deepest node with " + str(c))

    def py_getattr(self, cx, name):
        if name == "_gpath":
            return SStr(DEEPEST(self.path_t))
        raise Unsupported("deepest node attribute " + name)

    def meth__rel_path(self, cx, p):
        return RelPath(p.t)


class NodeSeq(SVal):
    def __init__(self, path_t):
        self.path_t = path_t

    def py_getitem(self, cx, i):
        if i != -1:
            raise Unsupported("only the last node of the sequence is used")
        return DeepNode(self.path_t)


class RelPath(SVal):
    def __init__(self, path_t):
        self.path_t = path_t

    def meth_split(self, cx, sep):
        if sep != "/":
            raise Unsupported("split by something else")
        return RelSegs(self.path_t)


class RelSegs(SVal):
    """the non-empty segments of the missing part of the path"""

    def __init__(self, path_t):
        self.path_t = path_t

    def py_len(self, cx):
        return SInt(NSEG(self.path_t))

    def py_getitem(self, cx, i):
        from pyvc.values import SliceVal

        if isinstance(i, SliceVal) and (i.lo, i.hi, i.step) == (1, None, None):
            return RestSegs(self.path_t)
        if i == 0:
            return SStr(SEG0(self.path_t))
        raise Unsupported("other segment access")


class RestSegs(SVal):
    def __init__(self, path_t):
        self.path_t = path_t

    def py_joined_by(self, cx, sep):
        if sep != "/":
            raise Unsupported("joined by something else")
        return JoinedRest(self.path_t)


def rel_segs_schema(interp, cx, fr, e):
    import ast

    src = interp.eval(cx, fr, e.generators[0].iter)
    if not isinstance(src, RelSegs) or [ast.unparse(c) for c in e.generators[0].ifs] != [e.generators[0].target.id] or ast.unparse(e.elt) != e.generators[0].target.id:
        from pyvc.api import ContractStale

        raise ContractStale("create_group: the comprehension is no longer `the non-empty segments of the relative path`")
    return src


class CreatedGroup(SVal):
    def __init__(self, path_t, by):
        self.path_t, self.by = path_t, by

    def py_truth(self, cx):
        return True

    def meth_create_group(self, cx, name):
        if isinstance(name, JoinedRest):
            t = REST(name.path_t)
        elif isinstance(name, SStr):
            t = name.t
        else:
            raise Unsupported("create_group on the new parent with this name")
        g = CreatedGroup(z3.String(fresh_name("nested_group_path")), self)
        cx.effect("create-group-rec", self, t, g)
        return g


class JoinStr(SStr):
    pass


class GroupCreateGroup(Writer):
    qual = "IH5Group.create_group"
    props = ("C01", "C09", "C10")
    recursive = True

    def init(self):
        Writer.init(self)
        self.bindings["_node_is_del_mark"] = lambda cx, node: SBool(ISDELP(node.path))
        self.bindings["IH5Group"] = GroupClass()
        self.bindings["SUBST_KEY"] = "__SUBST_KEY__"
        self.comps[0] = rel_segs_schema

    def setup(self, cx):
        n = wnode_obj(cx)
        a = A(self=n, name=SStr(z3.String("name")))
        p = abs_path_term(n, a.name.t)
        cx.assume(NSEG(p) >= 0)
        return a

    def raises(self, cx, a):
        n = a.self
        p = abs_path_term(n, a.name.t)
        return {"KeyError": z3.Not(n.is_open), "ValueError": z3.Or(n.read_only, z3.Not(DEEPEST_IS_GROUP(p)), DEEPEST(p) == p)}

    def ensures(self, cx, a, res):
        n = a.self
        p = abs_path_term(n, a.name.t)
        fx = cx.fx
        kinds = [e[0] for e in fx]
        out = [("only-when-allowed", z3.And(n.is_open, z3.Not(n.read_only), DEEPEST_IS_GROUP(p), DEEPEST(p) != p), "create_group succeeds exactly on a writable record when nothing exists at the path and the deepest existing ancestor is a group")]
        rec = [e for e in fx if e[0] == "create-group-rec"]
        if rec:
            d = DEEPEST(p)
            pref = z3.If(d == z3.StringVal("/"), z3.StringVal(""), d)
            first_ok = z3.And(z3.BoolVal(len(rec) == 2 and kinds == ["create-group-rec"] * 2 and rec[0][1] is n), rec[0][2] == z3.Concat(pref, z3.StringVal("/"), SEG0(p)) if len(rec) == 2 else False)
            second_ok = z3.And(z3.BoolVal(len(rec) == 2 and isinstance(rec[1][1], CreatedGroup) and isinstance(res, CreatedGroup) and res is rec[1][3]), (rec[1][1].path_t == rec[0][2]) if len(rec) == 2 and isinstance(rec[1][1], CreatedGroup) else False, (rec[1][2] == REST(p)) if len(rec) == 2 else False)
            out.append(("several-missing-levels", NSEG(p) > 1, "the recursion is taken exactly when more than one level is missing"))
            out.append(("missing-parents-created-one-level-at-a-time", z3.And(first_ok, second_ok), "the first missing level is created through create_group itself (so it replaces a deletion marker and is marked like a direct creation), the rest below it; nothing is written directly"))
            return out
        dels = [e for e in fx if e[0] == "h5del"]
        mk = [e for e in fx if e[0] == "h5mkgrp"]
        marks = [e for e in fx if e[0] == "attr-set"]
        out.append(("single-missing-level", NSEG(p) <= 1, "the leaf step creates exactly one level"))
        out.append(("deletion-marker-removed-iff-present", z3.And(z3.BoolVal(len(dels) <= 1), z3.BoolVal(len(dels) == 1) == z3.And(HASP(p), ISDELP(p)), (dels[0][1] == p) if dels else True), "a deletion marker at the path in the newest container is removed first (and only a marker)"))
        out.append(("group-created-at-the-path", z3.And(z3.BoolVal(len(mk) == 1), (mk[0][1] == p) if mk else False), "the group is created in the newest container at the absolute path"))
        out.append(("patch:always-marked-as-new", z3.And(z3.BoolVal(len(marks) == 1) == (n.nfiles > 1), z3.And(marks[0][1] == p, marks[0][2] == z3.StringVal("__SUBST_KEY__")) if marks else True), "in a patch a created group is ALWAYS marked as substituting whatever older containers (of this or any other file set the patch is applied to) hold at that path; the base container needs no mark"))
        out.append(("order-and-nothing-else", z3.BoolVal(kinds == (["h5del"] if dels else []) + ["h5mkgrp"] + (["attr-set"] if marks else [])), "marker removal, creation, mark — nothing else is written"))
        out.append(("returns-the-new-group", z3.BoolVal(isinstance(res, CreatedGroup)) if not isinstance(res, CreatedGroup) else z3.And(res.path_t == p), "the new group in the newest container is returned"))
        return out

    # recursive calls: by contract (logged)
    def apply(self, cx, a):
        nm = a.name
        t = nm.t if isinstance(nm, SStr) else (z3.StringVal(nm) if isinstance(nm, str) else None)
        if isinstance(nm, JoinedRest):
            t = REST(nm.path_t)
        if t is None:
            raise Unsupported("create_group called with this name")
        g = CreatedGroup(t, None)
        cx.effect("create-group-rec", a.self, t, g)
        return g


class JoinedRest(SVal):
    def __init__(self, path_t):
        self.path_t = path_t


class GroupClass(SVal):
    """IH5Group as class object: isinstance target and constructor of the result node"""

    name = "IH5Group"

    def py_call(self, cx, rec, path=None, cidx=None):
        return CreatedGroup(path.t, None)


# ------------------------------------------------------------------------------------------------
# IH5Group.create_dataset (and thereby group[path] = value): C01, C09, C17

H5_CREATE_FAILS = z3.Bool("h5py_create_dataset_rejects_the_value")  # value without HDF5 equivalent, shape/data mismatch, bad filter options


class ExistingNode(SVal):
    def py_isinstance(self, cx, c):
        names = c if isinstance(c, tuple) else (c,)
        return any(n in ("IH5Group", "IH5Dataset") for n in names)


class GroupCreateDataset(Writer):
    qual = "IH5Group.create_dataset"
    props = ("C01", "C09", "C17")

    def init(self):
        Writer.init(self)
        self.bindings["_node_is_del_mark"] = lambda cx, node: SBool(ISDELP(node.path))
        self.bindings["IH5Group"] = SClass("IH5Group")
        self.bindings["IH5Dataset"] = DatasetCtor()
        self.bindings["DEL_VALUE"] = DelMark()

    def setup(self, cx):
        n = wnode_obj(cx)
        n.cls = "IH5GroupForCreate"
        kw = {} if cx.choose(2) == 0 else {"compression": OpaqueVal("gzip")}
        return A(self=n, path=SStr(z3.String("path")), data=OpaqueVal("data"), __kwargs__=kw, kw=kw)

    def raises(self, cx, a):
        n = a.self
        k = a.path.t
        p = abs_path_term(n, k)
        return {"KeyError": z3.Not(n.is_open), "ValueError": z3.Or(n.read_only, z3.Not(n.key_ok(k)), VISIBLE(p)), "TypeError": z3.And(z3.Not(self.guard_conds(cx, a, k)), z3.Not(VISIBLE(p)), H5_CREATE_FAILS)}

    raises_exact = True

    def on_raise(self, cx, a, exc):
        n = a.self
        p = abs_path_term(n, a.path.t)
        fx = cx.fx
        kinds = [e[0] for e in fx]
        if exc.cls != "TypeError":
            return [("rejected-without-effect", z3.BoolVal(not fx), "an operation refused by a guard leaves the record unchanged")]
        had_marker = z3.And(HASP(p), ISDELP(p))
        restored = kinds == ["h5del", "h5set"] and isinstance(fx[1][2], DelMark)
        return [
            ("deleted-stays-deleted-when-creation-fails", z3.Implies(had_marker, z3.And(z3.BoolVal(restored), (fx[0][1] == p) if restored else False, (fx[1][1] == p) if restored else False)), "if the path carried a deletion marker and h5py refuses the new dataset, the marker is back afterwards: data deleted earlier in this patch does not reappear"),
            ("no-dataset-left", z3.BoolVal("h5mkds" not in kinds), "nothing is stored at the path"),
        ]

    def ensures(self, cx, a, res):
        n = a.self
        p = abs_path_term(n, a.path.t)
        fx = cx.fx
        kinds = [e[0] for e in fx]
        mk = [e for e in fx if e[0] == "h5mkds"]
        had_marker = z3.And(HASP(p), ISDELP(p))
        out = [("only-when-allowed", z3.And(z3.Not(self.guard_conds(cx, a, a.path.t)), z3.Not(VISIBLE(p)), z3.Not(H5_CREATE_FAILS)), "create_dataset succeeds exactly on a writable record at a path that shows nothing, with a storable value")]
        out.append(("dataset-stored-once-at-the-path-with-the-given-data", z3.And(z3.BoolVal(len(mk) == 1 and kinds[-1] == "h5mkds" and mk[0][2] is a.data and mk[0][3] == tuple(sorted(a.kw))), (mk[0][1] == p) if mk else False), "the value is stored unmodified at the absolute path in the newest container, last of all"))
        out.append(("marker-removed-iff-present", z3.BoolVal(kinds[:1] == ["h5del"] and "create-virtual" not in kinds) == had_marker, "a deletion marker at the path is replaced by the dataset"))
        out.append(("carriers-only-when-path-absent-from-newest", z3.BoolVal("create-virtual" in kinds) == z3.Not(HASP(p)), "carrier groups are created only if the newest container has nothing at the path"))
        out.append(("returns-the-new-dataset", z3.BoolVal(isinstance(res, CreatedDataset)) if not isinstance(res, CreatedDataset) else (res.path_t == p), "the new dataset node is returned"))
        return out


class CreatedDataset(SVal):
    def __init__(self, path_t):
        self.path_t = path_t


class DatasetCtor(SVal):
    name = "IH5Dataset"

    def py_call(self, cx, rec, path=None, cidx=None):
        return CreatedDataset(path.t)


def _h5_create_dataset(self, cx, p, shape=None, dtype=None, data=None, **kw):
    pt = p.t if isinstance(p, SStr) else z3.StringVal(p)
    if cx.decide(H5_CREATE_FAILS):
        cx.py_raise("TypeError", "no native HDF5 equivalent")
    cx.effect("h5mkds", pt, data, tuple(sorted(kw)))
    self.created.append(pt)


NewestFile.meth_create_dataset = _h5_create_dataset


# ------------------------------------------------------------------------------------------------
# IH5Group.copy / move: where the copy goes (C01, C09)

STRIP_SLASH = z3.Function("str_strip_47", S, S)  # s.strip("/")  (same opaque function the engine uses)


VISIBLE_ABS = z3.Function("visible_in_view_at_absolute_path", S, B)


class ViewNode(SVal):
    """a node of the overlay view at an absolute path"""

    def __init__(self, path_t, root=False):
        self.path_t, self.root = path_t, root

    def py_truth(self, cx):
        return True

    def attr_name(self, cx):
        return SStr(self.path_t)

    def py_getitem(self, cx, key):
        """lookup below this view node (h5py path rules: absolute paths from the root, relative ones from here)"""
        kt = key.t if isinstance(key, SStr) else z3.StringVal(key)
        g = self.path_t
        p = z3.If(z3.PrefixOf(z3.StringVal("/"), kt), kt, z3.If(g == z3.StringVal("/"), z3.Concat(z3.StringVal("/"), kt), z3.Concat(g, z3.StringVal("/"), kt)))
        if not cx.decide(VISIBLE_ABS(p)):
            cx.py_raise("KeyError", "missing")
        return ViewNode(p)

    def attr__cidx(self, cx):
        c = getattr(self, "cidx_t", None)
        if c is None:
            raise Unsupported("container index of this view node")
        return SInt(c)


class GivenNode(SVal):
    """a group/dataset node object handed to copy() as source (not a path)"""

    def __init__(self, name_t):
        self.name_t = name_t

    def py_getattr(self, cx, name):
        if name == "name":
            return SStr(self.name_t)
        raise Unsupported(f"given source node .{name}")

    def py_isinstance(self, cx, cls):
        return False


class GroupCopy(Writer):
    qual = "IH5Group.copy"

    def init(self):
        Writer.init(self)
        self.bindings["h5_copy_from_to"] = lambda cx, src, grp, name, **kw: cx.effect("copy-call", src, grp, name.t if isinstance(name, SStr) else z3.StringVal(name), tuple(sorted(kw)))
        self.bindings["cast"] = lambda cx, t, v: v

    def setup(self, cx):
        if cx.choose(2) == 1:
            # the source given as a NODE (CopySource includes nodes, also of another container: h5py or another record)
            return A(self=wnode_obj(cx), source=GivenNode(z3.String("given_node_name")), dest=SStr(z3.String("dest")), __kwargs__={})
        return A(self=wnode_obj(cx), source=SStr(z3.String("source")), dest=SStr(z3.String("dest")), __kwargs__={})

    def raises(self, cx, a):
        if isinstance(a.source, GivenNode):
            return {}
        return {"KeyError": z3.Not(VISIBLE(a.source.t))}

    def ensures(self, cx, a, res):
        n = a.self
        calls = [e for e in cx.fx if e[0] == "copy-call"]
        if len(calls) != 1:
            return [("one-copy", z3.BoolVal(False), "copy performs one tree copy")]
        _, src, grp, name_t, kw, _line = calls[0]
        if isinstance(a.source, GivenNode):
            return [
                ("the-given-node-is-what-is-copied", z3.BoolVal(src is a.source), "a source given as a node is copied as given (it may belong to another container: nothing is looked up by its name in this record)"),
                ("destination-relative-to-this-group", z3.And(z3.BoolVal(isinstance(grp, ViewNode) and grp.root), name_t == STRIP_SLASH(abs_path_term(n, a.dest.t))), "a relative destination is resolved against the calling group, exactly as on the single tree"),
            ]
        ok_src = isinstance(src, ViewNode) and not src.root
        return [
            ("source-is-the-named-node", (src.path_t == abs_path_term(n, a.source.t)) if ok_src else z3.BoolVal(False), "the node named by `source` (relative to this group) is copied"),
            ("destination-relative-to-this-group", z3.And(z3.BoolVal(isinstance(grp, ViewNode) and grp.root), name_t == STRIP_SLASH(abs_path_term(n, a.dest.t))), "a relative destination is resolved against the calling group, exactly as on the single tree"),
        ]


class GroupMove(Writer):
    qual = "IH5Group.move"

    def setup(self, cx):
        return A(self=wnode_obj(cx), source=SStr(z3.String("source")), dest=SStr(z3.String("dest")))

    def raises(self, cx, a):
        # move refuses nothing by itself -- whatever is refused is refused by the copy or by the deletion (their contracts), exactly as on the single
        # tree -- except, at most, a destination that IS the source or lies INSIDE it (path-segment boundary; the single tree refuses that too)
        src, dst = abs_path_term(a.self, a.source.t), abs_path_term(a.self, a.dest.t)
        sl = z3.StringVal("/")
        inside = z3.Or(dst == src, z3.PrefixOf(z3.Concat(src, sl), dst), z3.Concat(dst, sl) == src, z3.Concat(src, sl) == dst, src == sl)
        return {"Exception": inside}

    def ensures(self, cx, a, res):
        calls = list(cx.fx)
        ok = len(calls) == 2 and calls[0][0] == "copy-m" and calls[1][0] == "del-m"
        out = [("copy-then-delete", z3.BoolVal(ok), "move = copy to the destination, then delete the source")]
        if ok:
            out.append(("same-arguments", z3.BoolVal(calls[0][1] is a.source and calls[0][2] is a.dest and calls[1][1] is a.source), "the source is copied to dest and then the source is deleted"))
        return out


def add_copy_move(reg):
    def getitem(cx, node, key):
        kt = key.t if isinstance(key, SStr) else z3.StringVal(key)
        if isinstance(key, str) and key == "/":
            return ViewNode(z3.StringVal("/"), root=True)
        if not cx.decide(VISIBLE(kt)):
            cx.py_raise("KeyError", "missing")
        v = ViewNode(abs_path_term(node, kt))
        v.cidx_t = FOUND_IDX(kt)
        return v

    reg.method_bindings[("IH5Group", "__getitem__")] = getitem
    reg.method_bindings[("IH5GroupForMove", "__getitem__")] = getitem
    reg.method_bindings[("IH5GroupForMove", "__contains__")] = lambda cx, o, k: SBool(VISIBLE(k.t if isinstance(k, SStr) else z3.StringVal(k)))
    specs = [GroupCopy(), GroupMove()]
    reg.add(specs[0])
    reg.add(specs[1])
    # for move: copy and delete are logged as calls
    orig_setup = specs[1].setup

    def setup(cx):
        a = orig_setup(cx)
        a.self.cls = "IH5GroupForMove"
        return a

    specs[1].setup = setup
    reg.set_class_home("IH5GroupForMove", "ih5/overlay.py", "IH5Group")
    reg.attr_bindings[("IH5GroupForMove", "_files")] = lambda cx, o: o.wfiles
    reg.attr_bindings[("IH5GroupForMove", "_last_idx")] = lambda cx, o: SInt(o.nfiles - 1)
    reg.method_bindings[("IH5GroupForMove", "_abs_path")] = lambda cx, o, p: SStr(abs_path_term(o, p.t if isinstance(p, SStr) else z3.StringVal(p)))
    reg.method_bindings[("IH5GroupForMove", "copy")] = lambda cx, o, s, d, **kw: cx.effect("copy-m", s, d)
    reg.method_bindings[("IH5GroupForMove", "__delitem__")] = lambda cx, o, k: cx.effect("del-m", k)
    return specs
