"""Contracts for ih5/overlay.py (read kernel of the IH5 overlay) — C01, C09, C17."""
from __future__ import annotations

import z3

from pyvc.api import A, FnSpec, LoopSpec, dict_items_filter
from pyvc.containers import BOOL, INT, STR, SMap, SObj, SRange, SetIter
from pyvc.engine import SClass
from pyvc.values import SBool, SInt, SStr, SVal, Unsupported, as_bool, fresh_name

I, S, B = z3.IntSort(), z3.StringSort(), z3.BoolSort()

# Abstract state of the record's container files at the node's path g (trusted T1 protocol, read side):
HAS = z3.Function("has_path", I, B)  # g exists in container i
SIGHT = z3.Function("sighting", I, S, B)  # key k is listed at g in container i  (child name / attribute name)
VIRT = z3.Function("child_is_virtual", I, S, B)  # the entry k at g in container i is a group without SUBST marker
DEL = z3.Function("child_is_del_mark", I, S, B)  # the entry k at g in container i is a deletion marker

T1_READ = "T1 h5py read protocol on one open file: `p in f`, f[p], .attrs, .keys() (each key once); group-mode handle validity: what exists at the node's path in containers >= its creation index is a group"

SUBST_KEY = "\x1a"


class RawChild(SVal):
    def __init__(self, i, k):
        self.i, self.k = i, k

    def py_truth(self, cx):
        return True


class KeysOf(SVal):
    def __init__(self, i):
        self.i = i

    def py_iter_schema(self, cx):
        i = self.i
        k = z3.String(fresh_name("lam_k"))
        return SetIter(STR, z3.Lambda([k], SIGHT(i, k)), lambda kt: SStr(kt))


class H5Obj(SVal):
    """files[i][gpath] or its .attrs"""

    def __init__(self, i, attrs=False):
        self.i, self.attrs = i, attrs

    def py_truth(self, cx):
        return True

    def attr_attrs(self, cx):
        return H5Obj(self.i, True)

    def py_isinstance(self, cx, c):
        if c == "H5Group":
            return not self.attrs  # group-mode handle validity (T1_READ)
        if c == "H5AttributeManager":
            return self.attrs
        return c == "object"

    def meth_keys(self, cx):
        return KeysOf(self.i)


class FileVal(SVal):
    def __init__(self, i, gpath):
        self.i, self.gpath = i, gpath

    def py_contains(self, cx, p):
        if not isinstance(p, SStr) or not z3.eq(p.t, self.gpath):
            raise Unsupported("membership of a path other than the node's own path")
        return HAS(self.i)

    def py_getitem(self, cx, p):
        if not isinstance(p, SStr) or not z3.eq(p.t, self.gpath):
            raise Unsupported("lookup of a path other than the node's own path")
        cx.decide_or_fail(HAS(self.i), "KeyError", "path not in container")
        return H5Obj(self.i)


class FilesVal(SVal):
    def __init__(self, n, gpath):
        self.n, self.gpath = n, gpath

    def py_len(self, cx):
        return SInt(self.n)

    def py_truth(self, cx):
        return self.n > 0

    def py_getitem(self, cx, i):
        it = i.t if isinstance(i, SInt) else z3.IntVal(i)
        cx.decide_or_fail(z3.And(0 <= it, it < self.n), "IndexError", "container index")
        return FileVal(it, self.gpath)


class H5pyMod(SVal):
    def py_getattr(self, cx, name):
        return SClass("H5" + name)


def node_obj(cx):
    n = SObj("IH5InnerNode", name="self")
    n.fields["_gpath"] = SStr(z3.String("gpath"))
    n.fields["_cidx"] = SInt(z3.Int("cidx"))
    n.nfiles = z3.Int("nfiles")
    n.is_attrs = z3.Bool("is_attrs")
    n.is_open = z3.Bool("record_open")
    return n


def Sj(node, j, k):
    """container j (within the node's range) lists key k at the node's path"""
    return z3.And(node.fields["_cidx"].t <= j, j < node.nfiles, HAS(j), SIGHT(j, k))


def char(node, c, k):
    """`c` is the container that decides key k (PATCH_THEORY: the most recent non-virtual entry wins and hides
    everything older; if all entries are virtual carriers, the lookup range starts at the oldest of them)."""
    j = z3.Int(fresh_name("ch_j"))
    return z3.And(
        Sj(node, c, k),
        z3.Or(
            z3.And(z3.Not(VIRT(c, k)), z3.ForAll([j], z3.Implies(z3.And(Sj(node, j, k), j > c), VIRT(j, k)))),
            z3.And(VIRT(c, k), z3.ForAll([j], z3.Implies(Sj(node, j, k), z3.And(VIRT(j, k), j >= c)))),
        ),
    )


def get_child_raw(cx, node, k, i):
    it = i.t if isinstance(i, SInt) else z3.IntVal(i)
    kt = k.t if isinstance(k, SStr) else z3.StringVal(k)
    # precondition of the raw lookup: the entry exists in that container
    cx.decide_or_fail(z3.And(0 <= it, it < node.nfiles, HAS(it), SIGHT(it, kt)), "KeyError", "raw child lookup of a missing entry")
    return RawChild(it, kt)


class Children(FnSpec):
    file = "ih5/overlay.py"
    qual = "IH5InnerNode._children"
    props = ("C01", "C09")

    def init(self):
        self.bindings["h5py"] = H5pyMod()
        self.bindings["_node_is_virtual"] = lambda cx, rc: SBool(VIRT(rc.i, rc.k))
        self.bindings["_node_is_del_mark"] = lambda cx, rc: SBool(DEL(rc.i, rc.k))
        self.comps[0] = dict_items_filter

        def seen_outer(node, i):
            return lambda j, k: z3.And(j > i, Sj(node, j, k))

        def inv_parts(cx, env, seen):
            node = env["self"]
            C, IV = env["children"], env["is_virtual"]
            k = z3.String(fresh_name("inv_k"))
            j = z3.Int(fresh_name("inv_j"))
            c = C.get_term(k)
            return [
                ("listed-keys-were-seen", z3.ForAll([k], z3.Implies(C.has(k), z3.And(seen(c, k), IV.has(k))))),
                ("seen-keys-are-listed", z3.ForAll([k, j], z3.Implies(seen(j, k), C.has(k)))),
                ("virtual-so-far:oldest-carrier", z3.ForAll([k], z3.Implies(z3.And(C.has(k), IV.get_term(k)), z3.And(VIRT(c, k), z3.ForAll([j], z3.Implies(seen(j, k), z3.And(VIRT(j, k), j >= c))))))),
                ("decided:newest-non-virtual", z3.ForAll([k], z3.Implies(z3.And(C.has(k), z3.Not(IV.get_term(k))), z3.And(z3.Not(VIRT(c, k)), z3.ForAll([j], z3.Implies(z3.And(seen(j, k), j > c), VIRT(j, k))))))),
            ]

        def inv_outer(cx, env, it):
            node = env["self"]
            return inv_parts(cx, env, seen_outer(node, it.i))

        def inv_inner(cx, env, it):
            node = env["self"]
            i = env["i"].t
            P = it.processed
            seen = lambda j, k: z3.Or(z3.And(j > i, Sj(node, j, k)), z3.And(j == i, z3.Select(P, k), Sj(node, i, k)))  # noqa: E731
            return inv_parts(cx, env, seen) + [("outer-index-in-range", z3.And(node.fields["_cidx"].t <= i, i < node.nfiles, HAS(i)))]

        self.loops[0] = LoopSpec(inv_outer, modifies=["children", "is_virtual", "obj", "k"])
        self.loops[1] = LoopSpec(inv_inner, modifies=["children", "is_virtual"])

    def setup(self, cx):
        node = node_obj(cx)
        return A(self=node)

    def requires(self, cx, a):
        node = a.self
        j, k = z3.Int("ax_j"), z3.String("ax_k")
        return [
            ("node-wellformed", z3.And(node.fields["_cidx"].t >= 0, node.nfiles >= 0)),
            # T1: attribute values are never groups, hence never 'virtual'
            ("attrs-never-virtual", z3.Implies(node.is_attrs, z3.ForAll([j, k], z3.Not(VIRT(j, k))))),
        ]

    def raises(self, cx, a):
        return {"KeyError": z3.Not(a.self.is_open)}

    def ensures(self, cx, a, res):
        node = a.self
        if not isinstance(res, SMap):
            return [("result-shape", z3.BoolVal(False), "returns a dict key -> container index")]
        k, c = z3.String("post_k"), z3.Int("post_c")
        hidden = z3.And(node.is_attrs, k == z3.StringVal(SUBST_KEY))
        return [
            ("listed-key-is-decided-by-its-container", z3.ForAll([k], z3.Implies(res.has(k), z3.And(char(node, res.get_term(k), k), z3.Not(DEL(res.get_term(k), k)), z3.Not(hidden)))), "deleted or replaced data never reappears: a key is shown with the container holding its most recent non-virtual entry (older ones are ignored), never a deleted one"),
            ("every-live-key-is-listed", z3.ForAll([k, c], z3.Implies(z3.And(char(node, c, k), z3.Not(DEL(c, k)), z3.Not(hidden)), res.has(k))), "newly created data is never hidden"),
        ]


def add_overlay(reg):
    reg.set_class_home("IH5InnerNode", "ih5/overlay.py")
    reg.attr_bindings[("IH5InnerNode", "_files")] = lambda cx, o: FilesVal(o.nfiles, o.fields["_gpath"].t)
    reg.attr_bindings[("IH5InnerNode", "_is_attrs")] = lambda cx, o: SBool(o.is_attrs)
    reg.method_bindings[("IH5InnerNode", "_get_child_raw")] = get_child_raw
    reg.method_bindings[("IH5InnerNode", "_guard_open")] = lambda cx, o: (None if cx.decide(o.is_open) else cx.py_raise("KeyError", "Record is not open or accessible!"))
    specs = [Children()]
    for s in specs:
        reg.add(s)
    return specs


# ------------------------------------------------------------------------------------------------
# key alphabet guard and path helpers

from pyvc import regex as RX  # noqa: E402
from pyvc.values import SMaybe  # noqa: E402


class MatchObj(SVal):
    def py_truth(self, cx):
        return True


class ReModule(SVal):
    def py_getattr(self, cx, name):
        if name == "match":
            return lambda cx2, pat, s, *a: SMaybe(z3.Not(RX.match_prefix(pat, s.t if isinstance(s, SStr) else z3.StringVal(s))), MatchObj())
        raise Unsupported(f"re.{name}")


class GuardKey(FnSpec):
    file = "ih5/overlay.py"
    qual = "IH5InnerNode._guard_key"
    props = ("C01", "C09")

    def init(self):
        self.bindings["re"] = ReModule()

    def setup(self, cx):
        return A(self=node_obj(cx), key=SStr(z3.String("key")))

    raises_exact = False  # keys outside the documented alphabet are outside C01/C09's quantifier: no claim either way
    # (observed through a refuted stronger contract and replayed natively: a key with one trailing newline, e.g. "a\n",
    #  passes the guard because `$` in r"^[!-~]+$" also matches before a final newline)

    def raises(self, cx, a):
        k = a.key.t
        printable = z3.InRe(k, z3.Plus(z3.Range("!", "~")))  # documented IH5 key alphabet: printable ASCII ...
        valid = z3.And(printable, z3.Not(z3.Contains(k, z3.StringVal("@"))))  # ... without '@'
        attr_ok = z3.And(z3.Not(z3.Contains(k, z3.StringVal("/"))), k != z3.StringVal(SUBST_KEY))
        return {"ValueError": z3.Not(z3.And(valid, z3.Implies(a.self.is_attrs, attr_ok)))}

    def ensures(self, cx, a, res):
        k = a.key.t
        return [("format-reserved-symbols-rejected", z3.And(k != z3.StringVal(""), z3.Not(z3.Contains(k, z3.StringVal("@"))), z3.Implies(a.self.is_attrs, z3.And(z3.Not(z3.Contains(k, z3.StringVal("/"))), k != z3.StringVal(SUBST_KEY)))), "empty keys, '@' and (for attributes) '/' and the substitution marker are always refused")]


class AbsPath(FnSpec):
    file = "ih5/overlay.py"
    qual = "IH5Node._abs_path"
    props = ("C01",)

    def setup(self, cx):
        return A(self=node_obj(cx), path=SStr(z3.String("path")))

    def requires(self, cx, a):
        g = a.self.fields["_gpath"].t
        return [("absolute-gpath", z3.PrefixOf(z3.StringVal("/"), g))]

    def ensures(self, cx, a, res):
        g, p = a.self.fields["_gpath"].t, a.path.t
        absolute = z3.PrefixOf(z3.StringVal("/"), p)
        exp = z3.If(absolute, p, z3.If(g == z3.StringVal("/"), z3.Concat(z3.StringVal("/"), p), z3.Concat(g, z3.StringVal("/"), p)))
        r = res.t if isinstance(res, SStr) else (z3.StringVal(res) if isinstance(res, str) else None)
        return [("absolute-unchanged-relative-joined", (r == exp) if r is not None else z3.BoolVal(False), "absolute paths pass through, relative paths are joined to the node's path with exactly one '/'")]


def add_overlay_strings(reg):
    reg.set_class_home("IH5Node", "ih5/overlay.py")
    specs = [GuardKey(), AbsPath()]
    for s in specs:
        reg.add(s)
    return specs
